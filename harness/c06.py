"""C06 — parameter runs are isolated from each other and from the caller's objects (partial: see assumptions).

obligations: lean/PyxelModel/Props/C06.lean (store model: deepcopy = same value + no shared object; writes through a
             separated copy never change the original; runs independent of number / order / failures of other runs)
tie to code : (a) the separation hypothesis `Sep` is *measured* on the real object graphs: after create_new_processor /
              Processor.replace / deepcopy / update_processor the graphs of original and copy are extracted by identity,
              sent to the Lean model (reachability + unfolding on the same graph) and walked independently in Python;
              real mutations through the copy are replayed in the model; `copy.copy` is the negative control;
              (b) deep structural snapshots of the caller's detector / pipeline / observation before and after run_mode
              (observation both paths, repeated and failing observations, calibration);
              (c) every run's data against an independently built standalone exposure, with probes that keep state in
              `detector._memory`, mutate their own list / dict arguments, and fail for one parameter value.
"""

from __future__ import annotations

import copy
import enum
import hashlib
import json
import logging
import os
import shutil
import sys
import tempfile
import types

import c05
import common
from common import LeanDriver, run_check

def obsprobes_mod():
    import obsprobes

    return obsprobes


# ------------------------------------------------------------------ object graph extraction
_LOCK_TYPES = tuple({type(__import__("threading").Lock()), type(__import__("threading").RLock())})


def is_atomic(o) -> bool:
    """objects without observable mutable state: sharing them between original and copy is harmless"""
    import pathlib

    import numpy as np

    if o is None or isinstance(o, (bool, int, float, complex, str, bytes, type, enum.Enum, np.generic, np.dtype,
                                   types.FunctionType, types.BuiltinFunctionType, types.MethodType, types.ModuleType,
                                   logging.Logger, logging.Handler, pathlib.PurePath, range, slice, frozenset)):
        return True
    if isinstance(o, _LOCK_TYPES):
        return True
    if isinstance(o, tuple):
        return all(is_atomic(x) for x in o)
    if isinstance(o, np.ndarray) and not o.flags.writeable and o.base is None:
        return True  # a read-only array that owns its data cannot be changed through either holder
    return False


def atomic_text(o) -> str:
    if isinstance(o, float):
        return "float:" + o.hex()
    if isinstance(o, (logging.Logger, logging.Handler)):
        return "logger"
    if isinstance(o, (types.FunctionType, types.BuiltinFunctionType, types.MethodType, type, types.ModuleType)):
        return "callable:" + getattr(o, "__qualname__", getattr(o, "__name__", "?"))
    if isinstance(o, _LOCK_TYPES):
        return "lock"
    if isinstance(o, tuple):
        return "tuple:(" + ",".join(atomic_text(x) for x in o) + ")"
    import numpy as np

    if isinstance(o, np.ndarray):
        return opaque_text(o)
    return f"{type(o).__name__}:{o!r}"


def opaque_text(o):
    """mutable objects treated as part-less: value = digest of their content"""
    import numpy as np

    if isinstance(o, np.ndarray):
        return f"ndarray:{o.dtype}:{o.shape}:" + hashlib.sha1(np.ascontiguousarray(o).tobytes() if o.dtype != object
                                                              else repr(o.tolist()).encode()).hexdigest()[:16]
    mod = type(o).__module__ or ""
    if mod.startswith(("pandas", "xarray")):
        return f"{type(o).__name__}:" + hashlib.sha1(repr(o).encode()).hexdigest()[:16]
    if isinstance(o, (set,)):
        return "set:" + repr(sorted(map(repr, o)))
    return None


def fields_of(o):
    """[(name, child)] in a canonical order, or None for an object treated as part-less"""
    if isinstance(o, dict):
        return sorted(((f"[{k!r}]", v) for k, v in o.items()), key=lambda kv: kv[0])
    if isinstance(o, (list, tuple)):
        return [(f"[{i}]", v) for i, v in enumerate(o)]
    fs = [("__class__", type(o))]
    if hasattr(o, "__dict__"):
        fs += list(vars(o).items())
    for klass in type(o).__mro__:
        for s in getattr(klass, "__slots__", ()) or ():
            if isinstance(s, str) and hasattr(o, s) and s not in ("__dict__", "__weakref__"):
                fs.append((s, getattr(o, s)))
    if len(fs) == 1 and not hasattr(o, "__dict__"):
        return None
    return sorted(fs, key=lambda kv: kv[0])


class Graph:
    """heap encoding of the object graphs below some roots (objects identified by `id`)"""

    def __init__(self):
        self.heap: list = []
        self.addr: dict[int, int] = {}
        self.desc: dict[int, str] = {}
        self.keep: list = []  # keeps the walked objects alive (ids stay unique)

    def _new(self, obj):
        self.heap.append(obj)
        return len(self.heap) - 1

    def add(self, o, path="") -> int:
        if is_atomic(o):
            return self._new(["leaf", atomic_text(o)])
        if id(o) in self.addr:
            return self.addr[id(o)]
        self.keep.append(o)
        text = opaque_text(o)
        fs = None if text is not None else fields_of(o)
        if text is not None or fs is None:
            a = self._new(["leaf", text if text is not None else f"opaque:{type(o).__name__}:{o!r}"[:200]])
            self.addr[id(o)] = a
            self.desc[a] = f"{type(o).__name__} at {path or '<root>'}"
            return a
        # reserve the chain (k cells + nil) first so that cycles resolve to the first cell
        first = len(self.heap)
        for _ in fs:
            self.heap.append(None)
        nil = self._new(["nil"])
        a = first if fs else nil
        self.addr[id(o)] = a
        self.desc[a] = f"{type(o).__name__} at {path or '<root>'}"
        for i, (name, child) in enumerate(fs):
            c = self.add(child, f"{path}.{name}" if path else name)
            self.heap[first + i] = ["cell", name, c,
                                    first + i + 1 if i + 1 < len(fs) else nil]
        return a

    def reach(self, a):
        seen, stack = set(), [a]
        while stack:
            x = stack.pop()
            if x in seen:
                continue
            seen.add(x)
            o = self.heap[x]
            if o[0] == "cell":
                stack += [o[2], o[3]]
        return seen

    def value(self, a, depth=0):
        """unfolding (the model's `Tree`) as canonical JSON text digest — used for snapshots"""
        out, stack = [], [a]
        guard = 0
        while stack:
            x = stack.pop()
            guard += 1
            if guard > 2_000_000:
                raise common.InfraError("object graph unfolding does not terminate (cycle)")
            o = self.heap[x]
            if o[0] == "cell":
                out.append("c:" + o[1])
                stack += [o[3], o[2]]
            else:
                out.append(o[0] + ":" + (o[1] if len(o) > 1 else ""))
        return hashlib.sha1("\n".join(out).encode()).hexdigest()


def snapshot(**roots):
    g = Graph()
    return {k: g.value(g.add(v, k)) for k, v in roots.items()}


def public_state(obj):
    """settings and contents of a detector / pipeline / processor as the PUBLIC interface shows them (what the property
    talks about): private caches, renamed internals and helper objects do not enter"""
    from pyxel.detectors import Detector
    from pyxel.pipelines import DetectionPipeline, Processor

    if isinstance(obj, Processor):
        return {"detector": public_state(obj.detector), "pipeline": public_state(obj.pipeline),
                "mode": mode_settings(obj.observation) if getattr(obj, "observation", None) is not None else None}
    if isinstance(obj, Detector):
        out = {"dict": obj.to_dict(), "memory": obsprobes_mod().det_memory(obj)}
        try:
            out["persistence"] = obj.persistence if obj.has_persistence() else None
        except Exception:  # noqa: BLE001
            out["persistence"] = "n/a"
        return out
    if isinstance(obj, DetectionPipeline):
        out = {}
        for gname in obj.model_group_names:
            grp = getattr(obj, gname)
            out[gname] = None if not grp else [
                {"name": m.name, "enabled": m.enabled, "arguments": dict(m.arguments)} for m in grp.models]
        return out
    return obj


DEEP_ONLY = {"n": 0}


def caller_snapshot(**roots):
    """digest per caller object of its public state (judged) — the identity walk over every attribute, private ones
    included, is kept as a second digest: a difference there alone is counted, not judged"""
    pub = snapshot(**{k: public_state(v) for k, v in roots.items()})
    deep = snapshot(**roots)
    return {k: (pub[k], deep[k]) for k in roots}


def changed_objects(before, after, ck=None):
    """names whose PUBLIC state differs; a private-only difference is only counted"""
    out = [k for k in before if before[k][0] != after[k][0]]
    if not out and ck is not None and any(before[k][1] != after[k][1] for k in before):
        ck.count("private-state-differs-public-state-equal(not judged)")
    return out


def param_settings(pv):
    return {"key": pv.key, "values": pv.values, "enabled": pv.enabled, "boundaries": pv.boundaries,
            "logarithmic": pv.logarithmic}


def public_props(obj):
    """{name: value} of the public properties and public instance attributes of an object (None stays None)"""
    if obj is None:
        return None
    out = {}
    for klass in type(obj).__mro__:
        for name, v in vars(klass).items():
            if isinstance(v, property) and not name.startswith("_") and name not in out:
                try:
                    out[name] = getattr(obj, name)
                except Exception as e:  # noqa: BLE001  (a property that is not available yet)
                    out[name] = "unavailable:" + type(e).__name__
    for name, v in getattr(obj, "__dict__", {}).items():
        if not name.startswith("_") and name not in out:
            out[name] = v
    out["__class__"] = type(obj)
    return out


def mode_settings(mode):
    """the settings of the running-mode object the user passed (Observation / Calibration): its readout, its parameter
    declarations (and table), its outputs settings, its own options — not internal caches"""
    out = {"readout": public_props(getattr(mode, "readout", None)), "outputs": public_props(getattr(mode, "outputs", None)),
           "pipeline_seed": getattr(mode, "pipeline_seed", None)}
    pm = getattr(mode, "parameter_mode", None)
    if pm is not None:
        out["mode_class"] = type(pm).__name__
        out["parameters"] = [param_settings(p) for p in pm.parameters]
        out["custom_data"] = getattr(pm, "custom_data", None)
        out["with_dask"] = mode.with_dask
    else:  # Calibration
        out["parameters"] = [param_settings(p) for p in getattr(mode, "parameters", [])]
        out["result_input_arguments"] = [param_settings(p) for p in (getattr(mode, "result_input_arguments", None) or [])]
        out["algorithm"] = public_props(getattr(mode, "algorithm", None))
        for k in ("num_islands", "num_evolutions", "num_best_decisions", "topology", "pygmo_seed", "result_type",
                  "result_fit_range", "target_fit_range", "weights", "target_data_path"):
            out[k] = getattr(mode, k, None)
    return out


def shared_nodes(orig, new):
    """(graph, addr orig, addr copy, python-side shared addresses with descriptions)"""
    g = Graph()
    a = g.add(orig, "orig")
    b = g.add(new, "copy")
    sh = sorted(g.reach(a) & g.reach(b))
    return g, a, b, sh


# ------------------------------------------------------------------ generator
MUT_BAG_KEY = "pipeline.signal_transfer.mut.arguments.bag"


def gen_case(rng, mode=None, sweep_bag=None, seeded=None, flavour=None):
    case = c05.gen_case(rng, mode=mode, flavour=flavour or rng.choice(["plain", "fine", "vectors", "two_models_same_arg"]),
                        max_runs=8)
    case["memory_seen"] = rng.choice([0, 0, 3, 7])          # what the caller's detector already remembers
    case["stateful"] = rng.sample(["memory", "mutate"], rng.choice([1, 2]))
    case["bag"] = [rng.randrange(9) for _ in range(rng.choice([0, 2, 3]))]
    case["fail_value"] = None
    # seeded-stochastic pipeline: a probe that draws several times from the process-wide generator, with a pause between
    # the draws; every run (and the standalone exposure) is seeded with the same pipeline seed
    case["pipeline_seed"] = rng.randrange(1, 10000) if (seeded or (seeded is None and rng.random() < 0.3)) else None
    if sweep_bag is None:
        sweep_bag = case["mode"] != "custom" and rng.random() < 0.35
    if sweep_bag and case["mode"] != "custom":
        # the list argument that the `mutate` probe changes in place is itself a swept parameter: in sequential mode the
        # runs that step through ANOTHER parameter receive its configured value (the caller's list) as their default
        if "mutate" not in case["stateful"]:
            case["stateful"].append("mutate")
        case["bag"] = case["bag"] or [rng.randrange(9), rng.randrange(9)]
        k = len(case["bag"])
        vals = c05._vector_values(rng, rng.choice([1, 2]), k=k)  # noqa: SLF001
        case["params"].insert(rng.randrange(len(case["params"]) + 1),
                              {"key": MUT_BAG_KEY, "decl": vals, "expect": vals, "enabled": True, "multi": True})
        case["extra_defaults"] = {MUT_BAG_KEY: list(case["bag"])}
        if sum(p["enabled"] for p in case["params"]) < 2:
            for p in case["params"]:
                p["enabled"] = True
    return case


def extra_models(case):
    """stateful probes after the stamp probes: slots nslots(case), nslots(case)+1, …"""
    s = c05.nslots(case)
    ms = []
    for kind in case["stateful"]:
        if kind == "memory":
            ms.append({"name": "mem", "func": "obsprobes.memory", "arguments": {"slot": s}})
        else:
            ms.append({"name": "mut", "func": "obsprobes.mutate",
                       "arguments": {"slot": s, "bag": list(case["bag"]), "table": {"touched": 0, "k": [1, 2]}}})
        s += 1
    if case.get("pipeline_seed") is not None:
        ms.append({"name": "rnd", "func": "obsprobes.draw", "arguments": {"slot": s, "n": 3, "delay_ms": 2.0}})
        s += 1
    if case.get("fail_key"):
        ms.append({"name": "boom", "func": "obsprobes.fail_if",
                   "arguments": {"slot": s, "bad": case["fail_value"], "value": None}})
        s += 1
    return {"signal_transfer": ms}, s - c05.nslots(case)


def build(case):
    extra, n = extra_models(case)
    det, pipe = c05.build_objects(case, extra=extra)
    if case["memory_seen"]:
        obsprobes_mod().det_memory(det)["obsprobes_seen"] = case["memory_seen"]
    return det, pipe, n


def first_assignment(case):
    runs = c05.spec_runs(case)
    return runs[0]["assignment"] if runs else {}


# ------------------------------------------------------------------ (a) Sep measured on the real graphs
def heap_request(g, a, b, writes=()):
    return {"heap": g.heap, "orig": a, "copy": b, "writes": list(writes)}


def make_copies(case):
    """(name, orig processor, copy) for every copying entry point"""
    from pyxel.observation import create_new_processor
    from pyxel.pipelines import Processor

    det, pipe, _ = build(case)
    tmp = tempfile.mkdtemp(prefix="verif-c06-obs-")
    try:
        from pyxel.exposure import Readout

        obs = c05.build_observation(case, tmp, with_dask=False)
        obs.readout = Readout(times=[1.0, 2.0, 3.0], non_destructive=True)
    finally:
        shutil.rmtree(tmp, ignore_errors=True)
    proc = Processor(detector=det, pipeline=pipe, observation_mode=obs)  # what run_mode builds
    params = first_assignment(case) if case["mode"] != "custom" else {}
    params = {k: (list(v) if isinstance(v, (list, tuple)) else v) for k, v in params.items()}
    out = [("create_new_processor", proc, create_new_processor(processor=proc, parameter_dict=dict(params))),
           ("Processor.replace", proc, proc.replace(dict(params))),
           ("deepcopy", proc, copy.deepcopy(proc)),
           ("control:copy.copy", proc, copy.copy(proc))]
    return out


def real_writes(new, case):
    """mutations a run performs through its processor, applied to the real copy; returns the ones the model replays
    (as attribute paths from the copy's root)"""
    ws = []
    obsprobes_mod().det_memory(new.detector)["obsprobes_seen"] = 99

    def holder(parent, child):
        """name of the attribute of `parent` that holds the object `child` (whatever it is called)"""
        return next((k for k, v in vars(parent).items() if v is child), None)

    def set_and_find(obj, public_name, value):
        """set a public property; returns the name of the (single) attribute of `obj` that changed"""
        before = dict(vars(obj))
        setattr(obj, public_name, value)
        def differs(a, b):
            try:
                return a is not b and bool(a != b)
            except Exception:  # noqa: BLE001  (arrays …)
                return a is not b

        changed = [k for k, v in vars(obj).items() if k not in before or differs(before[k], v)]
        return changed[0] if len(changed) == 1 else None

    def replay(chain, leaf_attr, value):
        names = [holder(a, b) for a, b in chain]
        if leaf_attr is not None and all(n is not None for n in names):
            ws.append(["rebind", names + [leaf_attr], ["leaf", atomic_text(value)]])

    det = new.detector
    ch, env = det.characteristics, det.environment
    replay([(new, det), (det, ch)], set_and_find(ch, "quantum_efficiency", 0.125), 0.125)
    replay([(new, det), (det, env)], set_and_find(env, "temperature", 111.0), 111.0)
    if getattr(new, "observation", None) is not None:
        # what `Processor.set("observation.readout.…", value)` does for a swept readout setting
        ro = new.observation.readout
        nd = not ro.non_destructive
        replay([(new, new.observation), (new.observation, ro)], set_and_find(ro, "non_destructive", nd), nd)
        ro.times = [7.0, 9.0]
    for g in new.pipeline.model_group_names:
        grp = getattr(new.pipeline, g)
        if grp:
            for m in grp.models:
                for k in list(m.arguments):
                    v = m.arguments[k]
                    if isinstance(v, list):
                        v.append(777)
                    elif isinstance(v, dict):
                        v["touched"] = 777
                m.enabled = not m.enabled
    return ws


def check_sep(ck, case, batch):
    """queue the Lean requests of one case; returns closures that judge the answers"""
    judges = []
    for name, orig, new in make_copies(case):
        g, a, b, sh = shared_nodes(orig, new)
        before = caller_snapshot(orig=orig)
        control = name.startswith("control")
        ws = real_writes(new, case)
        after = caller_snapshot(orig=orig)
        leaked = bool(changed_objects(before, after))
        idx = len(batch)
        batch.append(heap_request(g, a, b, ws))

        def judge(ans, name=name, g=g, sh=sh, control=control, leaked=leaked, case=case):
            ck.case({"case": case, "entry": name}, nontrivial=True, stream="sep")
            ck.count(f"sep:{name}")
            if sorted(ans["shared"]) != sh:
                ck.disagreement("sep-shared", {"case": case, "entry": name}, sh, sorted(ans["shared"]))
            model_leak = ans["after"]["orig_value"] != ans["orig_value"]
            if ans["after"]["unresolved"]:
                ck.disagreement("sep-writes-unresolved", {"case": case, "entry": name}, ans["after"]["unresolved"], 0)
            if model_leak != leaked:
                ck.disagreement("sep-writes", {"case": case, "entry": name}, leaked, model_leak)
            if control:
                ck.count("control_shallow_copy_detected_shared" if sh else "control_shallow_copy_NOT_detected")
                ck.count("control_shallow_copy_leaked" if leaked else "control_shallow_copy_no_leak")
                if not sh:
                    ck.disagreement("sep-control", {"case": case, "entry": name}, "no shared node found for copy.copy", "")
                return
            if leaked:
                ck.violation(f"C06:{name}:write-through-copy-changes-original",
                             f"after {name}, mutating the copy's detector / arguments changed the original processor",
                             {"case": case, "entry": name, "shared": [g.desc.get(x, g.heap[x]) for x in sh][:10]})
            elif sh:
                # the theorem's hypothesis is not established for this configuration
                ck.disagreement("sep-hypothesis", {"case": case, "entry": name},
                                [g.desc.get(x, str(g.heap[x])) for x in sh][:10], [], key=f"C06:{name}:shared-mutable-node")
            if name == "deepcopy" and not ans["values_equal"]:
                ck.disagreement("sep-value", {"case": case, "entry": name}, "copy value differs from original", "")
        judges.append((idx, judge))
    return judges


# ------------------------------------------------------------------ (b)+(c) runs vs standalone exposures
def standalone(case, assignment, n_extra):
    """an independently built exposure of the same configuration with only `assignment` changed"""
    import operator

    import pyxel
    import pyx

    c2 = json.loads(json.dumps(case))
    for m in c2["models"]:
        for a in list(m["args"]):
            k = f"pipeline.{m['group']}.{m['name']}.arguments.{a}"
            if k in assignment:
                m["args"][a] = assignment[k]
    if MUT_BAG_KEY in assignment:
        c2["bag"] = list(assignment[MUT_BAG_KEY])
    det, pipe, _ = build(c2)
    for k, v in assignment.items():
        if k.startswith("detector."):
            parts = k.split(".")[1:]
            setattr(operator.attrgetter(".".join(parts[:-1]))(det), parts[-1], v)
    dt = pyxel.run_mode(mode=pyx.make_exposure(pipeline_seed=case.get("pipeline_seed")), detector=det, pipeline=pipe)
    ds = c05.find_bucket(dt)
    data = ds["pixel"].values.reshape(ds["pixel"].shape[0], -1)[0]
    return [c05.num(x) for x in data[:c05.nslots(case) + n_extra]]


def run_observation(case, det, pipe, n_extra, parallel, obs=None):
    import dask
    import obsprobes
    import pyxel

    tmp = tempfile.mkdtemp(prefix="verif-c06-")
    cwd = os.getcwd()
    try:
        os.chdir(tmp)
        obsprobes.reset()
        obs = obs if obs is not None else c05.build_observation(case, tmp, with_dask=parallel,
                                                                 pipeline_seed=case.get("pipeline_seed"))
        try:
            with dask.config.set(scheduler="threads" if parallel else "synchronous", num_workers=4):
                dt = pyxel.run_mode(mode=obs, detector=det, pipeline=pipe, with_inherited_coords=True)
                return c05.extract_entries(c05.find_bucket(dt), c05.nslots(case) + n_extra), obs
        except Exception as e:  # noqa: BLE001
            return {"error": common.err_kind(e), "msg": f"{type(e).__name__}: {e}"[:300]}, obs
    finally:
        os.chdir(cwd)
        shutil.rmtree(tmp, ignore_errors=True)


def variant(case, rng, kind):
    """another observation over the same caller objects: permuted / subset value lists, or one that fails"""
    c2 = json.loads(json.dumps(case))
    if kind == "permuted" and case["mode"] != "custom":
        for p in c2["params"]:
            if isinstance(p["decl"], list):
                idx = list(range(len(p["expect"])))
                rng.shuffle(idx)
                idx = idx[: max(1, len(idx) - rng.choice([0, 1]))]
                p["decl"] = [p["decl"][i] for i in idx]
                p["expect"] = [p["expect"][i] for i in idx]
    elif kind == "permuted":
        rows = list(c2["table"])
        rng.shuffle(rows)
        c2["table"] = rows[: max(1, len(rows) - 1)]
    return c2


def check_runs(ck, case, rng, parallel):
    det, pipe, n_extra = build(case)
    rc = c05.reconfigure(case, rng)
    rc["fields"] = case["fields"]  # same recorder: the configuration differs, not the pipeline's shape
    det2, pipe2, _ = build(rc)
    before = caller_snapshot(detector=det, pipeline=pipe)
    before2 = caller_snapshot(detector=det2, pipeline=pipe2)
    obs0 = None
    mode_before = None
    # (label, case, objects, reuse the first Observation object?)
    sequence = [("first", case, (det, pipe), False), ("again-same", case, (det, pipe), True),
                ("reconfigured-same-observation", rc, (det2, pipe2), True),
                ("again-permuted", variant(case, rng, "permuted"), (det, pipe), False),
                ("first-objects-again-same-observation", case, (det, pipe), True)]
    tag = "dask" if parallel else "seq"
    for label, c, (d, p), reuse in sequence:
        res, obs = run_observation(c, d, p, n_extra, parallel, obs=obs0 if reuse else None)
        if obs0 is None:
            obs0 = obs
        if reuse or label == "first":
            if mode_before is None:
                # taken after the first call returned would miss its effect: rebuild an identical, unused Observation
                tmpd = tempfile.mkdtemp(prefix="verif-c06-obs-")
                try:
                    mode_before = snapshot(**mode_settings(c05.build_observation(
                        case, tmpd, with_dask=parallel, pipeline_seed=case.get("pipeline_seed"))))
                finally:
                    shutil.rmtree(tmpd, ignore_errors=True)
            mode_after = snapshot(**mode_settings(obs0))
            if mode_after != mode_before:
                changed = [k for k in mode_before if mode_before[k] != mode_after.get(k)]
                ck.violation(f"C06:mode-object-changed:{tag}",
                             f"after run_mode ({label}) the Observation the user passed no longer has the settings {changed} "
                             "it had before the call", {"case": c, "parallel": parallel, "step": label, "changed": changed})
                return
        ck.case({"case": c, "parallel": parallel, "step": label}, nontrivial="error" not in res and len(res["entries"]) >= 2,
                stream="runs")
        ck.count(f"runs:{tag}:{label}")
        after = caller_snapshot(detector=det, pipeline=pipe)
        after2 = caller_snapshot(detector=det2, pipeline=pipe2)
        changed = changed_objects(before, after, ck) + [k + "(2nd configuration)" for k in changed_objects(before2, after2, ck)]
        if changed:
            ck.violation(f"C06:caller-objects-changed:{tag}",
                         f"after run_mode ({label}) the caller's {changed} no longer have the content they had before the call",
                         {"case": c, "parallel": parallel, "step": label, "changed": changed})
            return
        if "error" in res:
            # C05 / C07 judge failing observations; isolation has nothing to compare
            ck.count("runs:observation-error")
            continue
        spec = c05.spec_runs(c)
        want = sorted(common.canon(standalone(c, r["assignment"], n_extra)) for r in spec)
        got = sorted(common.canon(e["data"]) for e in res["entries"])
        if got != want:
            ck.violation(f"C06:run-differs-from-standalone:{tag}" + (":reused-observation" if reuse else ""),
                         f"observation step '{label}': the runs' data are not the data of the standalone exposures of the "
                         f"configuration given to this call (first differing: {next((g for g, w in zip(got, want) if g != w), None)})",
                         {"case": c, "base_case": case, "parallel": parallel, "step": label, "got": got[:6], "want": want[:6]})
            return


def check_readout_sweep(ck, rng, parallel, case=None):
    """sweeps over `observation.readout.*`: the Readout the user passed must keep its settings; and on the dask path a
    sweep of the readout TIME (one readout per run, start time ≠ 0, a probe reporting time and time step) must give, for
    every combination, the data of the standalone exposure read out at that time (the non-dask path ignores swept
    readout times: outside C05's quantifier, only the caller-object clause is judged there)"""
    import dask
    import numpy as np
    import pyx
    import pyxel
    from pyxel.exposure import Exposure, Readout
    from pyxel.observation import Observation, ParameterValues

    if case is None:
        key, values = rng.choice([("observation.readout.times", [2.0, 5.0]), ("observation.readout.times", [4.0, 6.5, 9.0]),
                                  ("observation.readout.non_destructive", [True, False]),
                                  ("observation.readout.non_destructive", [False, True])])
        if parallel and rng.random() < 0.6:
            key, values = "observation.readout.times", rng.choice([[2.0, 5.0], [4.0, 6.5, 9.0]])
        case = {"key": key, "values": values, "mode": rng.choice(["product", "product", "sequential"]),
                "non_destructive": rng.random() < 0.5, "start_time": rng.choice([0.0, 0.5, -1.0, 0.25, 1.5])}
    key, values, mode, nd, start = case["key"], case["values"], case["mode"], case["non_destructive"], case["start_time"]
    pipe_groups = {"photon_collection": [{"name": "p", "func": "obsprobes.stamp", "arguments": {"slot": 0, "a": 1}}],
                   "readout_electronics": [{"name": "clk", "func": "obsprobes.clock", "arguments": {"slot": 1}}]}

    def make():
        ro = Readout(times=[1.0, 2.0, 3.0] if start < 1.0 else [2.0, 3.0], start_time=start, non_destructive=nd)
        obs = Observation(parameters=[ParameterValues(key="pipeline.photon_collection.p.arguments.a", values=[10, 20]),
                                      ParameterValues(key=key, values=list(values))],
                          readout=ro, mode=mode, with_dask=parallel)
        return ro, obs

    ro0, obs0 = make()
    before = snapshot(user_readout=public_props(ro0), **mode_settings(obs0))
    ro, obs = make()
    det = pyx.make_detector("CCD", 3, 4)
    pipe = pyx.make_pipeline(pipe_groups)
    tmp = tempfile.mkdtemp(prefix="verif-c06-ro-")
    cwd = os.getcwd()
    outcome = "ok"
    px = None
    try:
        os.chdir(tmp)
        try:
            with dask.config.set(scheduler="synchronous"):
                dt = pyxel.run_mode(mode=obs, detector=det, pipeline=pipe, with_inherited_coords=True)
                px = c05.find_bucket(dt)["pixel"].compute()
        except common.InfraError:
            raise
        except Exception as e:  # noqa: BLE001
            outcome = common.err_kind(e)
    finally:
        os.chdir(cwd)
        shutil.rmtree(tmp, ignore_errors=True)
    ck.case({"readout_sweep": case, "parallel": parallel}, nontrivial=True, stream="readout-sweep")
    ck.count(f"readout-sweep:{key.split('.')[-1]}:{'dask' if parallel else 'seq'}:{outcome}")
    after = snapshot(user_readout=public_props(ro), **mode_settings(obs))
    if after != before or obs.readout is not ro:
        changed = [k for k in before if before[k] != after.get(k)]
        ck.violation(f"C06:readout-changed-by-sweep:{'dask' if parallel else 'seq'}",
                     f"after an observation sweeping {key} the Readout / Observation the user passed changed: {changed}",
                     {"readout_sweep": case, "parallel": parallel, "changed": changed})
        return
    # dask path, product mode, swept readout time: every (time, a) combination against the standalone exposure
    if parallel and outcome == "ok" and key.endswith(".times") and mode == "product" and px is not None \
            and {"time", "a"} <= set(px.dims):
        ck.count("readout-sweep:times:dask:compared-with-standalone")
        for t in values:
            for a in (10, 20):
                groups = json.loads(json.dumps(pipe_groups))
                groups["photon_collection"][0]["arguments"]["a"] = a
                ex = pyxel.run_mode(Exposure(readout=Readout(times=[t], start_time=start, non_destructive=nd)),
                                    pyx.make_detector("CCD", 3, 4), pyx.make_pipeline(groups))
                want = [c05.num(x) for x in np.asarray(c05.find_bucket(ex)["pixel"].values).reshape(-1)[:2]]
                got = [c05.num(x) for x in np.asarray(px.sel(time=t, a=a).values).reshape(-1)[:2]]
                if got != want:
                    ck.violation("C06:run-differs-from-standalone:readout-times-sweep:dask",
                                 f"readout time {t} (start time {start}), a={a}: the run's (fingerprint, 1000·time_step + time) = "
                                 f"{[c05._decanon({'f': g}) for g in got]}, a standalone exposure read out at that time gives "  # noqa: SLF001
                                 f"{[c05._decanon({'f': w}) for w in want]}",
                                 {"readout_sweep": case, "parallel": parallel})
                    return


def check_failing(ck, case, rng, parallel):
    """an observation that fails half-way must leave the caller's objects as they were; the next one is unaffected"""
    c2 = json.loads(json.dumps(case))
    c2["fail_key"], c2["fail_value"] = "pipeline.signal_transfer.boom.arguments.value", 1
    det, pipe, n_extra = build(c2)
    # c3 additionally sweeps the failing probe's own argument: 0 passes, 1 raises
    c3 = json.loads(json.dumps(c2))
    if c3["mode"] == "custom":
        return
    c3["params"].append({"key": c2["fail_key"], "decl": [0, 1], "expect": [0, 1], "enabled": True, "multi": False})
    before = caller_snapshot(detector=det, pipeline=pipe)
    res, _ = run_observation(c3, det, pipe, n_extra, parallel)
    ck.case({"case": c3, "parallel": parallel, "step": "failing"}, nontrivial=True, stream="failing")
    ck.count("failing:" + ("raised" if "error" in res else "did-not-raise"))
    after = caller_snapshot(detector=det, pipeline=pipe)
    if changed_objects(before, after, ck):
        ck.violation(f"C06:caller-objects-changed-by-failed-run:{'dask' if parallel else 'seq'}",
                     "a failing observation left the caller's objects modified",
                     {"case": c3, "parallel": parallel, "step": "failing"})
        return
    res2, _ = run_observation(c2, det, pipe, n_extra, parallel)
    if "error" in res2:
        ck.count("failing:next-observation-error")
        return
    spec = c05.spec_runs(c2)
    want = sorted(common.canon(standalone(c2, r["assignment"], n_extra)) for r in spec)
    got = sorted(common.canon(e["data"]) for e in res2["entries"])
    if got != want:
        ck.violation(f"C06:run-after-failed-run-differs:{'dask' if parallel else 'seq'}",
                     "an observation after a failed one does not give the standalone exposures' data",
                     {"case": c2, "parallel": parallel, "step": "after-failing"})


# ------------------------------------------------------------------ lazy result, configuration edited before it is computed
def check_lazy_edit(ck, case, rng):
    """with_dask=True: run_mode returns a lazy result; the caller then edits the detector / pipeline (the next
    configuration of a notebook) and only afterwards computes the first result: its runs must be the standalone
    exposures of the configuration GIVEN TO THE CALL"""
    import dask
    import pyxel

    if case["mode"] == "custom":
        return
    det, pipe, n_extra = build(case)
    rc = c05.reconfigure(case, rng)
    tmp = tempfile.mkdtemp(prefix="verif-c06-lazy-")
    cwd = os.getcwd()
    try:
        os.chdir(tmp)
        obs = c05.build_observation(case, tmp, with_dask=True, pipeline_seed=case.get("pipeline_seed"))
        try:
            dt = pyxel.run_mode(mode=obs, detector=det, pipeline=pipe, with_inherited_coords=True)
            # the edit: other configured values for the model arguments and the detector fields
            c05.apply_det_overrides(det, rc)
            for m in rc["models"]:
                mf = getattr(getattr(pipe, m["group"]), m["name"])
                for a, v in m["args"].items():
                    mf.arguments[a] = json.loads(json.dumps(v))
            with dask.config.set(scheduler="threads", num_workers=3):
                res = c05.extract_entries(c05.find_bucket(dt), c05.nslots(case) + n_extra)
        except Exception as e:  # noqa: BLE001
            ck.count("lazy-edit:error:" + common.err_kind(e))
            return
    finally:
        os.chdir(cwd)
        shutil.rmtree(tmp, ignore_errors=True)
    ck.case({"case": case, "lazy_edit": True}, nontrivial=len(res["entries"]) >= 2, stream="lazy-edit")
    ck.count("lazy-edit:computed-after-edit")
    spec = c05.spec_runs(case)
    want = sorted(common.canon(standalone(case, r["assignment"], n_extra)) for r in spec)
    got = sorted(common.canon(e["data"]) for e in res["entries"])
    if got != want:
        ck.violation("C06:lazy-result-uses-objects-edited-after-the-call",
                     "with_dask=True: the caller edited the detector / pipeline after run_mode returned and before the result was "
                     "computed; the runs' data are not the standalone exposures of the configuration given to the call",
                     {"case": case, "lazy_edit": True, "got": got[:4], "want": want[:4]})


# ------------------------------------------------------------------ a caller's detector that already holds data
def check_detector_contents(ck, rng, parallel):
    """the caller's detector already holds frames (an MKID with a phase frame, pixel / signal frames set by an earlier
    exposure): after an observation it must still hold exactly those contents"""
    import dask
    import numpy as np
    import pyx
    import pyxel
    from pyxel.observation import Observation, ParameterValues

    kind = rng.choice(["MKID", "MKID", "CCD"])
    det = pyx.make_detector(kind, 3, 4)
    frames = {}
    for name in (["phase"] if kind == "MKID" else []) + ["pixel", "signal"]:
        arr = np.array([[float(rng.randrange(1, 99)) for _ in range(4)] for _ in range(3)])
        getattr(det, name).array = arr
        frames[name] = arr.copy()
    pipe = pyx.make_pipeline({"photon_collection": [{"name": "p", "func": "obsprobes.stamp", "arguments": {"slot": 0, "a": 1}}]})
    mode = rng.choice(["product", "sequential"])
    obs = Observation(parameters=[ParameterValues(key="pipeline.photon_collection.p.arguments.a", values=[3, 4, 5])],
                      mode=mode, with_dask=parallel)
    case = {"detector_contents": {"kind": kind, "mode": mode}}
    tmp = tempfile.mkdtemp(prefix="verif-c06-cont-")
    cwd = os.getcwd()
    try:
        os.chdir(tmp)
        try:
            with dask.config.set(scheduler="synchronous"):
                dt = pyxel.run_mode(mode=obs, detector=det, pipeline=pipe, with_inherited_coords=True)
                c05.find_bucket(dt)["pixel"].compute()
        except common.InfraError:
            raise
        except Exception as e:  # noqa: BLE001
            ck.count("detector-contents:observation-error:" + common.err_kind(e))
    finally:
        os.chdir(cwd)
        shutil.rmtree(tmp, ignore_errors=True)
    ck.case({"case": case, "parallel": parallel}, nontrivial=True, stream="detector-contents")
    ck.count(f"detector-contents:{kind}:{'dask' if parallel else 'seq'}")
    for name, want in frames.items():
        try:
            got = np.asarray(getattr(det, name).array, dtype=float)
        except Exception as e:  # noqa: BLE001
            got = None
        if got is None or got.shape != want.shape or not np.array_equal(got, want):
            ck.violation(f"C06:caller-detector-contents-changed:{'dask' if parallel else 'seq'}",
                         f"the caller's {kind} detector held a {name} frame before run_mode; afterwards it holds "
                         f"{'nothing' if got is None else 'other values (first pixel %r, was %r)' % (float(got.flat[0]), float(want.flat[0]))}",
                         {"case": case, "parallel": parallel})
            return


# ------------------------------------------------------------------ state outside the copied processor
def check_load_image(ck, rng, parallel):
    """pipelines with the built-in `load_image` (cached file read, scale ≠ 1): every run of two successive observations
    must give image · multiplier · time_step / time_scale — the value a standalone exposure gives — whatever runs came
    before (state could survive in the process-wide image cache, not in the copied processor)"""
    import dask
    import numpy as np
    import pyx
    import pyxel
    from pyxel.observation import Observation, ParameterValues

    tmp = tempfile.mkdtemp(prefix="verif-c06-img-")
    cwd = os.getcwd()
    try:
        os.chdir(tmp)
        img = np.array([[float(rng.randrange(1, 64)) for _ in range(4)] for _ in range(3)])
        np.save(tmp + "/image.npy", img)
        time_scale = rng.choice([1.0, 0.5, 2.0])
        mults = rng.sample([2.0, 0.5, 3.0, 4.0, 1.5], rng.choice([2, 3, 4]))
        other = rng.sample(range(1, 30), rng.choice([1, 2]))
        case = {"load_image": {"image": img.tolist(), "time_scale": time_scale, "multipliers": mults, "other": other}}

        def objs():
            return pyx.make_detector("CCD", 3, 4), pyx.make_pipeline({
                "photon_collection": [
                    {"name": "load_image", "func": "pyxel.models.photon_collection.load_image",
                     "arguments": {"image_file": tmp + "/image.npy", "convert_to_photons": False, "multiplier": 7.0,
                                   "time_scale": time_scale}},
                    {"name": "p", "func": "obsprobes.stamp", "arguments": {"slot": 0, "a": 0}}],
                "charge_collection": [{"name": "show", "func": "obsprobes.photon_to_pixel", "arguments": {}}]})

        det, pipe = objs()
        for step, ms in enumerate([mults, list(reversed(mults))[: max(1, len(mults) - 1)], mults]):
            obs = Observation(parameters=[
                ParameterValues(key="pipeline.photon_collection.load_image.arguments.multiplier", values=list(ms)),
                ParameterValues(key="pipeline.photon_collection.p.arguments.a", values=list(other))],
                mode=rng.choice(["product", "sequential"]), with_dask=parallel)
            with dask.config.set(scheduler="threads" if parallel else "synchronous", num_workers=3):
                dt = pyxel.run_mode(mode=obs, detector=det, pipeline=pipe, with_inherited_coords=True)
                res = c05.extract_entries(c05.find_bucket(dt), 12)
            ck.case({"case": case, "parallel": parallel, "step": step}, nontrivial=True, stream="load_image")
            ck.count(f"load_image:{'dask' if parallel else 'seq'}:observation{step}")
            for e in res["entries"]:
                m = c05._decanon(e["labels"]["multiplier"])  # noqa: SLF001
                want = [c05.num(x) for x in (img * (1.0 / time_scale) * m).reshape(-1)]
                if e["data"] != want:
                    ck.violation(f"C06:run-differs-from-standalone:load_image:{'dask' if parallel else 'seq'}",
                                 f"observation #{step + 1}, run labelled multiplier={m}: photon[0,0] = {c05._decanon({'f': e['data'][0]})} "  # noqa: SLF001
                                 f"but a standalone exposure gives image·multiplier/time_scale = {img[0, 0] * m / time_scale} "
                                 "(the result depends on which runs loaded the image before)",
                                 {"case": case, "parallel": parallel, "step": step})
                    return
    finally:
        os.chdir(cwd)
        shutil.rmtree(tmp, ignore_errors=True)


# ------------------------------------------------------------------ calibration
def check_calibration(ck, rng):
    import numpy as np
    import obsprobes
    import pyx
    import pyxel
    from pyxel.calibration import Algorithm, Calibration, FitRange3D, to_fit_range
    from pyxel.calibration.fitting_datatree import ModelFittingDataTree
    from pyxel.exposure import Readout
    from pyxel.observation import ParameterValues
    from pyxel.pipelines import FitnessFunction, Processor

    rows, cols = 3, 4
    tmp = tempfile.mkdtemp(prefix="verif-c06-cal-")
    cwd = os.getcwd()
    try:
        os.chdir(tmp)
        np.save(tmp + "/target.npy", np.full((rows, cols), 5.0))

        def objects():
            det = pyx.make_detector("CCD", rows, cols)
            obsprobes.det_memory(det)["obsprobes_seen"] = 2
            pipe = pyx.make_pipeline({
                "charge_generation": [{"name": "cal", "func": "obsprobes.level", "arguments": {"level": 1.0, "tilt": 0.0}}],
                "charge_collection": [{"name": "mem", "func": "obsprobes.memory", "arguments": {"slot": 10}}],
                "signal_transfer": [{"name": "mut", "func": "obsprobes.mutate", "arguments": {"slot": 11, "bag": [1], "table": {"touched": 0}}}],
            })
            return det, pipe

        pvs = lambda: [ParameterValues(key="pipeline.charge_generation.cal.arguments.level", values="_", boundaries=(0.0, 20.0)),  # noqa: E731
                       ParameterValues(key="pipeline.charge_generation.cal.arguments.tilt", values="_", boundaries=(-1.0, 1.0))]
        # (a)+(c): the fitting problem: update_processor copies; fitness is a function of the candidate only
        det, pipe = objects()
        proc = Processor(detector=det, pipeline=pipe)
        before = caller_snapshot(processor=proc)
        fit = ModelFittingDataTree(
            processor=proc, variables=pvs(), readout=Readout(), simulation_output="pixel", generations=1, population_size=4,
            fitness_func=FitnessFunction("pyxel.calibration.fitness.sum_of_abs_residuals"), file_path=None,
            target_filenames=[tmp + "/target.npy"], target_fit_range=to_fit_range([0, rows, 0, cols]),
            out_fit_range=FitRange3D.from_sequence([0, rows, 0, cols]))
        xs = [np.array([rng.randrange(0, 160) / 8, rng.randrange(-8, 8) / 8]) for _ in range(3)]
        f1 = [float(fit.fitness(x)[0]) for x in xs]
        f2 = [float(fit.fitness(x)[0]) for x in reversed(xs)][::-1]
        ck.case({"calibration": "fitness-order", "xs": [x.tolist() for x in xs]}, nontrivial=True, stream="calibration")
        if f1 != f2:
            ck.violation("C06:calibration:fitness-depends-on-evaluation-order",
                         f"fitness of the same candidates differs with the order of evaluation: {f1} vs {f2}",
                         {"xs": [x.tolist() for x in xs], "f1": f1, "f2": f2})
        if changed_objects(before, caller_snapshot(processor=proc), ck):
            ck.violation("C06:calibration:fitting-changes-caller-processor",
                         "building the fitting problem / evaluating candidates modified the caller's processor", {})
        new = fit.update_processor(parameter=np.array([3.0, 0.5]), processor=fit.param_processor_list[0])
        g, a, b, sh = shared_nodes(fit.param_processor_list[0], new)
        ck.count("sep:update_processor")
        if sh:
            ck.disagreement("sep-hypothesis", {"entry": "update_processor"}, [g.desc.get(x, str(g.heap[x])) for x in sh][:10], [],
                            key="C06:update_processor:shared-mutable-node")
        # (c'): one candidate applied to the processors of SEVERAL targets: a vector-valued variable handed to a model that
        # changes its array argument in place must reach every target's run with the candidate's own values
        for i in (0, 1):
            np.save(f"{tmp}/t{i}.npy", np.full((rows, cols), 5.0))
        det, pipe = pyx.make_detector("CCD", rows, cols), pyx.make_pipeline({
            "photon_collection": [{"name": "p", "func": "obsprobes.stamp", "arguments": {"slot": 0, "a": 0}}],
            "signal_transfer": [{"name": "mut", "func": "obsprobes.mutate", "arguments": {"slot": 1, "bag": [1.0, 2.0], "table": {}}}]})
        fit2 = ModelFittingDataTree(
            processor=Processor(detector=det, pipeline=pipe),
            variables=[ParameterValues(key="pipeline.signal_transfer.mut.arguments.bag", values=["_", "_"], boundaries=(0.0, 10.0))],
            readout=Readout(), simulation_output="pixel", generations=1, population_size=4,
            fitness_func=FitnessFunction("pyxel.calibration.fitness.sum_of_abs_residuals"), file_path=None,
            target_filenames=[f"{tmp}/t0.npy", f"{tmp}/t1.npy"], target_fit_range=to_fit_range([0, rows, 0, cols]),
            out_fit_range=FitRange3D.from_sequence([0, rows, 0, cols]),
            input_arguments=[ParameterValues(key="pipeline.photon_collection.p.arguments.a", values=[1, 2])])
        x = np.array([rng.randrange(1, 40) / 4, rng.randrange(1, 40) / 4])
        obsprobes.reset()
        fit2.fitness(x.copy())
        seen = [json.loads(r[2])["bag"] for r in obsprobes.LOG if r[0] == "mutate"]
        ck.case({"calibration": "two-targets-vector-variable", "x": x.tolist()}, nontrivial=True, stream="calibration")
        ck.count("calibration:two-targets-vector-variable")
        if len(seen) != 2 or any(s != obsprobes.canon_val(x.tolist()) for s in seen):
            ck.violation("C06:calibration:vector-variable-shared-between-targets",
                         f"candidate {x.tolist()} applied to two targets: the model of the targets received {seen} (the first target's "
                         "in-place change of its argument reached the second target's run)",
                         {"calibration": "two-targets-vector-variable", "x": x.tolist()})
        # (b): a whole calibration through run_mode
        det, pipe = objects()
        before = caller_snapshot(detector=det, pipeline=pipe)
        cal = Calibration(
            target_data_path=[tmp + "/target.npy"], fitness_function=FitnessFunction("pyxel.calibration.fitness.sum_of_abs_residuals"),
            algorithm=Algorithm(type="sade", generations=1, population_size=8), parameters=pvs(), result_type="pixel",
            result_fit_range=[0, rows, 0, cols], target_fit_range=[0, rows, 0, cols], pygmo_seed=rng.randrange(1, 9999),
            num_islands=rng.choice([2, 3]), num_evolutions=1)
        obsprobes.reset()
        cal_before = snapshot(**mode_settings(cal))
        dt = pyxel.run_mode(cal, det, pipe)
        ck.case({"calibration": "run_mode"}, nontrivial=True, stream="calibration")
        # (c) the champions' re-simulations (lazy): every island's simulated data, loaded twice and in both groups, must
        # be the data of a standalone exposure at that island's champion parameters — the pipeline keeps state on the
        # detector (`_memory`, not reset by detector.empty()), so a processor shared between islands / computations shows
        champs = np.asarray(dt["/champion/parameters"].values, dtype=float)[:, -1, :]
        want = []
        for lv, tl in champs:
            d2, p2 = objects()
            p2.charge_generation.cal.arguments["level"] = float(lv)
            p2.charge_generation.cal.arguments["tilt"] = float(tl)
            ex = pyxel.run_mode(pyx.make_exposure(), d2, p2)
            want.append([c05.num(x) for x in c05.find_bucket(ex)["pixel"].values.reshape(-1)])
        import dask

        for attempt, (grp, var, sched) in enumerate([("/simulated", "pixel", "synchronous"), ("/full_size", "simulated_pixel", "threads"),
                                                      ("/simulated", "pixel", "threads"), ("/simulated", "signal", "synchronous"),
                                                      ("/simulated", "pixel", "synchronous")]):
            if grp.strip("/") not in dt.children or var not in dt[grp].data_vars:
                ck.count(f"calibration:simulated:{grp}/{var}:absent")
                continue
            with dask.config.set(scheduler=sched, num_workers=3):
                arr = np.asarray(dt[grp][var].compute().values, dtype=float)
            ck.count(f"calibration:simulated:{grp}/{var}:loaded")
            if var.endswith("pixel"):
                got = [[c05.num(x) for x in arr[i].reshape(-1)] for i in range(arr.shape[0])]
                if got != want:
                    bad = next(i for i in range(len(want)) if got[i] != want[i])
                    ck.violation("C06:calibration:simulated-champion-differs-from-standalone",
                                 f"{grp}/{var}, load #{attempt + 1} ({sched}): the re-simulation of island {bad}'s champion is not the "
                                 f"standalone exposure at its parameters (pixel[10] = uses of the detector memory seen: "
                                 f"{arr[bad].reshape(-1)[10]} instead of 2)",
                                 {"calibration": "simulated", "island": bad, "attempt": attempt})
                    break
        cal_after = snapshot(**mode_settings(cal))
        if cal_after != cal_before:
            ck.violation("C06:mode-object-changed:calibration",
                         f"after a calibration the Calibration object the user passed changed: {[k for k in cal_before if cal_before[k] != cal_after.get(k)]}", {})
        after = caller_snapshot(detector=det, pipeline=pipe)
        if changed_objects(before, after, ck):
            ck.violation("C06:caller-objects-changed:calibration",
                         f"after a calibration the caller's {changed_objects(before, after)} changed", {})
    finally:
        os.chdir(cwd)
        shutil.rmtree(tmp, ignore_errors=True)


# ------------------------------------------------------------------ check body
def body(ck: common.Check):
    ck.obligations(["PyxelModel.Props.C06"], ["PyxelModel.Drive.C06"])
    rng = ck.rng
    quick = ck.tier == "quick"
    batch, judges = [], []
    cases = []
    for n, mode in enumerate(("product", "sequential", "sequential", "custom")):
        c = gen_case(rng, mode=mode, sweep_bag=True if n == 1 else (False if n == 2 else None), seeded=(n in (0, 2)))
        for _ in range(30):  # sequential mode: the configured values of the *other* swept parameters matter
            if mode != "sequential" or sum(p["enabled"] for p in c["params"]) >= 2:
                break
            c = gen_case(rng, mode=mode, sweep_bag=True if n == 1 else False, seeded=(n in (0, 2)))
        cases.append(c)
    # same-named swept parameters with another parameter declared between them (the dask path zips names with values)
    c = gen_case(rng, mode="product", sweep_bag=False, seeded=False, flavour="two_models_same_arg")
    c05.interleave_same_name(c, rng)
    cases.append(c)
    for _ in range(3 if quick else 180):
        cases.append(gen_case(rng))
    for case in cases:
        judges += check_sep(ck, case, batch)
    answers = LeanDriver("C06").batch(batch)
    for idx, judge in judges:
        if "bad" in answers[idx]:
            raise common.InfraError(f"driver rejected request: {answers[idx]}")
        judge(answers[idx])
    for n, case in enumerate(cases):
        for parallel in ((False, True) if (n % 2 == 0 or not quick) else (bool(n % 4 == 1),)):
            check_runs(ck, case, rng, parallel)
            check_failing(ck, case, rng, parallel)
        ck.count(f"mode={case['mode']}")
        ck.count(f"memory_seen={case['memory_seen']}")
        for k in case["stateful"]:
            ck.count(f"stateful={k}")
    for case in cases[:3] if quick else cases[:40]:
        check_lazy_edit(ck, case, rng)
    # directed: dask path, swept readout time, start time ≠ 0 (positive and negative), both readout modes
    for start, nd in ((0.5, False), (-1.0, True)):
        check_readout_sweep(ck, rng, True, case={"key": "observation.readout.times", "values": rng.choice([[2.0, 5.0], [4.0, 6.5, 9.0]]),
                                                 "mode": "product", "non_destructive": nd, "start_time": start})
    for i in range(4 if quick else 40):
        check_readout_sweep(ck, rng, parallel=bool(i % 2))
    for i in range(2 if quick else 16):
        check_load_image(ck, rng, parallel=bool(i % 2))
    for i in range(3 if quick else 16):
        check_detector_contents(ck, rng, parallel=bool(i % 2))
    for _ in range(1 if quick else 6):
        check_calibration(ck, rng)
    ck.rule = ("configurations from C05's generator (three modes, vector values, colliding names) with probes that count "
               "their uses in detector._memory (pre-populated by the caller in half of the cases), append to their own list "
               "argument and write into their own dict argument; (a) graphs of original and copy after create_new_processor / "
               "Processor.replace / deepcopy / update_processor (+ copy.copy as negative control), mutated through the copy; "
               "(b) snapshots of the caller's detector, pipeline AND running-mode object (Observation with its Readout, parameter "
               "declarations, table, outputs; Calibration with readout, parameters, algorithm) around five successive calls — the "
               "same Observation object reused on the same objects, on a reconfigured detector / pipeline, and again on the first "
               "ones; permuted / shortened value lists — around a failing observation, around sweeps over observation.readout.* "
               "keys, and around a calibration; (c) every run against an independently built "
               "standalone exposure; pipelines with the built-in load_image (cached file, multiplier / time_scale ≠ 1) over three "
               "successive observations; sequential path and dask path (3-4 threads)")
    ck.assumptions = [
        "PARTIAL: the theorem is conditional on Sep (copy and original share no object with mutable state); Sep is established "
        "per generated configuration by walking the real object graphs, not for all configurations",
        "objects without observable mutable state (numbers, strings, functions, classes, loggers, locks, tuples of those) may be "
        "shared; arrays, data frames and xarray objects are part-less values identified by a digest of their content",
        "an observation that raises is judged by C05/C07/C09; here only its effect on the caller's objects and on later runs",
    ]
    ck.trusted_base.append("C06: the identity walk (vars / __slots__ / items) sees every attribute through which pyxel models reach state; "
                           "copy.deepcopy's memo semantics (modelled as allocation of a fresh unfolding)")


def replay(path):
    common.ensure_repo_on_path()
    import random

    rp = json.load(open(path))
    r = rp["replay"]
    if "detector_contents" in (r.get("case") or {}):
        import random

        ck = common.Check("C06", "quick")
        for seed in range(6):
            check_detector_contents(ck, random.Random(seed), r.get("parallel", False))
        print("REPRODUCED: " + ck.violations[0]["what"] if ck.violations else "not reproduced (property holds on this input)")
        return 1 if ck.violations else 0
    if "load_image" in (r.get("case") or {}):
        import random

        ck = common.Check("C06", "quick")
        for seed in range(4):  # the failing input class (cached image, scale ≠ 1) does not depend on the drawn numbers
            check_load_image(ck, random.Random(seed), r.get("parallel", False))
        print("REPRODUCED: " + ck.violations[0]["what"] if ck.violations else "not reproduced (property holds on this input)")
        return 1 if ck.violations else 0
    if "readout_sweep" in r:
        ck = common.Check("C06", "quick")
        rs = r["readout_sweep"]

        rs.setdefault("start_time", 0.0)
        check_readout_sweep(ck, None, r.get("parallel", False), case=rs)
        print("REPRODUCED: " + ck.violations[0]["what"] if ck.violations else "not reproduced (property holds on this input)")
        return 1 if ck.violations else 0
    case = r.get("case")
    if case is None:
        print("replay without a generated case (calibration / correspondence):", rp["what"])
        ck = common.Check("C06", "quick")
        check_calibration(ck, random.Random(0))
        print("REPRODUCED: " + ck.violations[0]["what"] if ck.violations else "not reproduced")
        return 1 if ck.violations else 0
    ck = common.Check("C06", "quick")
    if r.get("lazy_edit"):
        check_lazy_edit(ck, case, random.Random(0))
        print("REPRODUCED: " + ck.violations[0]["what"] if ck.violations else "not reproduced (property holds on this input)")
        return 1 if ck.violations else 0
    if "entry" in r:
        batch = []
        js = check_sep(ck, case, batch)
        ans = LeanDriver("C06").batch(batch)
        for idx, j in js:
            j(ans[idx])
    else:
        check_runs(ck, r.get("base_case", case), random.Random(0), r.get("parallel", False))
        check_failing(ck, case, random.Random(0), r.get("parallel", False))
    print("REPRODUCED: " + ck.violations[0]["what"] if ck.violations else "not reproduced (property holds on this input)")
    return 1 if ck.violations else 0


if __name__ == "__main__":
    if len(sys.argv) > 2 and sys.argv[1] == "--replay":
        sys.exit(replay(sys.argv[2]))
    sys.exit(run_check("C06", body))
