"""C13 — data buckets only ever hold arrays of the detector's shape and unit type.

obligations: lean/PyxelModel/Props/C13.lean (all kinds, shapes, operands, histories)
tie to code : Generated/C13.lean (TYPE_LIST of every container class) + differential run of the real
              containers of real detectors (CCD/CMOS/MKID/APD) on generated operation sequences
              against the Lean state machine; the model's symbolic content is evaluated with numpy
              and compared byte for byte with what the container holds.
predicate   : the statement itself re-evaluated in Python on the public attributes after every
              operation (invariant, non-negative photon assignment, failed assignment leaves
              content, reading an empty container raises, equality both ways).
"""

from __future__ import annotations

import hashlib
import os
import json
import sys
import warnings

import common
from common import LeanDriver, run_check

warnings.filterwarnings("ignore")

KINDS = ["photon", "pixel", "signal", "image", "phase"]
DT_ALL = ["bool", "int8", "int16", "int32", "int64", "uint8", "uint16", "uint32", "uint64", "float16", "float32",
          "float64", "longdouble", "complex64", "complex128", "clongdouble", "object", "str", "datetime64[s]"]
LEAN_NAMES = {"bool", "int8", "int16", "int32", "int64", "uint8", "uint16", "uint32", "uint64", "float16",
              "float32", "float64", "complex64", "complex128"}
FLOATS = ["float16", "float32", "float64"]
UINTS = ["uint8", "uint16", "uint32", "uint64"]


# ------------------------------------------------------------------ materialising operands
def np_dtype(name):
    import numpy as np

    if name == "longdouble":
        return np.dtype(np.longdouble)
    if name == "clongdouble":
        return np.dtype(np.clongdouble)
    if name == "str":
        return np.dtype("<U1")
    return np.dtype(name)


def lean_dt(dt) -> str:
    import numpy as np

    dt = np.dtype(dt)
    if dt == np.dtype(np.longdouble) and dt.itemsize > 8:
        return "longdouble"
    if dt == np.dtype(np.clongdouble) and dt.itemsize > 16:
        return "clongdouble"
    return dt.name if dt.name in LEAN_NAMES else "other"


def _values(desc):
    """ndarray of desc['shape'] / desc['dtype'] filled according to desc['fill'] (deterministic)."""
    import numpy as np

    shape = tuple(desc["shape"])
    dt = np_dtype(desc["dtype"])
    rs = np.random.RandomState(desc["seed"] % (2**31))
    base = rs.randint(0, 10, size=shape)
    fill = desc["fill"]
    if dt.kind in "US":
        return np.full(shape, "a", dtype=dt)
    if dt.kind == "M":
        return base.astype(dt)
    if dt.kind == "O":
        return base.astype(object)
    if dt.kind == "b":
        return (base % 2).astype(dt)
    if fill == "zero":
        return np.zeros(shape, dtype=dt)
    if fill == "neg" and dt.kind in "ifc":
        return (base - 5).astype(dt)
    if fill == "nanneg" and dt.kind in "fc":
        # negative entries AND a NaN in the same array (a reduction such as min() is blind to the negatives then)
        a = (base - 5).astype(dt)
        if a.size >= 2:
            k = rs.randint(0, a.size)
            a.flat[k] = np.nan
            a.flat[(k + 1 + rs.randint(0, a.size - 1)) % a.size] = -3
        return a
    if fill == "nanneg" and dt.kind == "i":
        return (base - 5).astype(dt)
    if fill == "nan" and dt.kind in "fc":
        a = base.astype(dt)
        if a.size:
            a.flat[rs.randint(0, a.size)] = np.nan
        return a
    if fill == "huge":
        if dt.kind == "f":
            big = float(np.finfo(dt).max) / 2
            return (np.ones(shape) * big).astype(dt)
        if dt.kind in "iu":
            return np.full(shape, np.iinfo(dt).max // 2 + 1, dtype=dt)
    return base.astype(dt)


def materialise(desc):
    """A *fresh* Python object for the operand descriptor (never shared between uses)."""
    import numpy as np
    import xarray as xr

    if "skind" in desc:      # what another detector's bucket holds (a fresh copy), None when it is empty
        return source_held(desc)
    form = desc["form"]
    if form == "ndarray":
        return _values(desc)
    if form == "list":
        return _values(desc).tolist()
    if form == "npscalar":
        return _values({**desc, "shape": []})[()]
    if form == "dataarray":
        v = _values(desc)
        dims = {"std": ("wavelength", "y", "x"), "band": ("band", "y", "x"), "yx": ("y", "x")}[desc["dims"]]
        if len(dims) != v.ndim:
            dims = tuple(f"d{i}" for i in range(v.ndim))
        coords = None
        if desc.get("coord") and dims[0] in ("wavelength", "band"):
            coords = {dims[0]: [400.0 + desc.get("wl0", 0.0) + desc.get("wlstep", 20.0) * i for i in range(v.shape[0])]}
        return xr.DataArray(v, dims=dims, coords=coords)
    if form == "pyint":
        return int(desc["v"])
    if form == "pyfloat":
        return {"pos": 2.5, "neg": -1.5, "nan": float("nan"), "nanneg": -1.5, "huge": 1e300, "zero": 0.0}[desc["fill"]]
    if form == "pybool":
        return True
    if form == "none":
        return None
    if form == "str":
        return "a"
    raise ValueError(form)


def has_neg(x) -> bool:
    import numpy as np

    try:
        a = np.asarray(x)
        if a.dtype.kind not in "iuf":
            return False
        return bool(np.any(a < 0))
    except Exception:  # noqa: BLE001
        return False


def lean_operand(desc):
    import numpy as np
    import xarray as xr

    if "skind" not in desc and desc["form"] == "pyint":
        return {"t": "pyint", "v": int(desc["v"]), "id": desc["id"]}
    x = materialise(desc)
    if isinstance(x, xr.DataArray):
        return {"t": "xr", "dims": {("wavelength", "y", "x"): "std", ("y", "x"): "yx"}.get(tuple(x.dims), "other"), "coord": "wavelength" in x.coords,
                "shape": list(x.shape), "dt": lean_dt(x.dtype), "neg": has_neg(x.values), "id": desc["id"]}
    a = np.asarray(x)
    return {"t": "nd", "isNd": isinstance(x, np.ndarray), "shape": list(a.shape), "dt": lean_dt(a.dtype),
            "neg": has_neg(a), "id": desc["id"]}


# ------------------------------------------------------------------ generator
def gen_operand(rng, ident, kind, rows, cols, purpose):
    """purpose: 'set' | 'set3' | 'iadd' | 'update'"""
    good_dts = UINTS if kind == "image" else FLOATS
    d = {"id": ident, "seed": rng.randrange(10**6), "fill": rng.choice(["pos", "pos", "pos", "neg", "neg", "nan", "nanneg", "nanneg", "huge", "zero"])}
    want3 = purpose == "set3" or (kind == "photon" and purpose == "iadd" and rng.random() < 0.35)
    r = rng.random()
    if want3:
        d.update(form="dataarray", dims="std", coord=True, shape=[rng.choice([1, 2, 3]), rows, cols], dtype=rng.choice(good_dts))
        if r < 0.45:
            return d
        m = rng.choice(["dtype", "shape_rc", "dims", "coord", "ndim" if purpose == "set3" else "shape_rc", "form", "dtype"])
        if m == "dtype":
            d["dtype"] = rng.choice([x for x in DT_ALL if x not in ("object", "str", "datetime64[s]")])
        elif m == "shape_rc":
            d["shape"] = [d["shape"][0], rows + rng.choice([0, 1]), cols + 1] if rng.random() < 0.5 else [d["shape"][0], cols, rows]
        elif m == "dims":
            d["dims"] = "band"
        elif m == "coord":
            d["coord"] = False
        elif m == "ndim":
            d.update(shape=[rows, cols], dims="yx")
        else:
            d.update(form="ndarray", shape=[rng.choice([1, 2]), rows, cols])
        return d
    d.update(form="ndarray", shape=[rows, cols], dtype=rng.choice(good_dts))
    if r < 0.5:
        return d
    muts = ["dtype", "dtype", "shape", "shape", "form", "scalar"]
    if purpose == "iadd":
        muts += ["bshape", "bshape", "scalar"]
    m = rng.choice(muts)
    if m == "dtype":
        d["dtype"] = rng.choice(DT_ALL)
    elif m == "shape":
        d["shape"] = rng.choice([[cols, rows], [rows + 1, cols], [rows, cols + 1], [rows * cols], [1, rows, cols],
                                 [2, rows, cols], [], [rows, cols, 1], [0, cols]])
    elif m == "bshape":
        d["shape"] = rng.choice([[cols], [rows, 1], [1, cols], [1, 1], [], [1], [rows]])
        if rng.random() < 0.3:
            d["dtype"] = rng.choice(DT_ALL)
    elif m == "form":
        d["form"] = rng.choice(["list", "npscalar", "list", "dataarray" if (purpose != "iadd" or kind == "photon") else "list"])
        if d["form"] == "dataarray":
            d.update(dims="yx", coord=False)
        if d["form"] == "list" and d["dtype"] not in ("float64", "int64", "bool"):
            d["dtype"] = rng.choice(["float64", "int64"])
        if d["form"] == "list" and rng.random() < 0.3:
            d["shape"] = [cols]
    else:
        d["form"] = rng.choice(["pyint", "pyint", "pyfloat", "pybool", "none", "str"])
        d["shape"] = []
        if d["form"] == "pyint":
            d["v"] = rng.choice([0, 1, 3, -1, -7, 255, 256, 65535, 65536, 2**32 - 1, 2**32, 2**64 - 1, 2**64, 2**70])
    return d


def gen_source(rng, ident, kind, rows, cols):
    """another detector's container assigned through the detector's bucket setter: `detector.<kind> = source`.
    The source is of the same class (mostly), of the same or another geometry, empty or holding an array valid for *its* detector."""
    skind = kind if rng.random() < 0.75 else rng.choice(["photon", "pixel", "signal", "image"])
    srows, scols = (rows, cols) if rng.random() < 0.55 else rng.choice([(cols, rows + 1), (rows + 1, cols), (rows, cols + 2), (5, 5)])
    src = {"id": ident, "skind": skind, "rows": srows, "cols": scols, "det": rng.choice(["CCD", "CMOS", "APD"]), "hold": None}
    r = rng.random()
    if r < 0.2:
        return src
    d = {"id": ident, "seed": rng.randrange(10**6), "fill": rng.choice(["pos", "pos", "zero", "huge", "nan"]), "form": "ndarray",
         "shape": [srows, scols], "dtype": rng.choice(UINTS if skind == "image" else FLOATS)}
    if skind != "photon" and skind != "image" and rng.random() < 0.3:
        d["fill"] = rng.choice(["neg", "nanneg"])  # (a photon source would already have clipped them itself)
    if d["dtype"] in UINTS and d["fill"] == "nan":
        d["fill"] = "pos"
    if skind == "photon" and r < 0.45:
        d.update(form="dataarray", dims="std", coord=True, shape=[rng.choice([1, 2]), srows, scols])
    src["hold"] = d
    if skind == "photon" and rng.random() < 0.5:
        # the source bucket is filled validly, then a frame is added in place (no validation on a filled container)
        src["then"] = dict(d, seed=rng.randrange(10**6), fill=rng.choice(["neg", "nanneg", "neg", "pos"]), dtype=rng.choice(FLOATS))
    return src


def make_source_detector(src):
    """(detector, bucket): another detector whose bucket `skind` is empty or was filled through its own public setters
    (`hold`), optionally followed by an in-place addition on the filled bucket (`then`, e.g. a frame with negative entries)"""
    import pyx

    sdet = pyx.make_detector(src["det"], src["rows"], src["cols"])
    if src["skind"] == "phase" and src["det"] != "MKID":
        return sdet, None
    c = getattr(sdet, src["skind"])
    if src["hold"] is not None:
        if src["hold"]["form"] == "dataarray":
            c.array_3d = materialise(src["hold"])
        else:
            c.array = materialise(src["hold"])
        if src.get("then") is not None:
            c += materialise(src["then"])
    return sdet, c


def make_source(src):
    return make_source_detector(src)[1]


def source_held(src):
    import xarray as xr

    c = make_source(src)
    if c is None or src["hold"] is None:
        return None
    x = c.array_3d if src["hold"]["form"] == "dataarray" else c.array
    return x.copy(deep=True) if isinstance(x, xr.DataArray) else x.copy()


def gen_file(rng, ident, det, kind, rows, cols):
    """a detector saved to a file, to be given to `load_detector`: same / other detector type, same / other geometry"""
    fdet = det if rng.random() < 0.75 else rng.choice([d for d in ("CCD", "CMOS", "APD", "MKID") if d != det])
    frows, fcols = (rows, cols) if rng.random() < 0.55 else rng.choice([(cols, rows + 1), (rows + 1, cols), (rows, cols + 2)])
    src = {"id": ident, "skind": kind, "rows": frows, "cols": fcols, "det": fdet, "hold": None}
    if rng.random() < 0.2 or (kind == "phase" and fdet != "MKID"):
        return src
    d = {"id": ident, "seed": rng.randrange(10**6), "fill": rng.choice(["pos", "pos", "zero", "huge", "nan"]), "form": "ndarray",
         "shape": [frows, fcols], "dtype": rng.choice(UINTS if kind == "image" else FLOATS)}
    if d["dtype"] in UINTS and d["fill"] == "nan":
        d["fill"] = "pos"
    if kind == "photon" and rng.random() < 0.4:
        # (a 3-D cube is written as nested lists: float16/32 cubes come back as float64 — C18's subject, not generated here)
        d.update(form="dataarray", dims="std", coord=True, shape=[rng.choice([1, 2]), frows, fcols], dtype="float64")
    src["hold"] = d
    return src


def gen_ops(rng, kind, rows, cols, n, ids, det="CCD"):
    ops = []
    for _ in range(n):
        w = [("set", 24), ("iadd", 26), ("update", 9), ("empty", 8), ("read", 12), ("dtype", 4), ("shape", 4)]
        if kind == "photon":
            w += [("set3", 22), ("read3", 10)]
        w.append(("adopt", 7))
        w.append(("emptyAll", 8))
        w.append(("load", 3))
        if kind != "photon":
            w.append(("fromdict", 4))
        name = rng.choices([a for a, _ in w], [b for _, b in w])[0]
        if name == "fromdict":
            ids[0] += 1
            d = gen_operand(rng, ids[0], kind, rows, cols, "update")
            if d["form"] not in ("ndarray", "list"):
                d.update(form="ndarray", shape=[rows, cols])
            ops.append(["fromdict", d])
        elif name == "load":
            ids[0] += 1
            ops.append(["load", gen_file(rng, ids[0], det, kind, rows, cols)])
        elif name == "emptyAll":
            ops.append(["emptyAll", rng.random() < 0.5])   # detector.empty(reset)
        elif name == "adopt":
            ids[0] += 1
            ops.append(["adopt", gen_source(rng, ids[0], kind, rows, cols)])
        elif name in ("set", "set3", "iadd"):
            ids[0] += 1
            ops.append([name, gen_operand(rng, ids[0], kind, rows, cols, name)])
        elif name == "update":
            if rng.random() < 0.25:
                ops.append(["update", None])
            else:
                ids[0] += 1
                d = gen_operand(rng, ids[0], kind, rows, cols, "update")
                if d["form"] == "none":
                    ops.append(["update", None])
                    continue
                if rng.random() < 0.4 and d["form"] == "ndarray" and d["dtype"] in ("float64",):
                    d["form"] = "list"
                ops.append(["update", d])
        else:
            ops.append([name])
    return ops


def gen_box(rng, ids, kind=None, shape=None, n=None):
    det = rng.choice(["CCD", "CMOS", "MKID", "APD"])
    kinds = ["photon", "pixel", "signal", "image"] + (["phase"] if det == "MKID" else [])
    if kind is None:
        kind = "photon" if rng.random() < 0.3 else rng.choice(kinds)
    if kind == "phase":
        det = "MKID"
    rows, cols = shape or (rng.randint(1, 5), rng.randint(1, 5))
    n = rng.choice([1, 2, 3, 4, 6, 8, 12]) if n is None else n
    return {"det": det, "kind": kind, "rows": rows, "cols": cols, "ops": gen_ops(rng, kind, rows, cols, n, ids, det),
            "plus": rng.random() < 0.2}


def directed_box(rng, ids, kind, rows, cols, state, fill_seed=None, dtype=None):
    """a container brought to a given state: 'empty' | 'full' (values from fill_seed) | 'full3'"""
    b = {"det": "MKID" if kind == "phase" else rng.choice(["CCD", "CMOS", "APD"]), "kind": kind, "rows": rows,
         "cols": cols, "ops": [], "plus": False}
    if state == "empty":
        if rng.random() < 0.5:
            b["ops"] = [["read"]]
        return b
    ids[0] += 1
    dt = dtype or rng.choice(UINTS if kind == "image" else FLOATS)
    d = {"id": ids[0], "seed": fill_seed if fill_seed is not None else rng.randrange(10**6), "fill": "pos", "form": "ndarray",
         "shape": [rows, cols], "dtype": dt}
    if state == "full3":
        d.update(form="dataarray", dims="std", coord=True, shape=[2, rows, cols])
        b["ops"] = [["set3", d]]
    else:
        b["ops"] = [[rng.choice(["set", "iadd"]), d]]
    return b


# ------------------------------------------------------------------ implementation side
def get_detector(box):
    import pyx

    return pyx.make_detector(box["det"], box["rows"], box["cols"])


def get_container(box):
    return getattr(get_detector(box), box["kind"])


def canon_bytes(v):
    """the bytes of an array with every NaN replaced by the one canonical NaN of its dtype (a NaN's sign / payload bits are
    not values: they change, e.g., when a cube goes through a file)"""
    import numpy as np

    v = np.ascontiguousarray(v)
    if v.dtype.kind in "fc":
        m = np.isnan(v)
        if m.any():
            v = v.copy()
            v[m] = np.nan
    return v.tobytes()


def snapshot(c):
    """what the public attributes show: None (reading raises) or a description of the held object"""
    import numpy as np
    import xarray as xr

    try:
        x = c.array
    except TypeError:
        try:
            x = c.array_3d
        except Exception as e:  # noqa: BLE001
            return {"unreadable": common.err_kind(e)}
    except ValueError:
        return None
    except Exception as e:  # noqa: BLE001
        return {"unreadable": common.err_kind(e)}
    if isinstance(x, xr.DataArray):
        v = np.ascontiguousarray(x.values)
        wl = x.coords["wavelength"].values.tolist() if "wavelength" in x.coords else None
        return {"type": "DataArray", "is3d": True, "shape": list(x.shape), "dt": lean_dt(x.dtype), "npdt": str(x.dtype),
                "dims": list(map(str, x.dims)), "wl": wl,
                "sha": hashlib.sha1(canon_bytes(v)).hexdigest(), "neg": has_neg(v)}
    if isinstance(x, np.ndarray):
        v = np.ascontiguousarray(x)
        try:
            raw = canon_bytes(v) if v.dtype.kind != "O" else repr(v.tolist()).encode()
        except Exception:  # noqa: BLE001
            raw = b"?"
        return {"type": "ndarray", "is3d": False, "shape": list(x.shape), "dt": lean_dt(x.dtype), "npdt": str(x.dtype),
                "sha": hashlib.sha1(raw).hexdigest(), "neg": has_neg(v)}
    return {"type": type(x).__name__, "repr": repr(x)[:80]}


def apply_op(c, op, plus, det=None, kind=None):
    """returns (outcome, obs, new container)"""
    name = op[0]
    try:
        if name == "fromdict":
            # the detector is rebuilt from its own dictionary in which this bucket's entry was replaced (a file written by
            # another tool / edited by hand): `from_dict` must validate the entry like an assignment
            d = det.to_dict()
            d["data"][kind] = materialise(op[1])
            new_det = type(det).from_dict(d)
            apply_op.new_det = new_det          # the history goes on with the rebuilt detector
            c = getattr(new_det, kind)
        elif name == "adopt":
            setattr(det, kind, make_source(op[1]))
            c = getattr(det, kind)
        elif name == "set":
            c.array = materialise(op[1])
        elif name == "set3":
            c.array_3d = materialise(op[1])
        elif name == "update":
            c.update(None if op[1] is None else materialise(op[1]))
        elif name == "iadd":
            if plus:
                c = c + materialise(op[1])
            else:
                c += materialise(op[1])
        elif name == "empty":
            c.empty()
        elif name == "load":
            import shutil
            import tempfile

            from pyxel.models import load_detector

            tmp = tempfile.mkdtemp(prefix="c13load-")
            try:
                fdet, _ = make_source_detector(op[1])
                path = os.path.join(tmp, "detector.asdf")
                fdet.save(path)
                load_detector(det, path)
            finally:
                c = getattr(det, kind)      # the buckets may have been replaced
                shutil.rmtree(tmp, ignore_errors=True)
        elif name == "emptyAll":
            det.empty(op[1])          # Detector.empty / MKID.empty: acts on every bucket
            c = getattr(det, kind)
        elif name == "read":
            c.array  # noqa: B018
        elif name == "read3":
            c.array_3d  # noqa: B018
        elif name == "dtype":
            return "ok", lean_dt(c.dtype), c
        elif name == "shape":
            return "ok", list(c.shape), c
        else:
            raise common.InfraError(f"unknown op {name}")
    except common.InfraError:
        raise
    except Exception as e:  # noqa: BLE001
        return common.err_kind(e), str(e)[:200], c
    return "ok", None, c


def run_box(box):
    """[{out, obs, state}] per op on a fresh real container"""
    det = get_detector(box)
    c = getattr(det, box["kind"])
    res = []
    for op in box["ops"]:
        apply_op.new_det = None
        out, obs, c2 = apply_op(c, op, box.get("plus", False), det, box["kind"])
        if apply_op.new_det is not None:
            det = apply_op.new_det
        if c2 is not c and op[0] in ("load", "adopt", "emptyAll", "fromdict"):
            c = c2          # detector-level operations may install another bucket object
        if c2 is not c:
            return res + [{"out": "ok", "obs": "returned-a-different-object", "state": snapshot(c2)}]
        res.append({"out": out, "obs": obs, "state": snapshot(c)})
    return res


def eval_content(expr, descs, rows, cols):
    """numpy evaluation of the model's symbolic content"""
    import numpy as np
    import xarray as xr

    tag = expr[0]
    if tag == "zeros":
        return np.zeros((rows, cols), dtype=float)
    if tag == "input":
        x = materialise(descs[expr[1]])
        return x if isinstance(x, xr.DataArray) else np.asarray(x)
    if tag == "clip":
        x = materialise(descs[expr[1]])
        return x.clip(min=0.0) if isinstance(x, xr.DataArray) else np.clip(np.asarray(x), 0.0, None)
    if tag == "times0":
        x = eval_content(expr[1], descs, rows, cols).copy()
        x *= 0
        return x
    if tag == "plus":
        x = eval_content(expr[1], descs, rows, cols)
        x = x.copy()
        x += materialise(descs[expr[2]])
        return x
    raise common.InfraError(f"content {expr}")


def model_state_matches(mstate, istate, descs, rows, cols):
    import numpy as np
    import xarray as xr

    if mstate is None or istate is None:
        return mstate is None and istate is None
    if istate.get("type") not in ("ndarray", "DataArray"):
        return False
    if [mstate["is3d"], mstate["shape"], mstate["dt"]] != [istate["is3d"], istate["shape"], istate["dt"]]:
        return False
    try:
        x = eval_content(mstate["content"], descs, rows, cols)
    except common.InfraError:
        raise
    except Exception:  # noqa: BLE001
        return False
    v = np.ascontiguousarray(x.values if isinstance(x, xr.DataArray) else x)
    if str(v.dtype) != istate["npdt"] or list(v.shape) != istate["shape"]:
        return False
    return hashlib.sha1(canon_bytes(v)).hexdigest() == istate["sha"]


# ------------------------------------------------------------------ the statement, on the implementation
def state_ok(kind, rows, cols, st):
    """None, or why the held object contradicts 'detector-shaped array of an allowed numeric type'"""
    import numpy as np

    if st is None:
        return None
    if "unreadable" in st:
        return f"content can be read neither as .array nor as .array_3d ({st['unreadable']})"
    if st.get("type") not in ("ndarray", "DataArray"):
        return f"holds a {st.get('type')} ({st.get('repr')}), not an array"
    want = "u" if kind == "image" else "f"
    if np.dtype(st["npdt"]).kind != want:
        return f"holds dtype {st['npdt']} (allowed kind: {'unsigned integer' if want == 'u' else 'floating point'})"
    if st["is3d"]:
        if kind != "photon":
            return "a 3-D array in a non-photon container"
        if st["dims"] != ["wavelength", "y", "x"] or st["shape"][1:] != [rows, cols]:
            return f"3-D photon of dims {st['dims']} shape {st['shape']} on a {rows}x{cols} detector"
        return None
    if st["shape"] != [rows, cols]:
        return f"holds shape {tuple(st['shape'])} on a {rows}x{cols} detector"
    return None


def assigned_violates(kind, rows, cols, name, desc):
    """why the assigned object is not 'an array of the detector's shape and an allowed numeric type' (None if it is one)"""
    import numpy as np
    import xarray as xr

    x = materialise(desc)
    want = "u" if kind == "image" else "f"
    if name == "set3":
        if not isinstance(x, xr.DataArray):
            return f"a {type(x).__name__}"
        if x.dtype.kind != want:
            return f"a DataArray of dtype {x.dtype}"
        if x.ndim != 3 or list(x.shape[1:]) != [rows, cols]:
            return f"a DataArray of shape {x.shape}"
        return None
    if name == "set" and not isinstance(x, np.ndarray):
        return None if isinstance(x, (list, np.generic)) else f"a {type(x).__name__}"   # (array-likes are rejected by the code; not demanded by the statement)
    try:
        a = np.asarray(x)
    except Exception:  # noqa: BLE001
        return None
    if a.dtype.kind != want:
        return f"an array of dtype {a.dtype}"
    if list(a.shape) != [rows, cols]:
        return f"an array of shape {a.shape}"
    return None


def property_predicate(box, impl):
    """returns [(key, why, op index)] — every way this history contradicts the statement"""
    kind, rows, cols = box["kind"], box["rows"], box["cols"]
    bad = []
    prev = None
    exp_empty = True  # the statement's own bookkeeping of emptiness
    for i, (op, r) in enumerate(zip(box["ops"], impl)):
        name, st, out = op[0], r["state"], r["out"]
        if r.get("obs") == "returned-a-different-object":
            break
        why = state_ok(kind, rows, cols, st)
        if why:
            # the invariant breaks at this operation; everything later in this history is a consequence
            bad.append((f"C13:invariant:{kind}.{name}" + ("" if name in ("adopt", "load") else (":empty" if prev is None else ":full")),
                        f"after op #{i} {name} on a{'n empty' if prev is None else ' full'} {kind} container: {why}", i))
            break
        assignment = name in ("set", "set3", "update", "adopt", "load", "fromdict") or (name == "iadd" and prev is None)
        if assignment and out != "ok" and st != prev:
            bad.append((f"C13:failed-assignment-changed-content:{kind}.{name}",
                        f"op #{i} {name} raised {out} but the content changed", i))
        if out == "ok" and name in ("set", "set3", "update", "fromdict") and len(op) > 1 and op[1] is not None and not (name == "set3" and kind != "photon") \
                and not (name == "update" and kind == "photon"):
            vio = assigned_violates(kind, rows, cols, "update" if name == "fromdict" else name, op[1])
            if vio:
                bad.append((f"C13:violating-assignment-accepted:{kind}.{name}",
                            f"op #{i} {name} of {vio} was accepted instead of raising (the container now holds {st and st.get('npdt')} {st and st.get('shape')})", i))
        if kind == "photon" and assignment and out == "ok" and st and st.get("neg"):
            bad.append(("C13:photon-negative-after-assignment", f"op #{i} {name}: negative photon counts stored", i))
        if out == "ok" and name in ("set", "set3") and not (name == "set3" and kind != "photon"):
            # a successful assignment stores the assigned values (photon: negatives clipped to 0) — no stale data
            import numpy as np
            import xarray as xr

            x = materialise(op[1])
            v = x.values if isinstance(x, xr.DataArray) else np.asarray(x)
            if kind == "photon":
                v = np.clip(v, 0.0, None)
            v = np.ascontiguousarray(v)
            if st is None or st.get("sha") != hashlib.sha1(canon_bytes(v)).hexdigest():
                bad.append((f"C13:assignment-not-stored:{kind}", f"op #{i} {name} succeeded but the container does not hold the assigned values", i))
        # emptiness bookkeeping from the statement
        if out == "ok":
            if name in ("set", "iadd", "fromdict") or (name == "set3" and kind == "photon") or (name == "update" and op[1] is not None):
                exp_empty = False
            elif name in ("adopt", "load"):
                exp_empty = op[1]["hold"] is None
            elif name == "empty":
                exp_empty = kind != "pixel"
            elif name == "emptyAll":
                # photon, signal, image: always emptied; pixel: zeros on a destructive reset, kept otherwise; phase: kept / zeroed
                if kind in ("photon", "signal", "image"):
                    exp_empty = True
                elif kind == "pixel" and op[1]:
                    exp_empty = False
            elif name == "update" and op[1] is None:
                exp_empty = True
        if name in ("read", "read3", "dtype") and exp_empty and not (name == "read3" and kind != "photon"):
            if out == "ok":
                bad.append((f"C13:read-empty-returns:{kind}.{name}", f"op #{i} {name} on an empty container returned instead of raising", i))
            elif not (r["obs"] or "").strip():
                bad.append((f"C13:read-empty-unexplained:{kind}.{name}", f"op #{i} {name} on an empty container raised {out} without a message", i))
        if out == "ok" and ((name == "empty" and kind != "pixel") or (name == "update" and op[1] is None)
                            or (name == "emptyAll" and kind in ("photon", "signal", "image"))) and st is not None:
            bad.append((f"C13:stale-after-reset:{kind}" + (".emptyAll" if name == "emptyAll" else ""),
                        f"op #{i} {name}{'(reset=%s)' % op[1] if name == 'emptyAll' else ''}: the container should be empty but still holds data "
                        "(a read returns the previous content instead of raising)", i))
        if out == "ok" and kind == "pixel" and (name == "empty" or (name == "emptyAll" and op[1])) and not why:
            import numpy as np

            z = hashlib.sha1(np.zeros((rows, cols), dtype=float).tobytes()).hexdigest()
            if st is None or st.get("sha") != z or st.get("npdt") != "float64":
                bad.append(("C13:stale-after-reset:pixel", f"op #{i} {name}: the pixel bucket should be all zero after a reset", i))
        prev = st
    return bad


# ------------------------------------------------------------------ equality
def final_container(box):
    det = get_detector(box)
    c = getattr(det, box["kind"])
    for op in box["ops"]:
        apply_op.new_det = None
        _, _, c2 = apply_op(c, op, box.get("plus", False), det, box["kind"])
        if apply_op.new_det is not None:
            det = apply_op.new_det
        if c2 is not c and op[0] in ("load", "adopt", "emptyAll", "fromdict"):
            c = c2
        if c2 is not c:
            break
    return c


def values_token(x, side, wavelengths=None):
    """canonical text of an array's values: equal tokens <=> same shape and elementwise equal values
    (and, for a 3-D photon cube, the same wavelength coordinates: the labels of its first axis are part of the array)"""
    import math
    from fractions import Fraction

    import numpy as np

    a = np.asarray(x)
    out = [str(list(a.shape))]
    for n, v in enumerate(a.ravel().tolist()):
        if isinstance(v, float) and math.isnan(v):
            out.append("nan#3d" if a.ndim == 3 else f"nan#{side}{n}")  # DataArray.equals: NaN == NaN; np.array_equal: not
        elif isinstance(v, float) and math.isinf(v):
            out.append("inf" if v > 0 else "-inf")
        elif isinstance(v, (int, float)):
            out.append(str(Fraction(v)))
        else:
            out.append(f"?{side}{n}")
    if wavelengths is not None:
        out.append("wl=" + ";".join(str(Fraction(float(w))) for w in wavelengths))
    return ",".join(out)


def box_view(box, c, side):
    """public view of a container for the equality statement"""
    st = snapshot(c)
    view = {"kind": box["kind"], "rows": box["rows"], "cols": box["cols"], "st": None, "pubshape": list(c.shape)}
    if st is not None and st.get("type") in ("ndarray", "DataArray"):
        x = c.array_3d if st["is3d"] else c.array
        view["st"] = {"is3d": st["is3d"], "shape": st["shape"], "dt": st["dt"], "tok": values_token(x.values if st["is3d"] else x, side,
                                                  x.coords["wavelength"].values.tolist() if st["is3d"] and "wavelength" in x.coords else None)}
    elif st is not None:
        view["st"] = {"is3d": False, "shape": [], "dt": "other", "tok": f"?{side}"}
    return view


def shared_views(sh, rows, cols):
    """two arrays of shape (rows, cols) that are VIEWS of one numpy buffer"""
    import numpy as np

    rs = np.random.RandomState(sh["seed"])
    dt = np_dtype(sh["dtype"])
    mode = sh["mode"]
    if mode == "halves":            # left and right half of one mosaic
        big = rs.randint(0, 10, size=(rows, 2 * cols)).astype(dt)
        return big[:, :cols], big[:, cols:]
    if mode == "rows":              # upper and lower part of one stack
        big = rs.randint(0, 10, size=(2 * rows, cols)).astype(dt)
        return big[:rows], big[rows:]
    if mode == "flip":              # a frame and the same frame read backwards
        a = rs.randint(0, 10, size=(rows, cols)).astype(dt)
        return a, a[::-1, ::-1]
    if mode == "interleaved":       # even and odd columns of one buffer
        big = rs.randint(0, 10, size=(rows, 2 * cols)).astype(dt)
        return big[:, 0::2], big[:, 1::2]
    if mode == "same":              # the very same view twice (equal)
        a = rs.randint(0, 10, size=(rows, cols)).astype(dt)
        return a, a[:, :]
    if mode == "const":             # two different windows with equal values
        big = np.full((rows, 2 * cols), 3, dtype=dt)
        return big[:, :cols], big[:, cols:]
    raise common.InfraError(mode)


def run_eq(case):
    ca, cb = final_container(case["a"]), final_container(case["b"])
    if case.get("shared"):
        va_, vb_ = shared_views(case["shared"], case["a"]["rows"], case["a"]["cols"])
        ca.array = va_
        cb.array = vb_
    res = {}
    for nm, x, y in (("ab", ca, cb), ("ba", cb, ca)):
        try:
            r = x == y
            res[nm] = bool(r) if isinstance(r, (bool,)) or type(r).__name__ == "bool_" else f"non-bool:{type(r).__name__}"
        except Exception as e:  # noqa: BLE001
            res[nm] = "raises:" + common.err_kind(e)
    res["va"] = box_view(case["a"], ca, "a")
    res["vb"] = box_view(case["b"], cb, "b")
    return res


def eq_expected(va, vb):
    """the statement: same kind and shape, and both empty or equal arrays"""
    if va["kind"] != vb["kind"] or va["pubshape"] != vb["pubshape"]:
        return False
    if va["st"] is None or vb["st"] is None:
        return va["st"] is None and vb["st"] is None
    return va["st"]["tok"].replace("nan#a", "nan#b") == vb["st"]["tok"] and "nan#" not in va["st"]["tok"]


def eq_predicate(case, impl):
    va, vb = impl["va"], impl["vb"]
    exp = eq_expected(va, vb)
    one_empty = (va["st"] is None) != (vb["st"] is None)
    if va["kind"] == vb["kind"] and va["pubshape"] == vb["pubshape"] and one_empty:
        key = "C13:eq-empty-vs-full"
    else:
        key = f"C13:eq:{va['kind']}-{'empty' if va['st'] is None else 'full'}:{vb['kind']}-{'empty' if vb['st'] is None else 'full'}"
    # identical NaN-carrying arrays: "equal arrays" is not defined by the statement; not judged
    if va["st"] and vb["st"] and "nan#" in va["st"]["tok"] and va["st"]["tok"].replace("nan#a", "nan#b") == vb["st"]["tok"]:
        return None
    for nm, a, b in (("ab", "a", "b"), ("ba", "b", "a")):
        if impl[nm] is not exp:
            return key, (f"{a} == {b} gives {impl[nm]!r}; the statement says {exp} "
                         f"({a}: {va['kind'] if a == 'a' else vb['kind']} {'empty' if (va if a == 'a' else vb)['st'] is None else 'full'}, "
                         f"{b}: {vb['kind'] if b == 'b' else va['kind']} {'empty' if (vb if b == 'b' else va)['st'] is None else 'full'})")
    return None


def lean_box(v):
    return {"kind": v["kind"], "rows": v["rows"], "cols": v["cols"], "st": v["st"]}


# ------------------------------------------------------------------ requests
def descs_of(box):
    d = {}
    for op in box["ops"]:
        if len(op) > 1 and op[1] is not None and op[0] != "emptyAll":
            if op[0] in ("adopt", "load"):
                if op[1]["hold"] is not None:
                    d[op[1]["id"]] = op[1]
            else:
                d[op[1]["id"]] = op[1]
    return d


def lean_run_request(box):
    ops = []
    for op in box["ops"]:
        if len(op) == 1:
            ops.append(op)
        elif op[1] is None:
            ops.append([op[0], None])
        elif op[0] == "fromdict":
            ops.append(["update", lean_operand(op[1])])
        elif op[0] == "emptyAll":
            ops.append(["emptyAll", bool(op[1])])
        elif op[0] == "adopt":
            ops.append(["adopt", None if op[1]["hold"] is None else lean_operand(op[1])])
        elif op[0] == "load":
            ops.append(["load", None if op[1]["hold"] is None else lean_operand(op[1]), op[1]["det"] == box["det"],
                        [op[1]["rows"], op[1]["cols"]] == [box["rows"], box["cols"]]])
        else:
            ops.append([op[0], lean_operand(op[1])])
    return {"op": "run", "kind": box["kind"], "rows": box["rows"], "cols": box["cols"], "ops": ops}


def gen_eq_case(rng, ids):
    style = rng.random()
    kind = rng.choice(KINDS)
    rows, cols = rng.randint(1, 4), rng.randint(1, 4)
    if style < 0.3:  # same kind & shape, all emptiness combinations, equal or different values
        sa, sb = rng.choice([("empty", "full"), ("full", "empty"), ("empty", "empty"), ("full", "full"), ("full", "full")])
        seed = rng.randrange(10**6)
        same = rng.random() < 0.6
        dts = UINTS if kind == "image" else FLOATS
        a = directed_box(rng, ids, kind, rows, cols, sa, seed, rng.choice(dts))
        b = directed_box(rng, ids, kind, rows, cols, sb, seed if same else seed + 1, rng.choice(dts))
    elif style < 0.45:  # different kind, same shape and values
        k2 = rng.choice([k for k in KINDS if k != kind])
        seed = rng.randrange(10**6)
        sa = rng.choice(["empty", "full"])
        a = directed_box(rng, ids, kind, rows, cols, sa, seed, "uint16" if kind == "image" else "float64")
        b = directed_box(rng, ids, k2, rows, cols, sa, seed, "uint16" if k2 == "image" else "float64")
    elif style < 0.6:  # same kind, different detector shape
        sa, sb = rng.choice([("empty", "empty"), ("full", "full"), ("empty", "full")])
        a = directed_box(rng, ids, kind, rows, cols, sa)
        b = directed_box(rng, ids, kind, cols + 1, rows, sb)
    elif style < 0.68:  # 3-D photon cubes of equal shape and values whose wavelength coordinates differ (disjoint / shifted / other step)
        seed = rng.randrange(10**6)
        a = directed_box(rng, ids, "photon", rows, cols, "full3", seed, "float64")
        b = directed_box(rng, ids, "photon", rows, cols, "full3", seed if rng.random() < 0.8 else seed + 1, "float64")
        w = rng.choice([1, 2, 3])
        for bx in (a, b):
            bx["ops"][0][1]["shape"] = [w, rows, cols]
            bx["ops"][0][0] = "set3"
        how = rng.choice(["disjoint", "shift1", "step", "same", "disjoint"])
        if how == "disjoint":
            b["ops"][0][1]["wl0"] = 1000.0
        elif how == "shift1":
            b["ops"][0][1]["wl0"] = 20.0
        elif how == "step":
            b["ops"][0][1]["wlstep"] = 25.0
            b["ops"][0][1]["wl0"] = 5.0
        if rng.random() < 0.5:
            a, b = b, a
    elif style < 0.74:  # photons: 2-D vs 3-D vs empty
        sa, sb = rng.choice([("full", "full3"), ("full3", "full3"), ("full3", "empty"), ("empty", "full3")])
        seed = rng.randrange(10**6)
        a = directed_box(rng, ids, "photon", rows, cols, sa, seed, "float64")
        b = directed_box(rng, ids, "photon", rows, cols, sb, seed if rng.random() < 0.6 else seed + 1, "float64")
    elif style < 0.82:  # two containers of one kind and shape holding different VIEWS of one numpy buffer
        k = rng.choice(["pixel", "signal", "image", "phase", "pixel", "signal"])
        a = directed_box(rng, ids, k, rows, cols, "empty")
        b = directed_box(rng, ids, k, rows, cols, "empty")
        a["ops"], b["ops"] = [], []
        return {"a": a, "b": b, "shared": {"seed": rng.randrange(10**6), "dtype": rng.choice(UINTS if k == "image" else FLOATS),
                                           "mode": rng.choice(["halves", "rows", "flip", "interleaved", "same", "const", "halves", "flip"])}}
    else:  # random histories
        a = gen_box(rng, ids, n=rng.choice([0, 1, 2, 4]))
        b = gen_box(rng, ids, kind=a["kind"] if rng.random() < 0.8 else None,
                    shape=(a["rows"], a["cols"]) if rng.random() < 0.8 else None, n=rng.choice([0, 1, 2, 4]))
    return {"a": a, "b": b}


# ------------------------------------------------------------------ the check
def body(ck: common.Check):
    import extract

    extract.generate("C13")
    ck.obligations(["PyxelModel.Props.C13"], ["PyxelModel.Drive.C13"])
    rng = ck.rng
    quick = ck.tier == "quick"
    ids = [0]
    boxes = []
    # directed: += / set / update of every dtype and a few shapes on an empty and on a full container of every kind
    for kind in KINDS:
        for dt in DT_ALL:
            for start in ("empty", "full"):
                rows, cols = rng.randint(1, 4), rng.randint(1, 4)
                b = directed_box(rng, ids, kind, rows, cols, start)
                for name in ("iadd", "set", "update"):
                    ids[0] += 1
                    shape = rng.choice([[rows, cols], [rows, cols], [cols, rows + 1], [cols]])
                    b["ops"].append([name, {"id": ids[0], "seed": rng.randrange(10**6), "fill": rng.choice(["pos", "neg"]),
                                            "form": "ndarray", "shape": shape, "dtype": dt}])
                    b["ops"].append(["read"])
                boxes.append(("dtypes", b))
    # directed: detector.empty(reset) on filled / empty buckets of every kind of every detector type (non-square), then reads
    for det in ("CCD", "CMOS", "APD", "MKID"):
        for kind in ("photon", "pixel", "signal", "image") + (("phase",) if det == "MKID" else ()):
            for reset in (True, False):
                for start in ("full", "empty", "full-nan"):
                    rows, cols = rng.choice([(2, 3), (3, 1), (1, 4), (4, 2), (3, 5)])
                    b = directed_box(rng, ids, kind, rows, cols, "empty" if start == "empty" else "full")
                    b["det"] = det
                    b["ops"] = [op for op in b["ops"] if op[0] != "read"]
                    if start == "full-nan" and kind != "image":
                        b["ops"][0][1]["fill"] = "nan"
                    b["ops"] += [["emptyAll", reset], ["read"], ["dtype"], ["shape"]]
                    if rng.random() < 0.5:
                        ids[0] += 1
                        b["ops"] += [["iadd", gen_operand(rng, ids[0], kind, rows, cols, "iadd")], ["emptyAll", not reset], ["read"]]
                    boxes.append(("detector-reset", b))
    # directed: `detector.photon = source` where the source Photon (same / other geometry) was filled validly and then had a
    # frame with negative entries added in place; 2-D and 3-D, every detector type
    for det in ("CCD", "CMOS", "APD", "MKID"):
        for three in (False, True):
            for same_geo in (True, True, False):
                rows, cols = rng.choice([(2, 3), (3, 2), (1, 4), (3, 3)])
                b = directed_box(rng, ids, "photon", rows, cols, rng.choice(["empty", "full"]))
                b["det"] = det
                b["ops"] = [op for op in b["ops"] if op[0] != "read"]
                srows, scols = (rows, cols) if same_geo else (rows + 1, cols)
                ids[0] += 1
                d = {"id": ids[0], "seed": rng.randrange(10**6), "fill": "pos", "form": "ndarray", "shape": [srows, scols],
                     "dtype": rng.choice(FLOATS)}
                if three:
                    d.update(form="dataarray", dims="std", coord=True, shape=[2, srows, scols])
                src = {"id": ids[0], "skind": "photon", "rows": srows, "cols": scols, "det": rng.choice(["CCD", "CMOS", "APD"]), "hold": d,
                       "then": dict(d, seed=rng.randrange(10**6), fill=rng.choice(["neg", "nanneg"]))}
                b["ops"] += [["adopt", src], ["read3" if three else "read"]]
                boxes.append(("adopt-negative", b))
    # directed: load_detector with files of the same / another geometry / another detector type, on filled and empty buckets
    for det in ("CCD", "CMOS", "APD", "MKID"):
        for kind in ("photon", "photon3", "pixel", "signal", "image") + (("phase",) if det == "MKID" else ()):
            for how in ("same", "geometry", "type") if (quick and kind in ("signal", "image")) is False else ("geometry",):
                k = "photon" if kind == "photon3" else kind
                rows, cols = rng.choice([(2, 3), (3, 2), (1, 4)])
                b = directed_box(rng, ids, k, rows, cols, rng.choice(["full", "full", "empty"]))
                b["det"] = det
                b["ops"] = [op for op in b["ops"] if op[0] != "read"]
                ids[0] += 1
                frows, fcols = (rows, cols) if how != "geometry" else (rows, cols + 1)
                fdet = det if how != "type" else {"CCD": "CMOS", "CMOS": "CCD", "APD": "CCD", "MKID": "CCD"}[det]
                d = {"id": ids[0], "seed": rng.randrange(10**6), "fill": "pos", "form": "ndarray", "shape": [frows, fcols],
                     "dtype": "uint16" if k == "image" else "float64"}
                if kind == "photon3":
                    d.update(form="dataarray", dims="std", coord=True, shape=[2, frows, fcols])
                hold = None if (k == "phase" and fdet != "MKID") else d
                b["ops"] += [["load", {"id": ids[0], "skind": k, "rows": frows, "cols": fcols, "det": fdet, "hold": hold}],
                             ["read3" if kind == "photon3" and how == "same" else "read"], ["shape"]]
                boxes.append(("load", b))
    # directed: from_dict of a detector dictionary whose bucket entry does not fit (dtype / shape / stack / other geometry), 4 types
    for det in ("CCD", "CMOS", "APD", "MKID"):
        for kind in ("pixel", "signal", "image") + (("phase",) if det == "MKID" else ()):
            good = "uint16" if kind == "image" else "float64"
            for how in ("valid", "dtype-int", "dtype-float-or-uint", "dtype-complex", "transposed", "stack", "other-geometry", "list-int"):
                if quick and how in ("dtype-complex", "list-int") and det in ("CMOS", "MKID"):
                    continue
                rows, cols = rng.choice([(2, 3), (3, 2), (1, 4)])
                b = directed_box(rng, ids, kind, rows, cols, rng.choice(["full", "empty"]))
                b["det"] = det
                b["ops"] = [op for op in b["ops"] if op[0] != "read"]
                ids[0] += 1
                d = {"id": ids[0], "seed": rng.randrange(10**6), "fill": "pos", "form": "ndarray", "shape": [rows, cols], "dtype": good}
                if how == "dtype-int":
                    d["dtype"] = "int64"
                elif how == "dtype-float-or-uint":
                    d["dtype"] = "float64" if kind == "image" else "uint16"
                elif how == "dtype-complex":
                    d["dtype"] = "complex128"
                elif how == "transposed":
                    d["shape"] = [cols, rows]
                elif how == "stack":
                    d["shape"] = [2, rows, cols]
                elif how == "other-geometry":
                    d["shape"] = [rows + 1, cols + 2]
                elif how == "list-int":
                    d.update(form="list", dtype="int64")
                b["ops"] += [["fromdict", d], ["read"], ["dtype"]]
                boxes.append(("fromdict", b))
    # directed: photon assignments of arrays holding BOTH NaN and negative counts, every float type, every assignment path
    for dt in FLOATS:
        for path in ("set", "iadd", "plus", "set3", "iadd3", "plus3", "adopt", "set-after-full", "set3-after-full"):
            for _ in range(2):
                rows, cols = rng.randint(1, 4), rng.randint(2, 4)
                b = directed_box(rng, ids, "photon", rows, cols, "full" if path.endswith("after-full") else "empty")
                b["ops"] = [op for op in b["ops"] if op[0] != "read"]
                ids[0] += 1
                d = {"id": ids[0], "seed": rng.randrange(10**6), "fill": "nanneg", "form": "ndarray", "shape": [rows, cols], "dtype": dt}
                if "3" in path:
                    d.update(form="dataarray", dims="std", coord=True, shape=[rng.choice([1, 2, 3]), rows, cols])
                if path == "adopt":
                    b["ops"].append(["adopt", {"id": ids[0], "skind": rng.choice(["pixel", "signal"]), "rows": rows, "cols": cols,
                                               "det": "CCD", "hold": d}])
                else:
                    b["ops"].append([{"set": "set", "set-after-full": "set", "set3": "set3", "set3-after-full": "set3"}.get(path, "iadd"), d])
                    b["plus"] = path.startswith("plus")
                b["ops"].append(["read3" if "3" in path else "read"])
                boxes.append(("nan+negative", b))
    for _ in range(1500 if quick else 25000):
        boxes.append(("random", gen_box(rng, ids)))
    eqs = [gen_eq_case(rng, ids) for _ in range(600 if quick else 8000)]

    answers = LeanDriver("C13").batch([lean_run_request(b) for _, b in boxes])
    for (stream, box), ans in zip(boxes, answers):
        if "bad" in ans:
            raise common.InfraError(f"driver rejected request: {ans}")
        impl = run_box(box)
        model = ans["model"]
        n_ok = sum(1 for r in impl if r["out"] == "ok")
        ck.case(box, nontrivial=len(box["ops"]) >= 2 and 0 < n_ok, stream=stream)
        ck.count(f"kind={box['kind']}")
        ck.count(f"det={box['det']}")
        for op, r in zip(box["ops"], impl):
            ck.count(f"op={op[0]}:{r['out']}")
        for key, why, i in property_predicate(box, impl):
            short = dict(box, ops=box["ops"][: i + 1])
            ck.violation(key, why, {"case": {"run": short}, "impl": impl[: i + 1]})
        descs = descs_of(box)
        prev_state = None
        for i, (op, r, m) in enumerate(zip(box["ops"], impl, model)):
            # a failed `+=` on a full container may legitimately differ in content only through numpy; compare fully
            same = r["out"] == m["out"] and model_state_matches(m["state"], r["state"], descs, box["rows"], box["cols"])
            if same and r["out"] == "ok" and op[0] in ("dtype", "shape"):
                same = r["obs"] == m["obs"]
            if not same:
                ck.disagreement(stream, dict(box, ops=box["ops"][: i + 1]),
                                {"out": r["out"], "state": r["state"], "obs": r["obs"]}, m)
                break
            # the Lean invariant bit must agree with the Python reading of the statement
            if m["inv"] != (state_ok(box["kind"], box["rows"], box["cols"], r["state"]) is None):
                raise common.InfraError(f"python predicate and Lean Inv disagree on {box} op {i}")
            prev_state = r["state"]
        if len(impl) != len(model):
            ck.disagreement(stream, box, impl[-1:], "history cut short (operation returned a different object)")

    eq_impl = [run_eq(c) for c in eqs]
    eq_ans = LeanDriver("C13").batch([{"op": "eq", "a": lean_box(i["va"]), "b": lean_box(i["vb"])} for i in eq_impl])
    for case, impl, ans in zip(eqs, eq_impl, eq_ans):
        if "bad" in ans:
            raise common.InfraError(f"driver rejected request: {ans}")
        va, vb = impl["va"], impl["vb"]
        ck.case(case, nontrivial=va["st"] is not None or vb["st"] is not None, stream="eq")
        ck.count(f"eq:{'empty' if va['st'] is None else 'full'}-{'empty' if vb['st'] is None else 'full'}:"
                 f"{'samekind' if va['kind'] == vb['kind'] else 'diffkind'}")
        v = eq_predicate(case, impl)
        if v:
            ck.violation(v[0], v[1], {"case": {"eq": case}, "impl": {k: impl[k] for k in ("ab", "ba")}})
        if impl["ab"] is not ans["model"] or impl["ba"] is not ans["model"]:
            ck.disagreement("eq", case, {k: impl[k] for k in ("ab", "ba")}, ans["model"], key=v[0] if v else None)
        nan_skip = v is None and (impl["ab"] is not eq_expected(va, vb))
        if ans["spec"] is not eq_expected(va, vb) and not nan_skip:
            raise common.InfraError(f"python eq oracle and Lean eqSpecB disagree on {case}")
    ck.rule = ("operation histories (1-12 ops: .array=, .array_3d=, update, +=/+, <Detector>.from_dict(<its dictionary with this bucket's entry replaced by an ill-typed / ill-shaped / valid array>), detector.<bucket> = <container of another detector, possibly modified in place after it was filled>, load_detector(detector, <file of a detector of the same/another type and geometry>), empty, detector.empty(reset=True/False), .array, .array_3d, .dtype, .shape) on the real "
               "photon/pixel/signal/image/phase containers of CCD/CMOS/MKID/APD detectors of 1..5 x 1..5 pixels; operands: right/wrong "
               "shapes (transposed, +1, 1-D, 3-D, 0-d, broadcastable), all 19 numpy dtypes incl. object/str/datetime, lists, numpy and "
               "Python scalars, None, DataArrays with right/wrong dims/coords, negative/NaN/NaN-and-negative/huge/zero fills; photon assignments of NaN-and-negative arrays by every path (set, set3, +=/+ on empty, adopt) x float16/32/64 directed; detector.empty(True/False) on full / empty / NaN-holding buckets of every kind x CCD/CMOS/APD/MKID with non-square shapes followed by reads, directed; plus every dtype x "
               "{empty, full} x kind directed; equality on pairs (containers holding different views of ONE numpy buffer: halves, flipped, interleaved, identical; all emptiness combinations, same/different kind, shape, values, 2-D/3-D); "
               "non-trivial = at least two ops with at least one success (eq: at least one side full); distinct by canonical JSON")
    ck.assumptions = [
        "'shape' in the equality clause is the public .shape (for Photon: () when empty, else the stored array's shape)",
        "'equal arrays' = same shape and elementwise equal values, dtype-insensitive (for 3-D photon cubes also the same wavelength coordinates); pairs of bytewise-identical arrays containing NaN are not judged",
        "a failed in-place addition on a FULL container is not an 'assignment' of the statement: its content is compared with the model but not judged by the predicate",
        "an xarray DataArray added in place to a full numpy-backed (non-photon) container is never generated (numpy adds into the buffer before the setter rejects the DataArray result)",
        "in-place addition of a negative array to a photon container is recorded, not judged (DESIGN 6b)",
    ]
    ck.trusted_base.append("C13: numpy/xarray in-place add, np.clip, np.asarray modelled by contract (the model's symbolic content is evaluated with them)")


def replay(rp):
    case = rp["replay"].get("case")
    if case is None:
        print("replay names a broken obligation/correspondence, no concrete input:", rp["what"])
        return 1
    if "run" in case:
        impl = run_box(case["run"])
        bad = property_predicate(case["run"], impl)
        print("impl:", json.dumps(impl[-1], default=str)[:400])
        if bad:
            print("REPRODUCED: " + bad[0][1])
            return 1
    else:
        impl = run_eq(case["eq"])
        v = eq_predicate(case["eq"], impl)
        print("impl:", {k: impl[k] for k in ("ab", "ba")})
        if v:
            print("REPRODUCED: " + v[1])
            return 1
    print("not reproduced (property holds on this input)")
    return 0


if __name__ == "__main__":
    if len(sys.argv) > 2 and sys.argv[1] == "--replay":
        common.ensure_repo_on_path()
        sys.exit(replay(json.load(open(sys.argv[2]))))
    sys.exit(run_check("C13", body))
