#!/bin/bash
# usage: harness/multiseed.sh "<seeds>" [tier] [parallelism] — every claimed check on /repo for several seeds
seeds="${1:-2 3 4}"; tier="${2:-quick}"; par="${3:-4}"
cd /verif
run_one() { p=$1; s=$2; t=$3; start=$(date +%s); f=$(mktemp /tmp/ms.XXXXXX); VERIF_SEED=$s ./check $p $t >$f 2>&1; rc=$?; out=$(grep -E "VIOLATION|KNOWN|^  C[0-9]|^  unpr|INFRASTRUCTURE|TIMEOUT" $f | head -5); rm -f $f; echo "$p seed=$s rc=$rc $(( $(date +%s)-start ))s ${out:0:300}"; }
export -f run_one
for s in $seeds; do
  if [ -n "${PROPS:-}" ]; then echo $PROPS | tr " " "\n"; else python3 -c "import json; print('\n'.join(c['property_id'] for c in json.load(open('MANIFEST.json'))['checks']))"; fi | xargs -P $par -I{} bash -c "run_one {} $s $tier"
done
