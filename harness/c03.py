"""C03 — the returned result is a faithful, complete record of every step (incl. debug capture).

obligations: lean/PyxelModel/Props/C03.lean (recorder: every number of steps and every sequence of bucket states;
             debug capture: every number of steps / models and every effect of each model)
tie to code : generated pipelines of writer probes (`probes.c03_writer`) and a snapshot probe last in every step are
              run through `pyxel.run_mode` three times (flat layout, hierarchical layout, debug); the returned
              DataTree is compared slice by slice, dtype by dtype, label by label with the snapshots (the statement,
              `property_predicate`) and with the Lean model of the recorder and of the debug capture.
"""

from __future__ import annotations

import json
import math
import sys
from fractions import Fraction

import common
from common import LeanDriver, run_check

GROUPS = [
    "scene_generation", "photon_collection", "phasing", "charge_generation", "charge_collection",
    "charge_transfer", "charge_measurement", "signal_transfer", "readout_electronics",
]
BUCKETS = ["photon", "charge", "pixel", "signal", "image"]
FLOATS = ["float16", "float32", "float64"]
UINTS = ["uint8", "uint16", "uint32", "uint64"]
MAXV = {"uint8": 255, "uint16": 65535, "uint32": 2**32 - 1, "uint64": 2**64 - 1, "float16": 2048, "float32": 2**24, "float64": 2**53}
BIG64 = [2**53 + 1, 2**63 + 5, 2**64 - 1, 2**60 + 3, 2**53 + 2**20 + 1]


# ------------------------------------------------------------------ generator
def gen_values(rng, dt, n, big=False):
    hi = min(MAXV[dt], 5000)
    vals = [rng.randrange(0, hi + 1) for _ in range(n)]
    if rng.random() < 0.3:
        vals = [vals[0]] * n
    if big:
        for k in rng.sample(range(n), max(1, n // 2)):
            vals[k] = rng.choice(BIG64)
    if not any(vals):
        vals[0] = 1
    return vals


def gen_triples(rng, rows, cols):
    """2-6 clusters [number, row, col] over at least two different pixels"""
    npix = rows * cols
    px = rng.sample(range(npix), 2) + [rng.randrange(npix) for _ in range(rng.choice([0, 1, 2, 4]))]
    return [[rng.randrange(1, 900), q // cols, q % cols] for q in px]


def adds_of(triples, rows, cols):
    v = [0] * (rows * cols)
    for n, r, q in triples:
        v[r * cols + q] += n
    return v


def move_idx(drow, dcol, rows, cols):
    return [((j // cols + drow) % rows) * cols + (j % cols + dcol) % cols for j in range(rows * cols)]


def sim_charge(vals, op, rows, cols):
    """harness-side mirror of what a charge operation does to the per-pixel totals (only used to keep the
    generated histories well-defined: a removal never empties the dataframe)"""
    if op[0] == "clusters":
        return [a + b for a, b in zip(vals, adds_of(op[2], rows, cols))]
    if op[0] == "cl_scale":
        return [a * op[1] for a in vals]
    if op[0] == "cl_move":
        idx, out = move_idx(op[1], op[2], rows, cols), [0] * len(vals)
        for j, v in enumerate(vals):
            out[idx[j]] += v
        return out
    if op[0] == "cl_remove":
        return [0 if j == op[1] else v for j, v in enumerate(vals)]
    if op[0] == "add":
        return [a + op[2] for a in vals]
    raise ValueError(op)


def gen_cluster_ops(rng, vals, rows, cols, many=False):
    """1-3 operations on a charge bucket that holds clusters; returns (ops, new per-pixel totals)"""
    ops = []
    for _ in range(rng.choice([1, 2, 3] if many else [1, 1, 2])):
        r = rng.random()
        occupied = [j for j, v in enumerate(vals) if v > 0]
        if r < 0.35:
            op = ["cl_scale", rng.choice([2, 3, 5])]
        elif r < 0.55 and rows * cols > 1:
            d = rng.choice([(a, b) for a in range(rows) for b in range(cols) if (a, b) != (0, 0)])
            op = ["cl_move", d[0], d[1]]
        elif r < 0.68 and len(occupied) >= 2:
            op = ["cl_remove", rng.choice(occupied)]
        elif r < 0.75:
            # every cluster removed: no charge left (the frame is empty afterwards, later cluster operations stop here)
            ops.append(["cl_remove_all", rng.choice(["all", "ids"])])
            return ops, [0] * len(vals), False
        elif r < 0.86:
            op = ["add", "charge", rng.randrange(1, 40)]
        else:
            op = ["clusters", rng.choice(["add_charge", "dataframe"]), gen_triples(rng, rows, cols)]
        vals = sim_charge(vals, op, rows, cols)
        ops.append(op)
    return ops, vals, True


def gen_case(rng, force=None):
    force = force or {}
    rows, cols = rng.choice([1, 2, 2, 3]), rng.choice([2, 3, 4])
    npix = rows * cols
    nsteps = force.get("nsteps") or rng.choice([1, 2, 2, 3, 3, 4, 6])
    start = rng.randrange(-16, 40) / 8.0
    t, times = max(start, 0.0), []
    for _ in range(nsteps):
        t += rng.randrange(1, 40) / 8.0
        times.append(t)
    nd = force.get("nd", rng.random() < 0.45)
    # writer models, already in execution order (group order of the pipeline, list order inside a group)
    gs = sorted(rng.sample(range(len(GROUPS)), 1 if force.get("single_model") else rng.choice([1, 2, 2, 3, 4])))
    models = []
    for gi in gs:
        for k in range(1 if force.get("single_model") else rng.choice([1, 1, 2])):
            models.append([GROUPS[gi], f"w{k}"])
    # which buckets are initialised (in every step, by a fixed owner model), with which dtype
    photon3d = bool(force.get("photon3d")) or rng.random() < 0.25
    wl = [500.0, 600.0, 750.0][: rng.choice([2, 3])]
    # the wavelength grid of a multi-wavelength photon bucket may change from readout to readout (same number of bins)
    wl_shift = bool(force.get("wl_shift")) or rng.random() < 0.4
    grids = [[w + d for w in wl] for d in (0.0, 25.0, 100.0, -50.0, 250.0)]
    own_yx, own_yx_mode = None, rng.choice(["const", "const", "some-steps"])
    if force.get("own_yx") or rng.random() < 0.35:
        oy, ox = rng.choice([1, 3, 10, -2]), rng.choice([2, 5, 0, 7])
        own_yx = rng.choice([
            {"y": [oy + r for r in range(rows)], "x": [ox + c for c in range(cols)]},
            {"y": [0.5 * r - 1.25 for r in range(rows)], "x": [0.25 * c + 3.5 for c in range(cols)]},
            {"y": list(range(rows)), "x": [ox + 1 + c for c in range(cols)]},
        ])
    owners = {}
    for b in ("photon", "signal", "image", "charge", "pixel"):
        p = {"photon": 0.7, "signal": 0.6, "image": 0.75, "charge": 0.5, "pixel": 0.3}[b]
        if force.get("photon3d") and b == "photon":
            p = 1.0
        if (force.get("image") and b == "image") or (force.get("clusters") and b == "charge"):
            p = 1.0
        if force.get("clusters") and b == "pixel":
            p = 0.0
        if rng.random() < p:
            dt = rng.choice(UINTS) if b == "image" else (rng.choice(FLOATS) if b != "charge" else "float64")
            if b == "image" and force.get("image"):
                dt = force["image"]
            owners[b] = {"model": rng.randrange(len(models)), "dtype": dt,
                         "mode": rng.choice(["const", "const", "step", "step", "step"]),
                         "big": (b == "image" and dt == "uint64" and (force.get("big") or rng.random() < 0.5)),
                         "clusters": b == "charge" and (bool(force.get("clusters")) or rng.random() < 0.3)}
    if force.get("clusters") and len(models) > 1:
        owners["charge"]["model"] = rng.randrange(len(models) - 1)  # leave room for a model that modifies the clusters
    plan = []  # per step: per model: ops
    const_vals = {}
    for i in range(nsteps):
        step_ops = [[] for _ in models]
        charge_vals, charge_frame = [0] * npix, False  # per-pixel totals / does the bucket hold clusters?
        for b, o in owners.items():
            n = npix * (len(wl) if (b == "photon" and photon3d) else 1)
            if o.get("clusters"):
                tr = const_vals.setdefault(b, gen_triples(rng, rows, cols)) if o["mode"] == "const" else gen_triples(rng, rows, cols)
                step_ops[o["model"]].append(["clusters", rng.choice(["add_charge", "dataframe"]), tr])
                charge_vals, charge_frame = adds_of(tr, rows, cols), True
                continue
            if o["mode"] == "const":
                vals = const_vals.setdefault(b, gen_values(rng, o["dtype"], n, o["big"]))
            else:
                vals = gen_values(rng, o["dtype"], n, o["big"])
            if b == "charge":
                charge_vals = list(vals)
            if b == "photon" and photon3d:
                wl_i = (grids[i % len(grids)] if rng.random() < 0.7 else rng.choice(grids)) if wl_shift else wl
                op3 = ["set3d", o["dtype"], wl_i, vals]
                if own_yx:
                    # the cube carries its own row / column labels (a cut-out: offset integers; sky units: floats)
                    op3.append(own_yx if own_yx_mode == "const" or i % 2 == 0 else None)
                step_ops[o["model"]].append(op3)
            else:
                step_ops[o["model"]].append(["set", b, o["dtype"], vals])
        # later modifications by models after the owner: in-place add, rewrite of the same content
        for mi in range(len(models)):
            for b, o in owners.items():
                if b == "charge" and mi > o["model"] and (charge_frame or rng.random() < 0.25):
                    # the bucket holds clusters (or receives some now): modify them in place / remove / add
                    if not charge_frame:
                        tr = gen_triples(rng, rows, cols)
                        step_ops[mi].append(["clusters", rng.choice(["add_charge", "dataframe"]), tr])
                        charge_vals, charge_frame = sim_charge(charge_vals, step_ops[mi][-1], rows, cols), True
                    if rng.random() < (0.9 if force.get("clusters") else 0.6):
                        ops_, charge_vals, charge_frame = gen_cluster_ops(rng, charge_vals, rows, cols, many=bool(force.get("clusters")))
                        step_ops[mi].extend(ops_)
                    if "pixel" not in owners and rng.random() < 0.3:
                        step_ops[mi].append(["collect"])
                    continue
                if b == "photon" and photon3d and mi > o["model"] and rng.random() < (0.7 if force.get("regrid") else 0.2):
                    # a later model puts the cube on another wavelength grid (spectral shift / resampling / cropping)
                    cur = next(op for ops_ in reversed(step_ops[: mi + 1]) for op in reversed(ops_) if op[0] == "set3d")
                    cw, cv = cur[2], cur[3]
                    kind = rng.choice(["relabel", "extend", "slide", "crop"] if len(cw) > 1 else ["relabel", "extend"])
                    plane = lambda j: cv[j * npix:(j + 1) * npix]  # noqa: E731
                    fresh = lambda: [rng.randrange(1, 2000) for _ in range(npix)]  # noqa: E731
                    if kind == "relabel":      # same values, every label shifted
                        nw, nv = [w + 12.5 for w in cw], list(cv)
                    elif kind == "extend":     # one more bin; the old bins keep their values
                        nw, nv = cw + [cw[-1] + 100.0], list(cv) + fresh()
                    elif kind == "slide":      # first bin dropped, a new last bin; common labels keep their values
                        nw, nv = cw[1:] + [cw[-1] + 100.0], [x for j in range(1, len(cw)) for x in plane(j)] + fresh()
                    else:                      # crop: last bin dropped
                        nw, nv = cw[:-1], [x for j in range(len(cw) - 1) for x in plane(j)]
                    step_ops[mi].append(["set3d", cur[1], nw, nv])
                    continue
                if mi > o["model"] and not (b == "photon" and photon3d) and not o["big"]:
                    r = rng.random()
                    if r < (0.4 if b == "charge" else 0.15) and o["dtype"] not in ("uint8", "float16"):
                        step_ops[mi].append(["add", b, rng.randrange(1, 40)])
                        if b == "charge":
                            charge_vals = sim_charge(charge_vals, step_ops[mi][-1], rows, cols)
                    elif r < 0.3 and b != "charge":
                        step_ops[mi].append(["same", b])
                    elif r < (0.55 if force.get("zeroing") else 0.4):
                        # the bucket held non-zero content: this model sets every entry to exactly 0 (charge: empties it)
                        step_ops[mi].append(["zero", b, o["dtype"]])
                        if b == "charge":
                            charge_vals = [0] * npix
            if "pixel" not in owners and rng.random() < 0.3:
                step_ops[mi].append(["add", "pixel", rng.randrange(1, 60)])
            elif "pixel" not in owners and rng.random() < (0.4 if force.get("zeroing") else 0.12):
                step_ops[mi].append(["zero", "pixel", "float64"])  # drains what earlier models / steps collected
            if rng.random() < 0.12:
                step_ops[mi].append(["scene", rng.randrange(1, 50), rng.choice([wl, wl, [500.0, 700.0], [400.0, 500.0, 600.0, 800.0]])])
            if rng.random() < (0.6 if force.get("datac") else 0.08):
                # processed data along a dimension named like a bucket dimension, same length, OTHER labels (e.g. one value
                # per readout labelled with the mid-integration time; a profile along x in micrometres)
                dim = rng.choice(["time", "time", "x", "y"])
                ln = {"time": nsteps, "x": cols, "y": rows}[dim]
                labels = [(start + tt - 0.0625) for tt in times] if dim == "time" else [2.5 * q + 1.25 for q in range(ln)]
                step_ops[mi].append(["datac", rng.choice(["gamma", "delta"]), dim, labels, [rng.randrange(0, 99) for _ in range(ln)]])
            if force.get("scene_each") and mi == 0:
                step_ops[mi].append(["scene", 3 + i, wl])
            if rng.random() < 0.15:
                step_ops[mi].append(["data", rng.choice(["alpha", "beta"]) + (str(i) if rng.random() < 0.5 else ""), [rng.randrange(0, 99) for _ in range(3)]])
        plan.append(step_ops)
    return {
        "rows": rows, "cols": cols, "detector": rng.choice(["CCD", "CMOS", "MKID"]), "times": times, "start": start, "nd": nd,
        "models": models, "plan": plan, "debug_layout_tree": rng.random() < 0.5,
        "second_run": rng.random() < 0.25,
        # an earlier run of the same exposure on the same detector object, with another (valid) start time
        "rerun_start": (times[0] - rng.randrange(1, 60) / 8.0) if (force.get("rerun") or rng.random() < 0.15) else None,
    }


def gen_last_history(rng, kind):
    """the two histories of DESIGN section 7 for the debug capture, in destructive mode"""
    c = gen_case(rng, {"nsteps": rng.choice([2, 3]), "nd": False})
    npix = c["rows"] * c["cols"]
    c["models"] = [["photon_collection", "first"], ["charge_collection", "second"]]
    vals = [rng.randrange(1, 900)] * npix
    plan = []
    for i in range(len(c["times"])):
        if kind == "rewrite-same":
            plan.append([[["set", "photon", "float64", vals]], [["add", "pixel", 3]]])
        else:  # reset-credit: the first model never touches pixel, the second fills it
            plan.append([[["set", "photon", "float64", [v + i for v in vals]]], [["add", "pixel", 5 + i]]])
    c["plan"] = plan
    c["second_run"] = False
    return c


def gen_scene_clash(rng):
    """a scene source and a multi-wavelength photon bucket on different wavelength grids"""
    c = gen_case(rng, {"nsteps": rng.choice([1, 2])})
    npix = c["rows"] * c["cols"]
    c["models"] = [["scene_generation", "sky"], ["photon_collection", "optics"]]
    wl = [500.0, 600.0]
    c["plan"] = [[[["scene", 7 + i, rng.choice([[500.0, 700.0], [400.0, 500.0, 600.0]])]],
                  [["set3d", "float64", wl, [rng.randrange(1, 90) for _ in range(2 * npix)]]]] for i in range(len(c["times"]))]
    c["second_run"] = False
    c["debug_layout_tree"] = True
    return c


# ------------------------------------------------------------------ implementation side
def pipeline_for(case):
    import pyx

    g: dict = {}
    for grp, name in case["models"]:
        g.setdefault(grp, []).append({"name": name, "func": "probes.c03_writer", "arguments": {"ident": f"{grp}/{name}"}})
    g.setdefault("data_processing", []).append({"name": "snap", "func": "probes.c03_snap"})
    return pyx.make_pipeline(g)


def flat_plan(case):
    return [ops for step_ops in case["plan"] for ops in step_ops]


def ints_of(a):
    import numpy as np

    a = np.asarray(a)
    if a.dtype.kind in "ui":
        return [int(v) for v in a.ravel().tolist()]
    if np.all(np.isnan(a.astype(np.float64))):
        return None
    return [int(v) if not math.isnan(v) else None for v in a.astype(np.float64).ravel().tolist()]


def num(v):
    v = float(v)
    return int(v) if v.is_integer() else v


def canon_result(res, rows, cols):
    """buckets of the returned DataTree in comparison form"""
    key = "/bucket" if "bucket" in res.children else "/"
    ds = (res["bucket"] if key == "/bucket" else res).to_dataset()
    out = {"layout": key, "times": [common.frac(float(v)) for v in ds["time"].to_numpy()] if "time" in ds else None,
           "y": [num(v) for v in ds["y"].to_numpy()] if "y" in ds.coords else None,
           "x": [num(v) for v in ds["x"].to_numpy()] if "x" in ds.coords else None, "vars": {}}
    for b in BUCKETS:
        if b not in ds:
            out["vars"][b] = None
            continue
        v = ds[b]
        slices = None
        if "time" in v.dims:
            arr = v.transpose("time", ...).to_numpy()
            slices = [ints_of(arr[i]) for i in range(arr.shape[0])]
        out["vars"][b] = {"dt": str(v.dtype), "dims": list(v.dims), "slices": slices,
                          "wl": [float(x) for x in ds["wavelength"].to_numpy()] if "wavelength" in v.dims else None}
    return out


def canon_intermediate(res):
    """[[step, group, model, {bucket: [dtype, vals]}] …] in tree order, or None"""
    if "intermediate" not in res.children:
        return None
    out = []
    it = res["intermediate"]
    for tkey in it.children:
        if not tkey.startswith("time_idx_"):
            out.append([tkey, "?", "?", {}])
            continue
        for g in it[tkey].children:
            for m in it[tkey][g].children:
                node = it[tkey][g][m].to_dataset()
                rec = {}
                for k, v in node.data_vars.items():
                    vals = ints_of(v.to_numpy())
                    if "wavelength" in v.dims:
                        vals = enc_wl([float(x) for x in v["wavelength"].to_numpy()], vals)
                    rec[str(k)] = [str(v.dtype), vals]
                out.append([int(tkey[len("time_idx_"):]), g, m, rec])
    return out


def tree_same(got, want) -> bool:
    """same nodes, and node by node identical own (not inherited) variables, coordinates and attributes"""
    empty = lambda t: t is None or (t.is_empty and not t.children)  # noqa: E731
    if empty(got) or empty(want):
        return empty(got) and empty(want)
    gp = {n.path: n for n in got.subtree}
    wp = {n.path: n for n in want.subtree}
    rel = lambda d, root: {("/" + p[len(root.path):].strip("/")): n for p, n in d.items()}  # noqa: E731
    gp, wp = rel(gp, got), rel(wp, want)
    if set(gp) != set(wp):
        return False
    return all(gp[k].to_dataset(inherit=False).identical(wp[k].to_dataset(inherit=False)) for k in gp)


def one_run(case, layout_tree, debug, det=None):
    import probes
    import pyx
    import pyxel

    probes.C03.update(calls=0, plan=flat_plan(case), writes=[], snaps=[])
    det = det or pyx.make_detector(case["detector"], case["rows"], case["cols"])
    res = pyxel.run_mode(
        mode=pyx.make_exposure(times=list(case["times"]), start_time=case["start"], non_destructive=case["nd"]),
        detector=det, pipeline=pipeline_for(case), debug=debug, with_inherited_coords=layout_tree,
    )
    snaps, writes = list(probes.C03["snaps"]), list(probes.C03["writes"])
    scene_ok = data_ok = True
    if snaps:
        scene_ok = tree_same(res["scene"] if "scene" in res.children else None, snaps[-1]["scene"])
        # … and the scene is what the models PRODUCED during the last readout: exactly the sources they added then, in order
        want_src = [probes.c03_source(op) for ops in case["plan"][-1] for op in ops if op[0] == "scene"]
        got_tree = res["scene"] if "scene" in res.children else None
        got_src = []
        if got_tree is not None and "list" in got_tree.children:
            lst = got_tree["list"]
            got_src = [lst[k].to_dataset(inherit=False) for k in sorted(lst.children, key=lambda x: int(x) if str(x).isdigit() else 10**9)]
        if len(want_src) <= 1:  # (with several sources per readout `Scene.add_source` reuses keys — outside this property)
            scene_ok = scene_ok and len(got_src) == len(want_src) and all(g.identical(w) for g, w in zip(got_src, want_src))
        data_ok = tree_same(res["data"] if "data" in res.children else None, snaps[-1]["data"])
    return {
        "result": canon_result(res, case["rows"], case["cols"]),
        "snaps": [{"buckets": s["buckets"], "abs": common.frac(s["abs"])} for s in snaps],
        "scene_empty": bool(snaps[-1]["scene"].is_empty and not snaps[-1]["scene"].children) if snaps else True,
        "writes": writes, "scene_ok": scene_ok, "data_ok": data_ok,
        "intermediate": canon_intermediate(res) if debug else None,
    }


def run_impl(case):
    import traceback

    import pyx

    def guarded(fn):
        try:
            return fn()
        except Exception as e:  # noqa: BLE001
            return {"error": common.err_kind(e), "msg": str(e)[:300], "tb": traceback.format_exc()[-600:]}

    def with_history(layout_tree, debug):
        """the run, preceded — when the case says so — by the SAME exposure with another start time on the same detector
        object (same times, same mode: only the start time differs between the two runs)"""
        det = None
        if case.get("rerun_start") is not None:
            det = pyx.make_detector(case["detector"], case["rows"], case["cols"])
            one_run(dict(case, start=case["rerun_start"]), layout_tree, debug, det)
        return one_run(case, layout_tree, debug, det)

    out = {"flat": guarded(lambda: with_history(False, False)), "tree": guarded(lambda: with_history(True, False))}

    def debug_run():
        det = None
        if case.get("rerun_start") is not None:
            return with_history(case["debug_layout_tree"], True)
        if case.get("second_run"):
            # an earlier debug run on the same detector (other schedule, same pipeline shape)
            det = pyx.make_detector(case["detector"], case["rows"], case["cols"])
            early = dict(case, times=[case["times"][0] + 0.25, case["times"][0] + 1.5], plan=[case["plan"][0]] * 2)
            one_run(early, False, True, det)
        return one_run(case, case["debug_layout_tree"], True, det)

    out["debug"] = guarded(debug_run)
    return out


def scene_in_last_step(case):
    return any(op[0] == "scene" for ops in case["plan"][-1] for op in ops)


# ------------------------------------------------------------------ the statement, on the implementation's output
def visible(buckets):
    """what a model 'holds' for the debug record: buckets with an array; charge only if not all zero"""
    out = {}
    for b, v in buckets.items():
        if v is None:
            continue
        if b == "charge" and not any(v["vals"]):
            continue
        out[b] = v
    return out


def enc_wl(wl, vals):
    """content of a multi-wavelength bucket as one integer list: [-(number of bins), labels ×8 …] ++ values — the
    wavelength grid is part of what the bucket holds (a cube put on another grid has changed)"""
    return [-len(wl)] + [int(round(w * 8)) for w in wl] + list(vals if vals is not None else [])


def enc_vals(v):
    return enc_wl(v["wl"], v["vals"]) if "wl" in v else v["vals"]


def changed_by(before, after):
    vb, va = visible(before), visible(after)
    return {b: v for b, v in va.items() if b not in vb or enc_vals(vb[b]) != enc_vals(v) or vb[b]["shape"] != v["shape"]}


def photon_by_label(v, held, i, npix):
    """the planes of readout i of a multi-wavelength result variable, looked up BY LABEL at the wavelengths the detector
    held in that step -> (flattened values or None, problem text or None).  Labels the step did not hold must be NaN."""
    if v["slices"] is None or i >= len(v["slices"]):
        return None, f"the result has no slice for readout {i}"
    sl = v["slices"][i]
    labels = v["wl"]
    if sl is None or len(sl) != len(labels) * npix:
        return None, f"slice of readout {i} has {None if sl is None else len(sl)} values for {len(labels)} wavelength labels"
    out = []
    for w in held["wl"]:
        if w not in labels:
            return None, f"readout {i}: the detector held photons at {w} nm, the result has no such wavelength label (labels {labels})"
        j = labels.index(w)
        out.extend(sl[j * npix:(j + 1) * npix])
    for j, w in enumerate(labels):
        if w not in held["wl"] and any(x is not None for x in sl[j * npix:(j + 1) * npix]):
            return None, f"readout {i}: the result reports photons at {w} nm where the detector held none (its grid was {held['wl']})"
    return out, None


def check_record(case, run, tag):
    """the record clauses of the statement on one run"""
    res, snaps = run["result"], run["snaps"]
    n = len(case["times"])
    if len(snaps) != n:
        return ("C03:steps", f"{tag}: {len(snaps)} end-of-step snapshots for {n} readouts")
    want_times = [common.frac(case["start"] + t) for t in case["times"]]
    if res["times"] != want_times or [s["abs"] for s in snaps] != want_times:
        return ("C03:labels", f"{tag}: time labels {res['times']} but absolute times {want_times}")
    for b in BUCKETS:
        if not all(s["buckets"][b] is not None for s in snaps):
            continue  # not initialised in every step: outside the statement
        v = res["vars"][b]
        exp = [s["buckets"][b] for s in snaps]
        if v is None or v["slices"] is None or len(v["slices"]) != n:
            return ("C03:one-slice-per-readout", f"{tag}: bucket {b} has {None if v is None or v['slices'] is None else len(v['slices'])} slices for {n} readouts")
        three_d = "wl" in exp[0]
        want_dims = ["time", "wavelength", "y", "x"] if three_d else ["time", "y", "x"]
        if v["dims"] != want_dims:
            return ("C03:indices", f"{tag}: bucket {b} has dimensions {v['dims']}, expected {want_dims}")
        if res["y"] != list(range(case["rows"])) or res["x"] != list(range(case["cols"])):
            return ("C03:indices", f"{tag}: row/column indices {res['y']} / {res['x']}")
        if three_d and v["wl"] != sorted({w for e in exp for w in e["wl"]}):
            return ("C03:wavelength-labels", f"{tag}: wavelength labels {v['wl']}, the detector held the grids {[e['wl'] for e in exp]}")
        for i in range(n):
            if three_d:
                got_i, problem = photon_by_label(v, exp[i], i, case["rows"] * case["cols"])
                if problem:
                    return ("C03:wavelength-labels", f"{tag}: {problem}")
            else:
                got_i = v["slices"][i]
            if got_i != exp[i]["vals"]:
                v = dict(v, slices={**dict(enumerate(v["slices"])), i: got_i})
                k = next((j for j, (a, c) in enumerate(zip(v["slices"][i] or [], exp[i]["vals"])) if a != c), 0)
                big = b == "image" and any(x > 2**53 for x in exp[i]["vals"])
                return ("C03:image-values-above-2^53" if big else "C03:slice-values",
                        f"{tag}: bucket {b}, readout {i}: result holds {(v['slices'][i] or [None])[k]} where the detector held {exp[i]['vals'][k]} "
                        f"(dtype {exp[i]['dtype']}, {n} readouts)")
        if b == "image" and (v["dt"] != exp[-1]["dtype"] or not v["dt"].startswith("uint")):
            return ("C03:image-dtype", f"{tag}: image dtype {v['dt']} in the result, detector held {exp[-1]['dtype']}")
    if not run["scene_ok"]:
        return ("C03:scene", f"{tag}: /scene of the result differs from the scene the models produced")
    if not run["data_ok"]:
        return ("C03:data", f"{tag}: /data of the result differs from the processed data the models produced")
    return None


def property_predicate(case, impl):
    for tag in ("flat", "tree", "debug"):
        if "error" in impl[tag]:
            flat_like = tag == "flat" or (tag == "debug" and not case["debug_layout_tree"])
            if flat_like and scene_in_last_step(case) and "not aligned with its parents" in impl[tag]["msg"]:
                return ("C03:flat-layout-fails-with-scene",
                        f"{tag}: the models produced a scene and a multi-wavelength photon bucket on different wavelength grids; the "
                        f"flat layout raises {impl[tag]['error']} instead of returning the result: {impl[tag]['msg'][:120]}")
            if flat_like and "/intermediate/" in impl[tag]["msg"] and "not aligned with its parents" in impl[tag]["msg"]:
                return ("C03:flat-layout-fails-with-debug-record-on-other-grid",
                        f"{tag}: a debug record holds a multi-wavelength photon on a wavelength grid that differs from the buckets' "
                        f"(the grid changes from readout to readout); the flat layout raises {impl[tag]['error']} instead of returning "
                        f"the result: {impl[tag]['msg'][:100]}")
            if tag == "debug" and "could not be broadcast together" in impl[tag]["msg"] and "error" not in impl["flat"]:
                return ("C03:debug-fails-when-number-of-wavelength-bins-changes",
                        "a model replaced the multi-wavelength photon cube by one with another number of wavelength bins: the run "
                        f"without debug returns its result, with debug=True the run raises {impl[tag]['error']}: {impl[tag]['msg'][:120]}")
            return ("C03:run-failed", f"{tag}: exposure of writer probes failed: {impl[tag]['error']} {impl[tag]['msg']}")
    for tag in ("flat", "tree", "debug"):
        why = check_record(case, impl[tag], tag)
        if why:
            return why
    flat, tree, dbg = impl["flat"], impl["tree"], impl["debug"]
    labelled_data = any(op[0] == "datac" for so in case["plan"] for ops in so for op in ops)  # then the flat layout cannot hold /data
    if tree["result"]["layout"] != "/bucket" or (flat["result"]["layout"] != "/" and flat["scene_empty"] and not labelled_data):
        return ("C03:layouts", f"layout keys: flat run under {flat['result']['layout']}, hierarchical run under {tree['result']['layout']}")
    strip = lambda r: {k: v for k, v in r.items() if k != "layout"}  # noqa: E731
    if strip(flat["result"]) != strip(tree["result"]):
        return ("C03:layouts", "flat and hierarchical layouts carry different values")
    if strip(dbg["result"]) != strip(flat["result"]) or dbg["snaps"] != flat["snaps"]:
        if any(op[0] == "cl_remove_all" for so in case["plan"] for ops in so for op in ops):
            bad = [b for b in BUCKETS if strip(dbg["result"])["vars"][b] != strip(flat["result"])["vars"][b]]
            return ("C03:debug-alters:charge-after-removing-all-clusters",
                    f"a model removed every charge cluster; without debug the result's {bad} hold no charge from them, with debug=True "
                    "they still hold the removed clusters' charge (the debug snapshot read `Charge.array`, which stores the conversion)")
        return ("C03:debug-alters", "the buckets of the debug run differ from those of the run without debug")
    # debug records: one node per executed writer, holding exactly the buckets this model changed
    inter = dbg["intermediate"]
    if inter is None:
        return ("C03:debug-missing", "debug run returned no /intermediate")
    nodes = {(s, g, m): v for s, g, m, v in inter}
    n_first = {}
    for w in dbg["writes"]:
        g, m = w["ident"].split("/")
        key = (w["step"], g, m)
        first = w["step"] not in n_first
        n_first.setdefault(w["step"], key)
        want = {b: enc_vals(v) for b, v in changed_by(w["before"], w["after"]).items()}
        got = nodes.get(key)
        if got is None:
            return ("C03:debug-node-missing", f"no debug node for step {w['step']} {g}/{m}")
        got = {b: v[1] for b, v in got.items()}  # names and values (the statement does not speak of dtypes here)
        if got != want and set(got) == set(want):
            b = next(k for k in want if got[k] != want[k])
            return ("C03:debug-record-values",
                    f"step {w['step']} {g}/{m}: the debug record of bucket {b} holds {(got[b] or [None])[:4]} but the bucket held {(want[b] or [None])[:4]} right "
                    f"after this model (the stored array follows later in-place writes)")
        bp, ap = w["before"].get("photon"), w["after"].get("photon")
        if (set(want) - set(got) == {"photon"} and bp and ap and "wl" in bp and "wl" in ap and bp["wl"] != ap["wl"]
                and bp["vals"] == ap["vals"]):
            return ("C03:debug-changed:grid-relabelled",
                    f"step {w['step']} {g}/{m}: this model moved the photon cube from the wavelength grid {bp['wl']} to {ap['wl']} "
                    f"(same values): debug recorded {sorted(got)}, no 'photon'")
        if got != want:
            cls = "first-model-of-later-step" if (first and w["step"] > 0) else "model"
            return (f"C03:debug-changed:{cls}",
                    f"step {w['step']} {g}/{m}: debug recorded {sorted(got)} but this model changed {sorted(want)} "
                    f"(before: {sorted(visible(w['before']))}, {'non-' if case['nd'] else ''}destructive)")
    extra = [k for k in nodes if k[2] != "snap" and k not in {(w["step"],) + tuple(w["ident"].split("/")) for w in dbg["writes"]}]
    if extra:
        return ("C03:debug-extra-node", f"debug nodes of models that did not run in this exposure: {extra[:3]}")
    return None


# ------------------------------------------------------------------ Lean side
def lean_snap(buckets):
    return {b: (None if v is None else ["float64" if "wl" in v else v["dtype"], enc_vals(v)]) for b, v in buckets.items()}


def lean_request(case):
    steps = []
    for i, step_ops in enumerate(case["plan"]):
        ms = []
        for (g, name), ops in zip(case["models"], step_ops):
            lops = []
            for op in ops:
                if op[0] == "set":
                    lops.append(["set", op[1], op[2], op[3]])
                elif op[0] == "set3d":
                    # `Photon.to_xarray()` shows a 3-D array through `astype(None)`, i.e. as float64, in the result
                    # and in the debug record alike: the model tracks the dtype that `to_xarray` exposes
                    lops.append(["set", "photon", "float64", enc_wl(op[2], op[3])])
                elif op[0] in ("add", "same", "collect"):
                    lops.append(op)
                elif op[0] == "zero":
                    lops.append(["scale", op[1], 0])
                elif op[0] == "cl_remove_all":
                    lops.append(["scale", "charge", 0])
                elif op[0] == "clusters":
                    lops.append(["addat", "charge", adds_of(op[2], case["rows"], case["cols"])])
                elif op[0] == "cl_scale":
                    lops.append(["scale", "charge", op[1]])
                elif op[0] == "cl_move":
                    lops.append(["moveto", "charge", move_idx(op[1], op[2], case["rows"], case["cols"])])
                elif op[0] == "cl_remove":
                    lops.append(["zeroat", "charge", op[1]])
            ms.append({"group": g, "name": name, "ops": lops})
        ms.append({"group": "data_processing", "name": "snap", "ops": []})
        steps.append(ms)
    order = {g: i for i, g in enumerate(GROUPS + ["data_processing"])}
    for ms in steps:
        assert [order[m["group"]] for m in ms] == sorted(order[m["group"]] for m in ms)
    return {"op": "run", "npix": case["rows"] * case["cols"], "nd": case["nd"],
            "abs": [common.frac(case["start"] + t) for t in case["times"]],
            "prior": {b: None for b in BUCKETS}, "steps": steps, "scene_empty": not scene_in_last_step(case),
            "debug_tree": bool(case["debug_layout_tree"]),
            "clash_flat": any(op[0] == "datac" for so in case["plan"] for ops in so for op in ops),
            "clash_debug": grids_change(case) or any(op[0] == "datac" for so in case["plan"] for ops in so for op in ops)}


def grids_change(case):
    """does a multi-wavelength photon bucket change its wavelength grid between readouts?  (then a debug record lives on
    another grid than the buckets of the result, whose wavelength axis is the union)"""
    grids = {tuple(op[2]) for so in case["plan"] for ops in so for op in ops if op[0] == "set3d"}
    return len(grids) > 1


def case_first_grid(case):
    for so in case["plan"]:
        for ops in so:
            for op in ops:
                if op[0] == "set3d":
                    return op[2]
    return None


def compare_with_model(ck, case, impl, ans):
    if any("error" in impl[t] for t in ("flat", "tree", "debug")):
        ck.disagreement("run-failed", case, {t: impl[t].get("error") for t in impl}, "ok")
        return
    flat, dbg = impl["flat"], impl["debug"]
    layouts = [impl["flat"]["result"]["layout"], impl["tree"]["result"]["layout"], impl["debug"]["result"]["layout"]]
    if layouts != ans["layout"]:
        ck.disagreement("layout", case, layouts, ans["layout"])
    mine = [lean_snap(s["buckets"]) for s in flat["snaps"]]
    if mine != ans["snaps"] or ans["snaps"] != ans["snaps_plain"]:
        ck.disagreement("states", case, mine[:2], ans["snaps"][:2])
        return
    rec = ans["record"]
    got = {"times": flat["result"]["times"],
           "vars": {b: (None if v is None else {"dt": v["dt"], "slices": v["slices"]}) for b, v in flat["result"]["vars"].items()}}
    ph = flat["result"]["vars"]["photon"]
    if ph is not None and ph.get("wl") and all(s["buckets"]["photon"] is not None for s in flat["snaps"]):
        # multi-wavelength photons: the model has no wavelength axis; readout i is compared at the labels held in step i
        got["vars"]["photon"]["slices"] = [
            enc_wl(s["buckets"]["photon"]["wl"], photon_by_label(ph, s["buckets"]["photon"], i, case["rows"] * case["cols"])[0])
            for i, s in enumerate(flat["snaps"])]
    # buckets initialised in every step or in none are compared (dtype and slices); the model's record is only
    # claimed for these (partial presence is outside the statement and outside the comparison)
    uniform = [b for b in BUCKETS if len({s["buckets"][b] is None for s in flat["snaps"]}) == 1]
    if got["times"] != rec["times"] or any(got["vars"][b] != rec["vars"][b] for b in uniform):
        ck.disagreement("record", case, {b: got["vars"][b] for b in uniform}, {b: rec["vars"][b] for b in uniform})
    want = [[s, g, m, {b: [dt, vals] for b, dt, vals in vars_}] for s, g, m, vars_ in ans["debug"]]
    if dbg["intermediate"] != want:
        ck.disagreement("debug", case, dbg["intermediate"], want)


def body(ck: common.Check):
    ck.obligations(["PyxelModel.Props.C03"], ["PyxelModel.Drive.C03"])
    rng = ck.rng
    k = 2 if ck.tier == "quick" else 25
    cases = []
    for _ in range(90 if ck.tier == "quick" else 70 * k):
        cases.append(("random", gen_case(rng)))
    # schedule lengths around powers of two / typical block sizes (one writer, tiny detector)
    for n in ([16, 17, 33, 65] if ck.tier == "quick" else [15, 16, 17, 18, 31, 32, 33, 34, 63, 64, 65, 100, 129]):
        cases.append(("long-schedules", gen_case(rng, {"nsteps": n, "single_model": True})))
    for _ in range(5 * k):
        cases.append(("scene-each-readout", gen_case(rng, {"scene_each": True, "nd": True, "nsteps": rng.choice([2, 3, 4])})))
    for _ in range(6 * k):
        cases.append(("labelled-data", gen_case(rng, {"datac": True, "nsteps": rng.choice([1, 2, 3])})))
    for _ in range(6 * k):
        cases.append(("rerun-other-start", gen_case(rng, {"rerun": True, "nsteps": rng.choice([1, 2, 3])})))
    for _ in range(6 * k):
        cases.append(("regrid", gen_case(rng, {"photon3d": True, "regrid": True, "nsteps": rng.choice([1, 2, 3])})))
    for dt in UINTS:
        for _ in range(3 * k):
            cases.append(("image-dtypes", gen_case(rng, {"image": dt, "big": dt == "uint64", "nsteps": rng.choice([2, 3])})))
    for kind in ("rewrite-same", "reset-credit"):
        for _ in range(4 * k):
            cases.append(("last-history", gen_last_history(rng, kind)))
    for _ in range(4 * k):
        cases.append(("scene-clash", gen_scene_clash(rng)))
    for _ in range(8 * k):
        cases.append(("charge-clusters", gen_case(rng, {"clusters": True, "nsteps": rng.choice([1, 2, 3])})))
    for _ in range(10 * k):
        cases.append(("wavelength-grids", gen_case(rng, {"photon3d": True, "wl_shift": True, "nsteps": rng.choice([2, 3, 4])})))
    for _ in range(12 * k):
        cases.append(("zeroing", gen_case(rng, {"zeroing": True, "nsteps": rng.choice([1, 2, 3])})))
    for _ in range(10 * k):
        cases.append(("own-yx-labels", gen_case(rng, {"photon3d": True, "own_yx": True, "image": rng.choice(UINTS), "nsteps": rng.choice([1, 1, 2, 3])})))
    impls = pool_map(run_impl, [c for _, c in cases])
    answers = LeanDriver("C03").batch([lean_request(c) for _, c in cases])
    for (stream, case), impl, ans in zip(cases, impls, answers):
        if "bad" in ans:
            raise common.InfraError(f"driver rejected request: {ans}")
        ck.case(case, nontrivial=len(case["times"]) >= 2, stream=stream)
        ck.count(f"steps={len(case['times'])}")
        ck.count("nd" if case["nd"] else "destructive")
        ck.count(f"models={len(case['models'])}")
        ops = [op for so in case["plan"] for ops_ in so for op in ops_]
        for op in ops:
            if op[0] == "set":
                ck.count(f"dtype:{op[1]}={op[2]}")
            elif op[0] == "set3d":
                ck.count("photon=3d")
                ck.count("photon-3d-grid=" + ("first" if op[2] == case_first_grid(case) else "other"))
                ck.count("photon-3d-own-yx-labels", int(len(op) > 4 and bool(op[4])))
            elif op[0] == "zero":
                ck.count("zeroed=" + op[1])
            elif op[0] in ("clusters", "cl_scale", "cl_move", "cl_remove", "cl_remove_all", "collect"):
                ck.count("charge-op=" + op[0] + (":" + op[1] if op[0] == "clusters" else ""))
        ck.count("scene-written", int(any(op[0] == "scene" for op in ops)))
        ck.count("data-written", int(any(op[0] == "data" for op in ops)))
        ck.count("labelled-data-written", int(any(op[0] == "datac" for op in ops)))
        ck.count("second-run-on-same-detector", int(bool(case.get("second_run"))))
        ck.count("rerun-with-other-start-time", int(case.get("rerun_start") is not None))
        try:
            why = property_predicate(case, impl)
        except Exception as e:  # noqa: BLE001  — a result so far from the expected shape that the statement cannot be evaluated on it
            why = ("C03:result-not-interpretable", f"the returned result cannot be read as a record of the run: {type(e).__name__} {e}")
        if why is not None:
            small = {t: ({"error": impl[t]["error"], "msg": impl[t]["msg"]} if "error" in impl[t] else
                         {"result": impl[t]["result"], "nodes": impl[t]["intermediate"]}) for t in ("flat", "tree", "debug")}
            ck.violation(why[0], why[1], {"case": case, "impl": small})
        try:
            compare_with_model(ck, case, impl, ans)
        except Exception as e:  # noqa: BLE001
            ck.disagreement("uninterpretable", case, f"{type(e).__name__} {e}", None)
    ck.rule = ("pipelines of 1-8 writer probes over 1-4 groups + a snapshot probe last; 1-6 readouts (and 16, 17, 33, 65 …), start time ≠ 0, both modes; "
               "buckets initialised in every step or in none, by a fixed owner model: photon 2-D/3-D (2-3 wavelengths) float16/32/64, "
               "signal float16/32/64, image uint8/16/32/64 (uint64 also with values above 2^53), charge (as array or as clusters put in "
               "with add_charge / add_charge_dataframe, then rescaled or moved with set_frame_values, removed with remove_from_frame (one pixel's clusters, or all of them), "
               "mixed with array additions and collected into pixel by later models), pixel; constant or "
               "step-dependent integer values; later models add in place, rewrite the same content or set a non-zero bucket to exactly 0; scene sources and processed "
               "data written at random; three runs per case (flat, hierarchical, debug), a quarter of the debug runs on a detector "
               "that already served an earlier debug run; directed histories for the debug snapshot `last`")
    ck.assumptions = [
        "'the buckets that this model changed' (DESIGN 6b): integer-valued writes; changed = holds an array after the model (charge: not all zero) that it did not hold with these values just before the model ran",
        "'for every bucket that a model initialised': buckets initialised in all steps or in none (DESIGN 6b)",
        "the image dtype is constant over the steps of one exposure",
    ]
    ck.trusted_base.append("C03: xarray `concat`/`expand_dims`/`DataTree.from_dict` modelled by contract (concatenation along time in step "
                           "order, values and dtype untouched for equal dtypes); exercised on every generated case")


def pool_map(fn, items):
    import multiprocessing as mp
    import os

    if len(items) < 8:
        return [fn(x) for x in items]
    ctx = mp.get_context("fork")
    with ctx.Pool(min(12, os.cpu_count() or 4)) as pool:
        return pool.map(fn, items, chunksize=2)


if __name__ == "__main__":
    if len(sys.argv) > 2 and sys.argv[1] == "--replay":
        common.ensure_repo_on_path()
        rp = json.load(open(sys.argv[2]))
        case = rp["replay"].get("case")
        if case is None or "plan" not in case:
            print("replay names a broken obligation/correspondence, no concrete input:", rp["what"])
            sys.exit(1)
        impl = run_impl(case)
        why = property_predicate(case, impl)
        print("REPRODUCED: " + why[0] + " — " + why[1] if why else "not reproduced (property holds on this input)")
        sys.exit(1 if why else 0)
    sys.exit(run_check("C03", body))
