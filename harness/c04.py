"""C04 — seeded runs are bit-reproducible and seeding never leaks.

obligations : Props/C04.lean (discipline for every program / generator, tables from today's source)
              Props/C04Threads.lean (with the lock: every schedule of every number of threads)
tie to code : Generated/C04.lean (ast: guarded draws per seeded model, global seed calls, seed plumbing
              of every mode, shape of set_random_seed) +
              stream `discipline`: random programs run on the REAL set_random_seed / numpy generator vs the
                                   Lean model on a symbolic generator;
              stream `models`    : every model function with a seed parameter, twice from different prior states;
              stream `modes`     : exposure / sequential + threaded observation / calibration, twice;
              stream `threads`   : overlapping seeded regions in real threads.
"""

from __future__ import annotations

import hashlib
import json
import os
import shutil
import sys
import tempfile
import threading

import common
from common import LeanDriver, run_check

SEEDS = [0, 1, 2, 7, 42, 12345, 2**31 - 1, 2**32 - 1]
NDRAW = 64  # reference stream length per seed


# ------------------------------------------------------------------ stream: discipline
def gen_prog(rng, depth=0):
    r = rng.random()
    if depth > 4 or r < 0.25:
        return rng.choice(["draw", "draw", "skip", "fail"] if rng.random() < 0.3 else ["draw", "draw", "skip"])
    if r < 0.6:
        return ["seq", gen_prog(rng, depth + 1), gen_prog(rng, depth + 1)]
    return ["seeded", rng.choice(SEEDS + [None, None]), gen_prog(rng, depth + 1)]


def prime(prior: int) -> None:
    """put the process-wide generator into a prior state determined by `prior`; odd priors leave a
    pending Box-Muller variate (has_gauss = 1), which a sloppy save/restore would lose"""
    import numpy as np

    np.random.seed(prior)
    np.random.random(prior % 5)
    if prior % 2 == 1:
        np.random.normal()


def full_state_key() -> bytes:
    import numpy as np

    st = np.random.get_state()
    return st[1].tobytes() + repr((st[0], int(st[2]), int(st[3]), float(st[4]).hex())).encode()


class _Fail(Exception):
    pass


def run_prog_impl(prog, prior_seed, runs=None):
    """execute on the real generator; returns canonical (g, out, failed) in the symbolic vocabulary"""
    import numpy as np
    from pyxel.util import set_random_seed

    ref = {}
    for s in SEEDS:
        np.random.seed(s)
        ref[s] = [np.random.random() for _ in range(NDRAW)]
    prime(prior_seed)
    st0 = np.random.get_state()
    ref[None] = [np.random.random() for _ in range(NDRAW)]
    # states of the caller's generator after n draws (the FULL legacy state: key, position, and the
    # pending Box-Muller variate `has_gauss` / `cached_gaussian`)
    states = []
    np.random.set_state(st0)
    for _ in range(NDRAW):
        states.append(full_state_key())
        np.random.random()
    lookup = {}
    for o, vals in ref.items():
        for k, v in enumerate(vals):
            lookup.setdefault(v.hex(), []).append((o, k))
    np.random.set_state(st0)
    out = []

    def ex(p):
        if p == "skip":
            return
        if p == "draw":
            out.append(np.random.random())
            return
        if p == "fail":
            raise _Fail("boom")
        if p[0] == "seq":
            ex(p[1])
            ex(p[2])
            return
        if p[0] == "seeded":
            with set_random_seed(p[1]):
                ex(p[2])
            return
        raise ValueError(p)

    failed = False
    if runs is None:
        try:
            ex(prog)
        except _Fail:
            failed = True
        outs = None
    else:
        # several runs one after the other (an observation's sequential path): stop at the first run that fails
        outs = []
        for r in runs:
            del out[:]
            try:
                ex(r)
            except _Fail:
                failed = True
            outs.append([v.hex() for v in out])
            if failed:
                break
    key = full_state_key()
    g = [None, states.index(key)] if key in states else ["?", -1]
    return {"g": g, "out_vals": [v.hex() for v in out], "outs": outs, "failed": failed, "lookup": lookup}


def match_out(model_out, impl):
    """does the sequence of real values equal the symbolic sequence the model predicts?"""
    if len(model_out) != len(impl["out_vals"]):
        return False
    for (o, k), v in zip(model_out, impl["out_vals"]):
        if (o, k) not in impl["lookup"].get(v, []):
            return False
    return True


# ------------------------------------------------------------------ stream: models
def fixtures():
    """(label, detector kind, prepare(detector), dotted function, kwargs) for seeded model functions"""
    import numpy as np

    def photon(d):
        d.photon.array = np.full(d.geometry.shape, 50.0)

    def charge(d):
        d.charge.add_charge_array(np.full(d.geometry.shape, 80.0))

    def pixel(d):
        d.pixel.array = np.full(d.geometry.shape, 120.0)

    def signal(d):
        d.signal.array = np.full(d.geometry.shape, 0.5)

    def nothing(d):
        pass

    def huge_photon(d):
        d.photon.array = np.full(d.geometry.shape, 1.0e19)

    def pixel_ramp(d):
        # nghxrg normalises its bias pattern by the spread of the pixel array itself: a flat array gives NaN everywhere
        r, c = d.geometry.shape
        d.pixel.array = 100.0 + (np.arange(r * c, dtype=float).reshape(r, c) * 7.0) % 53.0

    cg, cm, pc, cc = "pyxel.models.charge_generation.", "pyxel.models.charge_measurement.", "pyxel.models.photon_collection.", "pyxel.models.charge_collection."
    return [
        ("shot_noise/poisson", "CCD", photon, pc + "shot_noise", {"type": "poisson"}),
        ("shot_noise/normal", "CMOS", photon, pc + "shot_noise", {"type": "normal"}),
        ("simple_conversion", "CCD", photon, cg + "simple_conversion", {"quantum_efficiency": 0.7, "binomial_sampling": True}),
        ("simple_dark_current", "CCD", nothing, cg + "simple_dark_current", {"dark_rate": 20.0}),
        ("dark_current", "CCD", nothing, cg + "dark_current", {"_temperature": 300.0, "figure_of_merit": 1.0, "spatial_noise_factor": 0.1, "band_gap": 1.12, "band_gap_room_temperature": 1.12, "temporal_noise": True}),
        ("dark_current_rule07", "CMOS", nothing, cg + "dark_current_rule07", {"cutoff_wavelength": 2.5, "spatial_noise_factor": 0.1, "temporal_noise": True}),
        # every combination of the options that switch a draw on or off: each draw of each combination must be seeded
        ("dark_current/spatial-only", "CCD", nothing, cg + "dark_current", {"_temperature": 300.0, "figure_of_merit": 1.0, "spatial_noise_factor": 0.1, "band_gap": 1.12, "band_gap_room_temperature": 1.12, "temporal_noise": False}),
        ("dark_current/temporal-only", "CCD", nothing, cg + "dark_current", {"_temperature": 300.0, "figure_of_merit": 1.0, "band_gap": 1.12, "band_gap_room_temperature": 1.12, "temporal_noise": True}),
        ("dark_current_rule07/spatial-only", "CMOS", nothing, cg + "dark_current_rule07", {"cutoff_wavelength": 2.5, "spatial_noise_factor": 0.1, "temporal_noise": False}),
        ("dark_current_rule07/temporal-only", "CMOS", nothing, cg + "dark_current_rule07", {"cutoff_wavelength": 2.5, "temporal_noise": True}),
        ("radiation_induced_dark_current/no-shot-noise", "CCD", nothing, cg + "radiation_induced_dark_current", {"_temperature": 300.0, "depletion_volume": 64.0, "annealing_time": 0.1, "displacement_dose": 50.0, "shot_noise": False}),
        ("simple_conversion/no-sampling", "CCD", photon, cg + "simple_conversion", {"quantum_efficiency": 0.7, "binomial_sampling": False}),
        ("dark_current_saphira", "APD", nothing, cg + "dark_current_saphira", {"_temperature": 60.0}),
        ("radiation_induced_dark_current", "CCD", nothing, cg + "radiation_induced_dark_current", {"_temperature": 300.0, "depletion_volume": 64.0, "annealing_time": 0.1, "displacement_dose": 50.0, "shot_noise": True}),
        ("fixed_pattern_noise", "CCD", pixel, cc + "fixed_pattern_noise", {"fixed_pattern_noise_factor": 0.05}),
        ("output_node_noise", "CCD", signal, cm + "output_node_noise", {"std_deviation": 0.01}),
        ("output_node_noise_cmos", "CMOS", signal, cm + "output_node_noise_cmos", {"readout_noise": 0.01, "readout_noise_std": 0.001}),
        ("readout_noise_saphira", "APD", signal, cm + "readout_noise_saphira", {"roic_readout_noise": 0.01, "controller_noise": 0.001}),
        ("ktc_noise", "CCD", signal, cm + "ktc_noise", {"node_capacitance": 30e-15}),
        # flux above numpy's Poisson limit: the model raises on the unchanged tree (recorded as a fixture error);
        # a fallback that draws outside the seeded region would make it "work" and is then judged like any other model
        ("shot_noise/poisson-huge-flux", "CCD", huge_photon, pc + "shot_noise", {"type": "poisson"}),
        # later sample of a multi-readout schedule: the kTC branch of nghxrg only draws when int(time / time_step) > 1
        ("nghxrg/ktc-later-readout", "CMOS", pixel_ramp, cm + "nghxrg",
         {"_shape": (16, 16), "_times": [1.0, 2.0, 3.0], "_step_index": 2, "n_output": 1, "reference_pixel_border_width": 0,
          "noise": [{"ktc_bias_noise": {"ktc_noise": 10.0, "bias_offset": 20.0, "bias_amp": 2.0}}, {"white_read_noise": {"rd_noise": 5.0, "ref_pixel_noise_ratio": 0.8}}]}),
        ("charge_deposition", "CCD", nothing, cg + "charge_deposition", {"flux": 100.0, "step_size": 1.0, "energy_mean": 1.0, "energy_spread": 0.1, "stopping_power_curve": str(common.REPO / "pyxel/models/charge_generation/data/protons-in-silicon_stopping-power.csv")}),
    ]


def snapshot(det) -> str:
    import numpy as np
    import probes

    h = hashlib.sha256()
    for name in ("photon", "pixel", "signal", "image"):
        a = probes.held_array(probes.container(det, name))
        h.update(name.encode())
        if a is not None:
            h.update(np.ascontiguousarray(a).tobytes())
    h.update(np.ascontiguousarray(det.charge.array).tobytes())
    try:
        fr = det.charge.frame
        h.update(fr.to_numpy().tobytes())
    except Exception:
        pass
    return h.hexdigest()


def gstate():
    import numpy as np

    return hashlib.sha256(full_state_key()).hexdigest()


def run_model_fixture(fx, seed, prior, fault_before=False, warmup_seed=None):
    """-> dict(out hash, state_restored, error); with warmup_seed the same detector object first serves a call with
    that other seed and is then emptied and re-prepared (state a model keeps on the detector must not matter)"""
    import numpy as np
    import pyx
    from pyxel.evaluator import evaluate_reference

    label, kind, prep, dotted, kwargs = fx
    kwargs = dict(kwargs)
    temperature = kwargs.pop("_temperature", 150.0)
    rows, cols = kwargs.pop("_shape", (6, 5))
    times = kwargs.pop("_times", [1.0])
    step_index = kwargs.pop("_step_index", 0)
    det = pyx.make_detector(kind, rows, cols, environment={"temperature": temperature})
    det.set_readout(times=times, start_time=0.0, non_destructive=False)
    det.empty()
    det.time = float(times[step_index])
    det.time_step = float(times[step_index] - (times[step_index - 1] if step_index else 0.0))
    det.pipeline_count = step_index
    prep(det)
    func = evaluate_reference(dotted)
    if warmup_seed is not None:
        try:
            func(det, seed=warmup_seed, **kwargs)
        except Exception:  # noqa: BLE001
            pass
        det.empty()
        prep(det)
    prime(prior)
    if fault_before:
        np.random.random(17)
    before = gstate()
    err = None
    try:
        func(det, seed=seed, **kwargs)
    except Exception as e:  # noqa: BLE001
        err = f"{type(e).__name__}: {str(e)[:120]}"
    return {"out": snapshot(det), "restored": gstate() == before, "error": err}


# ------------------------------------------------------------------ stream: modes
def stochastic_pipeline(own_seed=None):
    import pyx

    g = {
        "photon_collection": [{"name": "f", "func": "probes.fill", "arguments": {"level": 30.0}},
                              {"name": "sn", "func": "pyxel.models.photon_collection.shot_noise", "arguments": {"type": "poisson", "seed": own_seed}}],
        "readout_electronics": [{"name": "n", "func": "probes.noisy_to_image", "arguments": {"scale": 2.0}}],
    }
    return pyx.make_pipeline(g)


def tree_hash(dt) -> str:
    import numpy as np

    h = hashlib.sha256()
    for node in dt.subtree:
        if node.path.startswith("/output"):
            continue
        ds = node.to_dataset()
        for name in sorted(ds.data_vars):
            h.update((node.path + ":" + name).encode())
            h.update(np.ascontiguousarray(np.asarray(ds[name].values)).tobytes())
    return h.hexdigest()


def run_mode_case(case, prior):
    """-> dict(hash, restored, error)"""
    import dask
    import numpy as np
    import pyx
    import xarray as xr
    from pyxel.observation import Observation, ParameterValues
    from pyxel.exposure import Readout

    td = tempfile.mkdtemp(prefix="c04-")
    try:
        det = pyx.make_detector("CCD", 4, 5)
        pipe = stochastic_pipeline(case.get("own_seed"))
        kind = case["mode"]
        prime(prior)
        before = gstate()
        err, hsh, hsh2 = None, None, None
        try:
            if kind == "exposure":
                mode = pyx.make_exposure(times=case["times"], non_destructive=case["nd"], pipeline_seed=case["pseed"])
                res = pyx.run(mode, det, pipe)
            elif kind == "observation":
                mode = Observation(
                    parameters=[ParameterValues(key="pipeline.photon_collection.f.arguments.level", values=case["levels"])],
                    readout=Readout(times=case["times"], non_destructive=case["nd"]),
                    pipeline_seed=case["pseed"], with_dask=case["dask"], mode="product",
                )
                if case["dask"]:
                    with dask.config.set(scheduler=case["scheduler"], num_workers=case["workers"]):
                        res = pyx.run(mode, det, pipe, with_inherited_coords=True)
                        res = res.load()
                else:
                    res = pyx.run(mode, det, pipe, with_inherited_coords=True)
            elif kind == "calibration":
                tf = os.path.join(td, "t.npy")
                np.save(tf, np.full((4, 5), 40.0))
                mode = pyx.make_calibration(
                    [tf], [{"key": "pipeline.photon_collection.f.arguments.level", "values": "_", "boundaries": (10.0, 100.0)},
                           {"key": "pipeline.readout_electronics.n.arguments.scale", "values": "_", "boundaries": (0.5, 4.0)}],
                    pipeline_seed=case["pseed"], pygmo_seed=case["gseed"], num_islands=case["islands"],
                    result_fit_range=(0, 4, 0, 5), target_fit_range=(0, 4, 0, 5), population_size=8, generations=2,
                )
                res = pyx.run(mode, det, pipe)
                # /simulated and /full_size are lazily re-simulated (C11's business); reproducibility of the
                # optimisation is judged on the champions and best individuals
                res = xr.DataTree.from_dict({"/champion": res["champion"].to_dataset().load(), "/best": res["best"].to_dataset().load()} if "best" in res.children else {"/champion": res["champion"].to_dataset().load()})
            elif kind == "deprecated-exposure":
                import pyxel

                mode = pyx.make_exposure(times=case["times"], non_destructive=case["nd"], pipeline_seed=case["pseed"])
                ds = pyxel.exposure_mode(mode, det, pipe)
                res = xr.DataTree.from_dict({"/r": ds.load()})
            elif kind == "deprecated-observation":
                import pyxel

                omode = case.get("omode", "product")
                if omode == "custom":
                    tbl = os.path.join(td, "table.txt")
                    with open(tbl, "w") as fh:
                        for lv in case["levels"]:
                            fh.write(f"{lv} {2.0}\n")
                    mode = Observation(
                        parameters=[ParameterValues(key="pipeline.photon_collection.f.arguments.level", values="_"),
                                    ParameterValues(key="pipeline.readout_electronics.n.arguments.scale", values="_")],
                        readout=Readout(times=case["times"], non_destructive=case["nd"]),
                        pipeline_seed=case["pseed"], with_dask=case["dask"], mode="custom", from_file=tbl, column_range=(0, 2),
                    )
                else:
                    pars = [ParameterValues(key="pipeline.photon_collection.f.arguments.level", values=case["levels"])]
                    if omode == "sequential":
                        pars.append(ParameterValues(key="pipeline.readout_electronics.n.arguments.scale", values=[1.0, 3.0]))
                    mode = Observation(parameters=pars, readout=Readout(times=case["times"], non_destructive=case["nd"]),
                                       pipeline_seed=case["pseed"], with_dask=case["dask"], mode=omode)
                r = pyxel.observation_mode(mode, det, pipe)
                dsets = r.dataset if isinstance(r.dataset, dict) else {"r": r.dataset}  # sequential mode: one dataset per parameter
                res = xr.DataTree.from_dict({"/" + str(k).replace("/", "_").replace(".", "_"): (v.load() if hasattr(v, "load") else v) for k, v in dsets.items()})
            elif kind == "deprecated-calibration":
                import pyxel
                from pyxel.calibration import Algorithm, Calibration
                from pyxel.calibration.fitness import sum_of_abs_residuals

                tf = os.path.join(td, "t.npy")
                np.save(tf, np.full((4, 5), 60.0))
                mode = Calibration(
                    target_data_path=[tf], fitness_function=sum_of_abs_residuals,
                    algorithm=Algorithm(type="sade", generations=2, population_size=8),
                    parameters=[ParameterValues(key="pipeline.photon_collection.f.arguments.level", values="_", boundaries=(10.0, 100.0))],
                    result_type="image", result_fit_range=(0, 4, 0, 5), target_fit_range=(0, 4, 0, 5),
                    pygmo_seed=case["gseed"], pipeline_seed=case["pseed"], num_islands=1, num_evolutions=1, readout=Readout(),
                )
                ds, _processors, _logs, _filenames = pyxel.calibration_mode(mode, det, pipe, compute_and_save=False)
                res = xr.DataTree.from_dict({"/champion": ds[["champion_fitness", "champion_decision", "champion_parameters"]].load()})
            else:
                raise ValueError(kind)
            hsh = tree_hash(res)
            if case.get("reuse") and kind == "exposure":
                # the SAME detector / pipeline / mode objects serve a second run ("whatever ran earlier in the process")
                restored_first = gstate() == before
                np.random.random(3)  # unrelated work in between (moves the caller's generator on purpose)
                before = gstate()
                hsh2 = tree_hash(pyx.run(mode, det, pipe))
                if not restored_first:
                    before = None  # report the first run's leak
        except Exception as e:  # noqa: BLE001
            err = f"{type(e).__name__}: {str(e)[:200]}"
        return {"hash": hsh, "hash_again": hsh2, "restored": gstate() == before, "error": err}
    finally:
        shutil.rmtree(td, ignore_errors=True)


def gen_mode_case(rng, tier):
    kind = rng.choice(["exposure", "exposure", "observation", "observation", "observation", "calibration"])
    c = {"mode": kind, "pseed": rng.choice(SEEDS[:6]), "times": rng.choice([[1.0], [1.0, 2.0], [0.5, 1.0, 3.0]]),
         "nd": rng.random() < 0.4, "own_seed": rng.choice([None, None, 11])}
    if kind == "observation":
        c["levels"] = rng.choice([[10.0, 20.0], [5.0, 15.0, 25.0, 35.0], [1.0, 2.0, 3.0, 4.0, 5.0, 6.0]])
        c["dask"] = rng.random() < 0.6
        c["scheduler"] = rng.choice(["threads", "threads", "synchronous"])
        c["workers"] = rng.choice([1, 2, 4, 8])
    if kind == "exposure":
        c["reuse"] = rng.random() < 0.6
    if kind == "calibration":
        c["gseed"] = rng.choice([0, 0, 1, 2, 3, 100000])  # 0 and 100000 are the legal boundary values
        c["islands"] = rng.choice([1, 2])
        c["times"] = [1.0]
    return c


# ------------------------------------------------------------------ stream: threads
def run_threads_case(case):
    """overlapping seeded regions in real threads -> each thread's draws + whether the state is restored"""
    import time

    import numpy as np
    from pyxel.util import set_random_seed

    ref = {}
    for s in set(case["seeds"]):
        np.random.seed(s)
        ref[s] = [np.random.random() for _ in range(case["draws"])]
    prime(case["prior"])
    before = gstate()
    outs = {}

    def region(i, s):
        with set_random_seed(s):
            a = []
            for _ in range(case["draws"]):
                a.append(np.random.random())
                time.sleep(0)
            outs[i] = a

    ts = [threading.Thread(target=region, args=(i, s)) for i, s in enumerate(case["seeds"])]
    for t in ts:
        t.start()
    for t in ts:
        t.join()
    wrong = [i for i, s in enumerate(case["seeds"]) if outs.get(i) != ref[s]]
    return {"wrong_threads": wrong, "restored": gstate() == before}


# ------------------------------------------------------------------ the check
def body(ck: common.Check):
    import extract

    extract.generate("C04")
    ck.obligations(["PyxelModel.Props.C04", "PyxelModel.Props.C04Threads", "PyxelModel.Props.C04Modes"], ["PyxelModel.Drive.C04"])
    rng = ck.rng
    quick = ck.tier == "quick"

    # ---- discipline
    progs = [gen_prog(rng) for _ in range(300 if quick else 4000)]
    progs += ["draw", ["seeded", 7, "draw"], ["seeded", 7, ["seq", "draw", "fail"]], ["seq", ["seeded", 42, ["seeded", None, "draw"]], "draw"],
              ["seeded", 1, ["seeded", 2, ["seq", "draw", ["seeded", 1, "draw"]]]]]
    answers = LeanDriver("C04").batch([{"prog": p} for p in progs])
    for p, ans in zip(progs, answers):
        if "bad" in ans:
            raise common.InfraError(f"driver: {ans}")
        prior = rng.randrange(1000)
        impl = run_prog_impl(p, prior)
        ndraw = json.dumps(p).count("draw")
        ck.case({"prog": p, "prior": prior}, nontrivial=("seeded" in json.dumps(p) and ndraw >= 1), stream="discipline")
        ck.count("discipline:guarded" if ans["guarded"] else "discipline:unguarded")
        if impl["failed"]:
            ck.count("discipline:failing")
        # the statement on the implementation: a guarded program restores the caller's state, and its draws
        # are those of its seeds (independent of the prior state)
        if ans["guarded"]:
            if impl["g"] != [None, 0]:
                ck.violation("C04:seeded-region-does-not-restore", "process-wide generator not restored after a seeded region",
                             {"case": {"stream": "discipline", "prog": p, "prior": prior}, "impl_state": impl["g"]})
            bad = [v for v in impl["out_vals"] if not any(o is not None for o, _ in impl["lookup"].get(v, []))]
            if bad:
                ck.violation("C04:seeded-draws-depend-on-prior-state", "draws inside a seeded region are not the seed's stream",
                             {"case": {"stream": "discipline", "prog": p, "prior": prior}})
        model_ok = (impl["g"] == ans["g"] and impl["failed"] == ans["failed"] and match_out([tuple(x) for x in ans["out"]], impl))
        if ans["guarded"] and impl["failed"] == ans["failed"] and not match_out([tuple(x) for x in ans["out"]], impl):
            # every seeded region must put the generator back in the state it had when the region was entered — also an
            # INNER region (model seed inside a pipeline seed): then each draw is the k-th value of the stream of the
            # innermost enclosing seed counted as the model counts it; a mismatch means some region did not restore
            want = [tuple(x) for x in ans["out"]]
            got = [impl["lookup"].get(v, [("?", -1)])[0] for v in impl["out_vals"]]
            ck.violation("C04:nested-seeded-region-not-restored",
                         f"draws of a fully seeded program are {got} but restoring at the exit of every seeded region gives {want}",
                         {"case": {"stream": "discipline", "prog": p, "prior": prior}, "expected": want, "got": got})
        if not model_ok:
            ck.disagreement("discipline", {"prog": p, "prior": prior}, {"g": impl["g"], "failed": impl["failed"], "n_out": len(impl["out_vals"])}, ans)

    # ---- runs: sequences of whole runs (what an observation / repeated exposures do to the generator), against execRuns
    seqs = []
    for _ in range(60 if quick else 800):
        n = rng.choice([1, 2, 3, 4, 6])
        runs = []
        for _k in range(n):
            body_ = gen_prog(rng, depth=2)
            runs.append(["seeded", rng.choice(SEEDS), body_] if rng.random() < 0.8 else body_)
        if rng.random() < 0.3:  # the same run repeated (same configuration run twice in one process)
            runs.append(runs[rng.randrange(len(runs))])
        seqs.append(runs)
    seqs.append([["seeded", 7, ["seq", "draw", "draw"]], ["seeded", 7, ["seq", "draw", "draw"]]])
    seqs.append([["seeded", 1, "draw"], ["seeded", 2, ["seq", "draw", "fail"]], ["seeded", 1, "draw"]])
    ranswers = LeanDriver("C04").batch([{"runs": r} for r in seqs])
    for runs, ans in zip(seqs, ranswers):
        if "bad" in ans:
            raise common.InfraError(f"driver: {ans}")
        prior = rng.randrange(1000)
        impl = run_prog_impl(None, prior, runs=runs)
        ck.case({"runs": runs, "prior": prior}, nontrivial=len(runs) >= 2 and ans["guarded"], stream="runs")
        ck.count("runs:all-seeded" if ans["guarded"] else "runs:some-unseeded")
        ck.count("runs:n=" + str(len(runs)))
        if impl["failed"]:
            ck.count("runs:stopped-by-failure")
        per_run_ok = len(ans["outs"]) == len(impl["outs"]) and all(
            match_out([tuple(x) for x in mo], {"out_vals": io, "lookup": impl["lookup"]}) for mo, io in zip(ans["outs"], impl["outs"]))
        if ans["guarded"]:
            # the statement: every seeded run gives its own seed's stream whatever ran before it, and the caller's
            # generator is where it was
            if impl["g"] != [None, 0]:
                ck.violation("C04:runs-do-not-restore", "process-wide generator not restored after a sequence of seeded runs",
                             {"case": {"stream": "runs", "runs": runs, "prior": prior}, "impl_state": impl["g"]})
            if impl["failed"] == ans["failed"] and not per_run_ok:
                ck.violation("C04:run-depends-on-earlier-runs", "a seeded run in a sequence does not produce its standalone draws",
                             {"case": {"stream": "runs", "runs": runs, "prior": prior}})
        if not (impl["g"] == ans["g"] and impl["failed"] == ans["failed"] and per_run_ok):
            ck.disagreement("runs", {"runs": runs, "prior": prior}, {"g": impl["g"], "failed": impl["failed"], "n_runs": len(impl["outs"])},
                            {"g": ans["g"], "failed": ans["failed"], "n_runs": len(ans["outs"])})

    # ---- models with a seed parameter
    fxs = fixtures()
    usable = 0
    for fx in fxs:
        label = fx[0]
        for seed in ([5, 99] if quick else SEEDS):
            a = run_model_fixture(fx, seed, prior=1)
            b = run_model_fixture(fx, seed, prior=2, fault_before=True)
            case = {"stream": "models", "fixture": label, "seed": seed}
            if a["error"] or b["error"]:
                ck.count("models:fixture-error:" + label)
                ck.extra.setdefault("fixture_errors", {})[label] = a["error"] or b["error"]
                break
            usable += 1
            ck.case(case, nontrivial=True, stream="models")
            ck.count("models:" + label)
            if a["out"] != b["out"]:
                ck.violation(f"C04:model-not-reproducible:{label.split('/')[0]}", f"{label}: same seed, same input, different output from different prior generator states", {"case": case})
            if not (a["restored"] and b["restored"]):
                ck.violation(f"C04:model-leaks-seed:{label.split('/')[0]}", f"{label}: process-wide generator changed by a seeded model call", {"case": case})
            # history: the same detector object used before with another seed, emptied, then called with `seed`:
            # "a stochastic model given its own seed argument returns the same output for the same input every time"
            h = run_model_fixture(fx, seed, prior=1, warmup_seed=seed + 7)
            if h["error"] is None and h["out"] != a["out"]:
                ck.violation(f"C04:model-output-depends-on-earlier-calls:{label.split('/')[0]}",
                             f"{label}: same seed and same input, but the output differs when the detector object was used for an earlier call with another seed",
                             {"case": {**case, "warmup_seed": seed + 7}})
            ck.count("models:history:" + label)
            # non-vacuity: a different seed gives a different output (the model is really stochastic)
            c = run_model_fixture(fx, seed + 1, prior=1)
            if c["out"] == a["out"]:
                ck.count("models:seed-insensitive:" + label)
    ck.extra["seeded_model_fixtures_usable"] = usable
    ck.extra["seeded_models_static_only"] = "conversion_with_qe_map, charge_deposition_in_mct, cosmix, nghxrg (need data files / large geometries): covered by the generated table only"

    # ---- modes
    ncases = 10 if quick else 80
    directed = [
        {"mode": "calibration", "pseed": 7, "times": [1.0], "nd": False, "own_seed": None, "gseed": 0, "islands": 1},
        {"mode": "calibration", "pseed": 0, "times": [1.0], "nd": False, "own_seed": 11, "gseed": 100000, "islands": 2},
        {"mode": "exposure", "pseed": 0, "times": [1.0, 2.0], "nd": True, "own_seed": 11, "reuse": True},
        {"mode": "observation", "pseed": 0, "times": [1.0], "nd": False, "own_seed": None, "levels": [10.0, 20.0, 30.0], "dask": True, "scheduler": "threads", "workers": 4},
        # the deprecated, still exported entry points (pyxel.exposure_mode / observation_mode / calibration_mode)
        {"mode": "deprecated-exposure", "pseed": 7, "times": [1.0, 2.0], "nd": False, "own_seed": None},
        {"mode": "deprecated-observation", "pseed": 7, "times": [1.0], "nd": False, "own_seed": None, "levels": [10.0, 20.0], "dask": False},
        {"mode": "deprecated-observation", "pseed": 7, "times": [1.0], "nd": False, "own_seed": None, "levels": [10.0, 20.0], "dask": False, "omode": "sequential"},
        {"mode": "deprecated-observation", "pseed": 7, "times": [1.0], "nd": False, "own_seed": None, "levels": [10.0, 20.0], "dask": False, "omode": "custom"},
        {"mode": "deprecated-calibration", "pseed": 7, "times": [1.0], "nd": False, "own_seed": None, "gseed": 123},
    ]
    for k in range(ncases + len(directed)):
        case = directed[k] if k < len(directed) else gen_mode_case(rng, ck.tier)
        a = run_mode_case(case, prior=3)
        b = run_mode_case(case, prior=4)
        ck.case({"stream": "modes", **case}, nontrivial=True, stream="modes")
        ck.count("modes:" + case["mode"] + (":dask" if case.get("dask") else ""))
        if a["error"] or b["error"]:
            raise common.InfraError(f"mode case failed to run: {case} {a['error'] or b['error']}")
        if a["hash"] != b["hash"]:
            ck.violation(f"C04:mode-not-reproducible:{case['mode']}" + (":dask" if case.get("dask") else ""),
                         "seeded run repeated from a different prior generator state gives different results", {"case": {"stream": "modes", **case}})
        if a.get("hash_again") is not None and a["hash_again"] != a["hash"]:
            ck.violation("C04:mode-not-reproducible:exposure:same-objects-second-run",
                         "a seeded exposure repeated on the same detector / pipeline objects gives different results", {"case": {"stream": "modes", **case}})
        if not (a["restored"] and b["restored"]):
            ck.violation(f"C04:mode-leaks-seed:{case['mode']}" + (":dask" if case.get("dask") else ""),
                         "process-wide generator not restored after a seeded run", {"case": {"stream": "modes", **case}})

    # ---- threads
    for _ in range(6 if quick else 60):
        case = {"stream": "threads", "seeds": [rng.choice(SEEDS[:5]) for _ in range(rng.choice([2, 3, 4, 8]))], "draws": rng.choice([20, 100, 300]), "prior": rng.randrange(1000)}
        r = run_threads_case(case)
        ck.case(case, nontrivial=True, stream="threads")
        ck.count("threads:n=" + str(len(case["seeds"])))
        if r["wrong_threads"] or not r["restored"]:
            ck.violation("C04:threads-overlapping-seeded-regions", f"overlapping seeded regions: wrong draws in threads {r['wrong_threads']}, restored={r['restored']}", {"case": case})

    ck.rule = ("discipline: random programs (draw / fail / seq / seeded s / seeded None, depth ≤ 5) on the real generator vs the symbolic model; "
               "runs: sequences of 1-7 whole runs (most under a seed, some repeated, some failing) on the real generator vs execRuns; models: each seeded model function on a real detector, same seed from two prior states (one after unrelated draws); "
               "modes: exposure / observation (sequential, dask threads 1-8 workers, synchronous) / calibration (1-2 islands) with a pipeline seed, and the deprecated entry points exposure_mode / observation_mode / calibration_mode, run twice; "
               "threads: 2-8 real threads in overlapping seeded regions. non-trivial = contains a seeded region and a draw")
    ck.assumptions = [
        "atomicity of numpy's get_state/seed/set_state/one draw under the GIL (trusted; the thread theorem is about the lock protocol)",
        "no unseeded thread draws from the process-wide generator while another thread is inside a seeded region (not enforced by the code; outside the theorem)",
        "bit-reproducibility is judged on all data variables of the result DataTree except /output file names",
        "OS thread scheduling is observed, not controlled: the `threads` stream samples interleavings; the all-schedules claim is the Lean theorem",
    ]
    ck.trusted_base += [
        "C04: harness/gen/c04.py call-graph over pyxel/models is by simple name (over-approximate); a helper drawing through an alias it cannot see would be missed statically and is covered only by the `models` stream",
        "C04: numpy legacy global RandomState semantics (seed(s) determines the stream; set_state(get_state()) is the identity)",
    ]


def replay(path):
    common.ensure_repo_on_path()
    rp = json.load(open(path))
    case = rp["replay"].get("case")
    if not case:
        print("replay names a broken obligation/correspondence, no concrete input:", rp["what"])
        return 1
    st = case.get("stream")
    if st == "discipline":
        impl = run_prog_impl(case["prog"], case["prior"])
        bad = impl["g"] != [None, 0]
        print("state after:", impl["g"])
    elif st == "models":
        fx = [f for f in fixtures() if f[0] == case["fixture"]][0]
        a = run_model_fixture(fx, case["seed"], 1)
        b = run_model_fixture(fx, case["seed"], 2, True)
        print(a, b)
        bad = a["out"] != b["out"] or not (a["restored"] and b["restored"])
    elif st == "modes":
        c = {k: v for k, v in case.items() if k != "stream"}
        a, b = run_mode_case(c, 3), run_mode_case(c, 4)
        print(a, b)
        bad = a["hash"] != b["hash"] or not (a["restored"] and b["restored"])
    elif st == "threads":
        r = run_threads_case(case)
        print(r)
        bad = bool(r["wrong_threads"]) or not r["restored"]
    else:
        print("unknown stream")
        return 2
    print("REPRODUCED" if bad else "not reproduced")
    return 1 if bad else 0


if __name__ == "__main__":
    if len(sys.argv) > 2 and sys.argv[1] == "--replay":
        sys.exit(replay(sys.argv[2]))
    sys.exit(run_check("C04", body))
