"""C20 tables, obtained by *running* today's loaders on tiny generated files (`extract.run_in_repo`):

  imageSeparators : which of a set of candidate separator characters `load_image` accepts for a 2 x 2 `.txt` image
                    (read back with the right shape and values)
  tableSeparators : the same for `load_table` on a 3 x 2 `.txt` table
  alignments      : which of a set of candidate keywords `fit_into_array(align=...)` accepts
  alignOffsets    : for each accepted keyword, where a 1 x 1 marker lands in outputs larger / smaller than inputs
                    (input shape, output shape, row, col of the marker = the offset the keyword stands for)
"""
from extract import llist, lstr, run_in_repo

FALLBACK = ("def imageSeparators : List Char := []\n"
            "def tableSeparators : List Char := []\n"
            "def alignments : List String := []\n"
            "def alignOffsets : List (String × (Nat × Nat) × (Nat × Nat) × (Int × Int)) := []")

PROBE = r"""
import json, os, tempfile, warnings
warnings.filterwarnings("ignore")
import numpy as np
from pyxel.inputs import load_image, load_table
from pyxel.util import fit_into_array

CAND = ["\t", " ", ",", "|", ";", ":", "/", "&", "!", "~"]
tmp = tempfile.mkdtemp()
img = np.array([[1.5, 2.0], [3.0, 4.25]])
tab = np.array([[1.5, 2.0], [3.0, 4.25], [5.0, 6.5]])
img_ok, tab_ok = [], []
for k, sep in enumerate(CAND):
    p = os.path.join(tmp, f"i{k}.txt")
    np.savetxt(p, img, delimiter=sep, fmt="%.17g")
    try:
        a = np.asarray(load_image(p))
        if a.shape == img.shape and np.array_equal(a, img):
            img_ok.append(sep)
    except Exception:
        pass
    p = os.path.join(tmp, f"t{k}.txt")
    np.savetxt(p, tab, delimiter=sep, fmt="%.17g")
    try:
        t = load_table(p).to_numpy()
        if t.shape == tab.shape and np.array_equal(t, tab):
            tab_ok.append(sep)
    except Exception:
        pass
KW = ["center", "top_left", "top_right", "bottom_left", "bottom_right", "centre", "left", "right", "top", "bottom",
      "middle", "center_left", "upper_left", "CENTER"]
aligns, offsets = [], []
SHAPES = [((2, 3), (5, 8)), ((5, 8), (2, 3)), ((2, 3), (5, 7)), ((4, 7), (1, 2)), ((3, 3), (3, 3))]
for kw in KW:
    try:
        fit_into_array(np.ones((1, 1)), (2, 2), align=kw)
    except Exception:
        continue
    aligns.append(kw)
    for (ay, ax), (oy, ox) in SHAPES:
        # the offset of input pixel (0, 0): mark every input pixel with its own index, find where they land
        arr = np.arange(1, ay * ax + 1, dtype=float).reshape(ay, ax)
        out = fit_into_array(arr, (oy, ox), align=kw)
        pos = None
        for i in range(oy):
            for j in range(ox):
                v = out[i, j]
                if v != 0:
                    r, c = divmod(int(v) - 1, ax)
                    pos = (i - r, j - c)
                    break
            if pos:
                break
        if pos is not None:
            offsets.append([kw, [ay, ax], [oy, ox], list(pos)])
print(json.dumps({"img": img_ok, "tab": tab_ok, "aligns": aligns, "offsets": offsets}))
"""


def lchar(c: str) -> str:
    return {"\t": "'\\t'", "'": "'\\''", "\\": "'\\\\'", "\n": "'\\n'"}.get(c, f"'{c}'")


def gen() -> str:
    res = run_in_repo(PROBE, timeout=300)
    if res is None:
        return "-- probe did not run\n" + FALLBACK
    offs = ", ".join(f"({lstr(k)}, ({a[0]}, {a[1]}), ({o[0]}, {o[1]}), (({p[0]} : Int), ({p[1]} : Int)))" for k, a, o, p in res["offsets"])
    return (
        f"def imageSeparators : List Char := {llist(res['img'], lchar)}\n"
        f"def tableSeparators : List Char := {llist(res['tab'], lchar)}\n"
        f"def alignments : List String := {llist(res['aligns'])}\n"
        f"def alignOffsets : List (String × (Nat × Nat) × (Nat × Nat) × (Int × Int)) := [{offs}]"
    )
