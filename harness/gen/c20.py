"""C20 tables: the separator tuples tried by `load_image` (text branch) and accepted by `load_table`,
and the values of the `Alignment` enum, read from today's source (ast)."""
import ast

from extract import find_class, find_func, llist, parse

FALLBACK = ("def imageSeparators : List Char := []\n"
            "def tableSeparators : List Char := []\n"
            "def alignments : List String := []")


def lchar(c: str) -> str:
    return {"\t": "'\\t'", "'": "'\\''", "\\": "'\\\\'", "\n": "'\\n'"}.get(c, f"'{c}'")


def _tuple_of_chars(node):
    if isinstance(node, (ast.Tuple, ast.List)):
        try:
            vals = [ast.literal_eval(e) for e in node.elts]
        except Exception:
            return None
        if vals and all(isinstance(v, str) and len(v) == 1 for v in vals):
            return vals
    return None


def gen() -> str:
    img_seps: list[str] = []
    tab_seps: list[str] = []
    aligns: list[str] = []
    mod = parse("pyxel/inputs/loader.py")
    f = find_func(mod, "load_image")
    if f is not None:
        for n in ast.walk(f):
            if isinstance(n, ast.For) and isinstance(n.target, ast.Name) and n.target.id == "sep":
                v = _tuple_of_chars(n.iter)
                if v:
                    img_seps = v
    f = find_func(mod, "load_table")
    if f is not None:
        for n in ast.walk(f):
            if isinstance(n, (ast.Assign, ast.AnnAssign)):
                t = n.targets[0] if isinstance(n, ast.Assign) else n.target
                if isinstance(t, ast.Name) and t.id == "valid_delimiters":
                    v = _tuple_of_chars(n.value)
                    if v:
                        tab_seps = v
    cls = find_class(parse("pyxel/util/image.py"), "Alignment")
    if cls is not None:
        for st in cls.body:
            if isinstance(st, ast.Assign) and isinstance(st.value, ast.Constant) and isinstance(st.value.value, str):
                aligns.append(st.value.value)
    return (
        f"def imageSeparators : List Char := {llist(img_seps, lchar)}\n"
        f"def tableSeparators : List Char := {llist(tab_seps, lchar)}\n"
        f"def alignments : List String := {llist(aligns)}"
    )
