"""C18 tables, obtained by *running* today's `to_dict` / `from_dict` of every detector type:

  containers  : the data-container attributes a detector instance of that type has
  written     : keys of `to_dict()["data"]` on a fully populated detector
  read        : keys whose value `from_dict` fetches from the "data" mapping (a recording mapping is passed)
  ctorParams  : constructor parameters of the type's geometry / environment / characteristics classes
  writtenProps: keys of their `to_dict()` (environment with a wavelength set)
  readProps   : keys `from_dict` of the detector fetches from "properties"

If anything cannot be built or run, the table of that type is empty (the obligations over it fail)."""
import inspect
import os
import sys

from extract import REPO, llist, lpair, lstr

FALLBACK = ("def detTypes : List String := []\n"
            "def containers : List (String × List String) := []\n"
            "def written : List (String × List String) := []\n"
            "def read : List (String × List String) := []\n"
            "def ctorParams : List (String × List String) := []\n"
            "def writtenProps : List (String × List String) := []\n"
            "def readProps : List (String × List String) := []")

TYPES = ["CCD", "CMOS", "MKID", "APD"]


class Rec(dict):
    """mapping that records the keys whose values are fetched"""

    def __init__(self, *a, **k):
        super().__init__(*a, **k)
        self.fetched = []

    def __getitem__(self, key):
        self.fetched.append(key)
        return super().__getitem__(key)

    def get(self, key, default=None):
        self.fetched.append(key)
        return super().get(key, default)


def _full_detector(kind):
    import numpy as np
    import xarray as xr

    sys.path.insert(0, os.path.dirname(os.path.dirname(os.path.abspath(__file__))))
    import pyx

    det = pyx.make_detector(kind, 3, 4, environment={"temperature": 150.0, "wavelength": 600.0}, geometry={"pixel_scale": 0.5})
    base = np.arange(12, dtype=float).reshape(3, 4)
    det.photon.array = base + 1
    det.pixel.array = base + 2
    det.signal.array = base + 3
    det.image.array = (base + 4).astype("uint16")
    det.charge.add_charge_array(base + 5)
    if hasattr(det, "phase"):
        det.phase.array = base + 6
    det.data["/gen/x"] = xr.DataArray(np.arange(3.0), dims="k")
    src = xr.Dataset({"x": xr.DataArray([1.0, 2.0], dims="ref"), "y": xr.DataArray([1.0, 2.0], dims="ref"),
                      "weight": xr.DataArray([1.0, 2.0], dims="ref"),
                      "flux": xr.DataArray([[0.1, 0.2], [0.3, 0.4]], dims=["ref", "wavelength"])},
                     coords={"ref": [0, 1], "wavelength": [500.0, 600.0]})
    det.scene.add_source(src)
    return det


def gen() -> str:
    for p in (str(REPO),):
        if p in sys.path:
            sys.path.remove(p)
        sys.path.insert(0, p)
    import warnings

    warnings.filterwarnings("ignore")
    cont, wr, rd, cp, wp, rp = [], [], [], [], [], []
    ok_types = []
    for kind in TYPES:
        try:
            import xarray as xr

            from pyxel.data_structure import Charge, Image, Photon, Pixel, Scene, Signal

            klasses = [Charge, Image, Photon, Pixel, Scene, Signal]
            try:
                from pyxel.data_structure import Phase

                klasses.append(Phase)
            except Exception:
                pass
            det = _full_detector(kind)
            names = sorted(k.lstrip("_") for k, v in vars(det).items()
                           if isinstance(v, tuple(klasses)) or (k == "_data" and isinstance(v, xr.DataTree)))
            dct = det.to_dict()
            written = sorted(dct["data"].keys())
            # what the file backends do between to_dict and from_dict: data-tree Datasets travel as dicts
            data_part = dict(dct["data"])
            if data_part.get("data") is not None:
                data_part["data"] = {k: v.to_dict() for k, v in data_part["data"].items()}
            rec_data = Rec(data_part)
            rec_props = Rec(dct["properties"])
            top = dict(dct)
            top["data"] = rec_data
            top["properties"] = rec_props
            type(det).from_dict(top)
            read = sorted(set(rec_data.fetched))
            readp = sorted(set(rec_props.fetched))
            cont.append((kind, names))
            wr.append((kind, written))
            rd.append((kind, read))
            rp.append((kind, readp))
            for part in ("geometry", "environment", "characteristics"):
                obj = getattr(det, part)
                params = [p for p in inspect.signature(type(obj).__init__).parameters if p != "self"]
                cp.append((f"{kind}.{part}", sorted(params)))
                wp.append((f"{kind}.{part}", sorted(obj.to_dict().keys())))
            ok_types.append(kind)
        except Exception as e:  # noqa: BLE001
            cont.append((kind, []))
            wr.append((kind, ["<extractor failed: %s>" % type(e).__name__]))
            rd.append((kind, []))
    tab = lambda t: llist(t, lpair(lstr, llist))  # noqa: E731
    return (
        f"def detTypes : List String := {llist(TYPES)}\n"
        f"def containers : List (String × List String) := {tab(cont)}\n"
        f"def written : List (String × List String) := {tab(wr)}\n"
        f"def read : List (String × List String) := {tab(rd)}\n"
        f"def ctorParams : List (String × List String) := {tab(cp)}\n"
        f"def writtenProps : List (String × List String) := {tab(wp)}\n"
        f"def readProps : List (String × List String) := {tab(rp)}"
    )
