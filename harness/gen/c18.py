"""C18 tables, obtained by *running* today's code in its own interpreter (`extract.run_in_repo`), through public
names only:

  containers  : the data containers a detector of that type exposes (public attributes among the known bucket names)
  written     : keys of `to_dict()["data"]` on a fully populated detector
  read        : keys whose value `from_dict` fetches from the "data" mapping (a recording mapping is passed)
  ctorParams  : constructor parameters of the type's geometry / environment / characteristics classes
  writtenProps: keys of their `to_dict()` (environment with a wavelength set)
  readProps   : keys `from_dict` of the detector fetches from "properties"

If anything cannot be built or run, the table of that type is empty (the obligations over it fail)."""
from extract import llist, lpair, lstr, run_in_repo

FALLBACK = ("def detTypes : List String := []\n"
            "def containers : List (String × List String) := []\n"
            "def written : List (String × List String) := []\n"
            "def read : List (String × List String) := []\n"
            "def ctorParams : List (String × List String) := []\n"
            "def writtenProps : List (String × List String) := []\n"
            "def readProps : List (String × List String) := []")

TYPES = ["CCD", "CMOS", "MKID", "APD"]

PROBE = r"""
import inspect, json, warnings
warnings.filterwarnings("ignore")
import numpy as np
import xarray as xr
import pyxel.detectors as D

TYPES = ["CCD", "CMOS", "MKID", "APD"]
BUCKETS = ["scene", "photon", "charge", "pixel", "signal", "image", "phase", "data"]


class Rec(dict):
    # mapping that records the keys whose values are fetched
    def __init__(self, *a, **k):
        super().__init__(*a, **k)
        self.fetched = []

    def __getitem__(self, key):
        self.fetched.append(key)
        return super().__getitem__(key)

    def get(self, key, default=None):
        self.fetched.append(key)
        return super().get(key, default)


def make(kind):
    geo = dict(row=3, col=4, total_thickness=40.0, pixel_vert_size=10.0, pixel_horz_size=10.0, pixel_scale=0.5)
    env = D.Environment(temperature=150.0, wavelength=600.0)
    if kind == "APD":
        ch = D.APDCharacteristics(roic_gain=0.8, quantum_efficiency=0.9, full_well_capacity=100000, adc_bit_resolution=16,
                                  adc_voltage_range=(0.0, 10.0), avalanche_gain=2.0, pixel_reset_voltage=5.0)
        return D.APD(geometry=D.APDGeometry(**geo), environment=env, characteristics=ch)
    ch = D.Characteristics(quantum_efficiency=0.9, charge_to_volt_conversion=1e-6, pre_amplification=100.0,
                           full_well_capacity=100000, adc_bit_resolution=16, adc_voltage_range=(0.0, 10.0))
    cls, gcls = {"CCD": (D.CCD, D.CCDGeometry), "CMOS": (D.CMOS, D.CMOSGeometry), "MKID": (D.MKID, D.MKIDGeometry)}[kind]
    return cls(geometry=gcls(**geo), environment=env, characteristics=ch)


def fill(det):
    base = np.arange(12, dtype=float).reshape(3, 4)
    det.photon.array = base + 1
    det.pixel.array = base + 2
    det.signal.array = base + 3
    det.image.array = (base + 4).astype("uint16")
    det.charge.add_charge_array(base + 5)
    if hasattr(type(det), "phase"):
        det.phase.array = base + 6
    det.data["/gen/x"] = xr.DataArray(np.arange(3.0), dims="k")
    src = xr.Dataset({"x": xr.DataArray([1.0, 2.0], dims="ref"), "y": xr.DataArray([1.0, 2.0], dims="ref"),
                      "weight": xr.DataArray([1.0, 2.0], dims="ref"),
                      "flux": xr.DataArray([[0.1, 0.2], [0.3, 0.4]], dims=["ref", "wavelength"])},
                     coords={"ref": [0, 1], "wavelength": [500.0, 600.0]})
    det.scene.add_source(src)


out = {"containers": [], "written": [], "read": [], "ctorParams": [], "writtenProps": [], "readProps": []}
for kind in TYPES:
    try:
        det = make(kind)
        names = sorted(b for b in BUCKETS if hasattr(type(det), b))
        fill(det)
        dct = det.to_dict()
        written = sorted(dct["data"].keys())
        # what the file backends do between to_dict and from_dict: data-tree Datasets travel as dicts
        data_part = dict(dct["data"])
        if data_part.get("data") is not None:
            data_part["data"] = {k: (v.to_dict() if hasattr(v, "to_dict") else v) for k, v in data_part["data"].items()}
        rec_data, rec_props = Rec(data_part), Rec(dct["properties"])
        top = dict(dct)
        top["data"], top["properties"] = rec_data, rec_props
        type(det).from_dict(top)
        out["containers"].append([kind, names])
        out["written"].append([kind, written])
        out["read"].append([kind, sorted(set(rec_data.fetched))])
        out["readProps"].append([kind, sorted(set(rec_props.fetched))])
        for part in ("geometry", "environment", "characteristics"):
            obj = getattr(det, part)
            params = [p for p in inspect.signature(type(obj).__init__).parameters if p != "self"]
            out["ctorParams"].append([f"{kind}.{part}", sorted(params)])
            out["writtenProps"].append([f"{kind}.{part}", sorted(obj.to_dict().keys())])
    except Exception as e:
        out["containers"].append([kind, []])
        out["written"].append([kind, ["<probe failed: %s>" % type(e).__name__]])
        out["read"].append([kind, []])
print(json.dumps(out))
"""


def gen() -> str:
    res = run_in_repo(PROBE, timeout=300)
    if res is None:
        return "-- probe did not run\n" + FALLBACK
    tab = lambda t: llist([tuple(x) for x in t], lpair(lstr, llist))  # noqa: E731
    return (
        f"def detTypes : List String := {llist(TYPES)}\n"
        f"def containers : List (String × List String) := {tab(res['containers'])}\n"
        f"def written : List (String × List String) := {tab(res['written'])}\n"
        f"def read : List (String × List String) := {tab(res['read'])}\n"
        f"def ctorParams : List (String × List String) := {tab(res['ctorParams'])}\n"
        f"def writtenProps : List (String × List String) := {tab(res['writtenProps'])}\n"
        f"def readProps : List (String × List String) := {tab(res['readProps'])}"
    )
