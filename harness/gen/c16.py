"""C16 table: `pyxel.util.get_dtype` EVALUATED on every resolution 0..70 (complete finite table: width in bits of
the unsigned type, or none where it raises ValueError).  No source pattern matching: the public function is called
in its own interpreter with the tree under translation importable as pyxel (`extract.run_in_repo`)."""
from extract import llist, lnat, run_in_repo

FALLBACK = "def dtypeTable : List (Nat × Option Nat) := []"

PROBE = r"""
import json
import numpy as np
from pyxel.util import get_dtype
rows = []
for b in range(0, 71):
    try:
        dt = np.dtype(get_dtype(b))
        w = dt.itemsize * 8 if dt.kind == "u" else 0   # a signed / float type is "width 0": never wide enough
    except ValueError:
        w = None
    rows.append([b, w])
print(json.dumps(rows))
"""


def _opt(w):
    return "none" if w is None else f"some {lnat(w)}"


def gen() -> str:
    rows = run_in_repo(PROBE)
    if not rows:
        return "-- get_dtype probe failed\n" + FALLBACK
    return "def dtypeTable : List (Nat × Option Nat) := " + llist(rows, lambda r: f"({lnat(r[0])}, {_opt(r[1])})")
