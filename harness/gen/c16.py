"""C16 table: `pyxel.util.get_dtype` evaluated on every resolution 0..70 (complete finite table:
width in bits of the unsigned type, or none where it raises ValueError)."""
import sys

from extract import REPO, lnat, llist

FALLBACK = "def dtypeTable : List (Nat × Option Nat) := []"


def _opt(w):
    return "none" if w is None else f"some {lnat(w)}"


def gen() -> str:
    if str(REPO) not in sys.path:
        sys.path.insert(0, str(REPO))
    import numpy as np

    from pyxel.util import get_dtype

    rows = []
    for b in range(0, 71):
        try:
            dt = np.dtype(get_dtype(b))
            w = dt.itemsize * 8 if dt.kind == "u" else 0  # a signed / float type is "width 0": never wide enough
        except ValueError:
            w = None
        rows.append((b, w))
    return "def dtypeTable : List (Nat × Option Nat) := " + llist(rows, lambda r: f"({lnat(r[0])}, {_opt(r[1])})")
