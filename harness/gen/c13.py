"""C13 tables: the TYPE_LIST of every container class, obtained by EVALUATING the classes of the tree under
translation (`extract.run_in_repo`): `[str(np.dtype(t)) for t in cls.TYPE_LIST]` — whatever way the class body spells
it (literal tuple, module-level constant, inherited).  A class that cannot be found gets an empty list (the obligation
over it then fails and the check goes on with the search); if the probe itself fails the FALLBACK (empty table) is used."""
from extract import llist, lpair, lstr, run_in_repo

CLASSES = ["Photon", "Pixel", "Signal", "Image", "Phase"]

FALLBACK = "def typeLists : List (String × List String) := []"

PROBE = r'''
import importlib, json
import numpy as np

def find(name):
    for modname in ("pyxel.data_structure", "pyxel.data_structure." + name.lower()):
        try:
            mod = importlib.import_module(modname)
        except Exception:
            continue
        cls = getattr(mod, name, None)
        if isinstance(cls, type):
            return cls
    return None

out = []
for name in %r:
    cls = find(name)
    names = []
    if cls is not None:
        try:
            for t in cls.TYPE_LIST:
                try:
                    dt = np.dtype(t)
                    n = str(dt)
                    if dt == np.dtype(np.longdouble) and dt.itemsize > 8:
                        n = "longdouble"
                    elif dt == np.dtype(np.clongdouble) and dt.itemsize > 16:
                        n = "clongdouble"
                    names.append(n)
                except Exception:
                    names.append("?")
        except Exception:
            names = []
    out.append([name, names])
print(json.dumps(out))
''' % (CLASSES,)


def gen() -> str:
    rows = run_in_repo(PROBE)
    if not isinstance(rows, list) or len(rows) != len(CLASSES):
        return FALLBACK
    rows = [(str(n), [str(x) for x in l]) for n, l in rows]
    return "def typeLists : List (String × List String) := " + llist(rows, lpair(lstr, lambda l: llist(l)))
