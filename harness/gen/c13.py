"""C13 tables: the TYPE_LIST of every container class, read from the class bodies in
pyxel/data_structure/*.py (ast, no import).  An element is `np.dtype(np.<name>)`, `np.<name>`,
`np.dtype("<name>")` or "<name>"; anything else is emitted as "?" (the model maps it to `other`,
which no kind allows).  A class that does not define TYPE_LIST itself gets the list of its base
class in the same table (ArrayBase's `()`), i.e. what Python's attribute lookup finds."""
import ast

from extract import find_class, llist, lpair, lstr, parse

CLASSES = [
    ("Photon", "pyxel/data_structure/photon.py"),
    ("Pixel", "pyxel/data_structure/pixel.py"),
    ("Signal", "pyxel/data_structure/signal.py"),
    ("Image", "pyxel/data_structure/image.py"),
    ("Phase", "pyxel/data_structure/phase.py"),
]

FALLBACK = "def typeLists : List (String × List String) := []"


def _elt_name(e) -> str:
    # np.dtype(X)
    if isinstance(e, ast.Call) and isinstance(e.func, ast.Attribute) and e.func.attr == "dtype" and len(e.args) == 1:
        return _elt_name(e.args[0])
    if isinstance(e, ast.Attribute):  # np.float16
        return e.attr
    if isinstance(e, ast.Constant) and isinstance(e.value, str):
        return e.value
    if isinstance(e, ast.Name):  # float / int builtins
        return {"float": "float64", "int": "int64", "bool": "bool", "complex": "complex128"}.get(e.id, "?")
    return "?"


def _type_list(cls: ast.ClassDef | None):
    """the TYPE_LIST assigned in the class body, or None if the class has none of its own"""
    if cls is None:
        return None
    found = None
    for st in cls.body:
        tgt = val = None
        if isinstance(st, ast.AnnAssign) and isinstance(st.target, ast.Name):
            tgt, val = st.target.id, st.value
        elif isinstance(st, ast.Assign) and len(st.targets) == 1 and isinstance(st.targets[0], ast.Name):
            tgt, val = st.targets[0].id, st.value
        if tgt == "TYPE_LIST":
            if isinstance(val, (ast.Tuple, ast.List)):
                found = [_elt_name(e) for e in val.elts]
            else:
                found = ["?"]
    return found


def gen() -> str:
    base = _type_list(find_class(parse("pyxel/data_structure/array.py"), "ArrayBase")) or []
    rows = []
    for name, rel in CLASSES:
        cls = find_class(parse(rel), name)
        if cls is None:
            rows.append((name, []))
            continue
        own = _type_list(cls)
        if own is None:
            inherits = any(getattr(b, "id", getattr(b, "attr", None)) == "ArrayBase" for b in cls.bases)
            own = list(base) if inherits else []
        rows.append((name, own))
    return "def typeLists : List (String × List String) := " + llist(rows, lpair(lstr, lambda l: llist(l)))
