"""C08 tables — OBSERVED, not pattern-matched: a probe script is run in its own interpreter with the tree under
translation importable (`extract.run_in_repo`) and reports what the real objects do on a finite domain (the four
detector types x every kind of object a key can end on).  A behaviour-preserving rewrite of the source leaves the
tables unchanged; a behavioural change flips them.

* setIsStrict          — assigning through a key whose last part does not exist raises AttributeError and creates nothing,
                         on every plain object of the settings tree (processor, detector, geometry, environment,
                         characteristics, pipeline, model group, model function) of every detector type.
* setRefusesClassAttrs — assigning through a key whose last part is a method / class-level attribute raises and leaves
                         the method in place.
* enabledSweepFixed    — `Observation.validate_steps` accepts a sweep over the `enabled` flag of an existing model
                         (enabled or not), still refuses the flag of an unknown model and an argument of a disabled model.
* entryPointsUseSet    — every entry point (`create_new_processor`, `Processor.replace`, `apply_overrides`,
                         `update_processor`) has the effect of `Processor.set` on its copy / target: a textual value arrives
                         converted, a missing key and a method name are refused, the original is untouched.
"""
from extract import lbool, run_in_repo

FALLBACK = ("def setIsStrict : Bool := false\n"
            "def setRefusesClassAttrs : Bool := false\n"
            "def enabledSweepFixed : Bool := false\n"
            "def entryPointsUseSet : Bool := false")

PROBE = r'''
import json, types, warnings
warnings.filterwarnings("ignore")
import numpy as np
from pyxel.detectors import (APD, CCD, CMOS, MKID, APDCharacteristics, APDGeometry, CCDGeometry, Characteristics,
                             CMOSGeometry, Environment, MKIDGeometry)
from pyxel.pipelines import DetectionPipeline, ModelFunction, Processor
from pyxel.observation import Observation, ParameterValues

FUNC = "pyxel.models.photon_collection.illumination"


def detector(kind):
    geo = dict(row=3, col=4, total_thickness=40.0, pixel_vert_size=10.0, pixel_horz_size=10.0)
    env = Environment(temperature=200.0)
    if kind == "APD":
        ch = APDCharacteristics(roic_gain=0.8, quantum_efficiency=0.9, full_well_capacity=100000, adc_bit_resolution=16,
                                adc_voltage_range=(0.0, 10.0), avalanche_gain=2.0, pixel_reset_voltage=5.0)
        return APD(geometry=APDGeometry(**geo), environment=env, characteristics=ch)
    ch = Characteristics(quantum_efficiency=0.9, charge_to_volt_conversion=1e-6, pre_amplification=100.0,
                         full_well_capacity=100000, adc_bit_resolution=16, adc_voltage_range=(0.0, 10.0))
    cls, g = {"CCD": (CCD, CCDGeometry), "CMOS": (CMOS, CMOSGeometry), "MKID": (MKID, MKIDGeometry)}[kind]
    return cls(geometry=g(**geo), environment=env, characteristics=ch)


def processor(kind):
    pipe = DetectionPipeline(photon_collection=[
        ModelFunction(func=FUNC, name="on", arguments={"level": 1, "label": "a"}, enabled=True),
        ModelFunction(func=FUNC, name="off", arguments={"level": 2}, enabled=False)])
    return Processor(detector=detector(kind), pipeline=pipe)


def raises(f, *a, kinds=(AttributeError, KeyError)):
    try:
        f(*a)
    except kinds:
        return True
    except Exception:
        return False
    return False


OWNERS = ["", "detector", "detector.geometry", "detector.environment", "detector.characteristics", "pipeline",
          "pipeline.photon_collection", "pipeline.photon_collection.on"]
METHODS = {"": "run_pipeline", "detector": "to_dict", "detector.geometry": "to_dict", "detector.environment": "to_dict",
           "detector.characteristics": "to_dict", "pipeline": "describe", "pipeline.photon_collection": "run",
           "pipeline.photon_collection.on": "__call__"}


def owner(p, path):
    obj = p
    for part in [x for x in path.split(".") if x]:
        obj = getattr(obj, part)
    return obj


def key(path, leaf):
    return (path + "." if path else "") + leaf


strict = refuses = True
for kind in ("CCD", "CMOS", "MKID", "APD"):
    for path in OWNERS:
        p = processor(kind)
        o = owner(p, path)
        before = set(vars(o))
        if not raises(p.set, key(path, "zz_no_such_setting_q"), "1") or set(vars(o)) != before:
            strict = False
        p = processor(kind)
        o = owner(p, path)
        m = METHODS[path]
        if not raises(p.set, key(path, m), "1", kinds=(AttributeError, TypeError)) or m in vars(o) or not callable(getattr(o, m)):
            refuses = False

# validate_steps and the `enabled` flag
def validate(key_, values):
    obs = Observation(parameters=[ParameterValues(key=key_, values=values)])
    obs.validate_steps(processor("CCD"))

G = "pipeline.photon_collection."
sweep = True
try:
    validate(G + "on.enabled", [True, False])
    validate(G + "off.enabled", [True, False])
    validate(G + "on.arguments.level", [1, 2])
except Exception:
    sweep = False
sweep = sweep and raises(validate, G + "nomodel.enabled", [True, False], kinds=(KeyError, AttributeError)) \
    and raises(validate, G + "off.arguments.level", [1, 2], kinds=(ValueError,)) \
    and raises(validate, G + "on.arguments.nope", [1, 2], kinds=(KeyError, AttributeError))

# the entry points behave like Processor.set on their target
from pyxel.observation.misc import create_new_processor
from pyxel.run import apply_overrides
from pyxel.calibration.fitting_datatree import ModelFittingDataTree
from pyxel.exposure import Exposure, Readout

def via_update(p, k, v):
    var = ParameterValues(key=k, values="_", boundaries=(0.0, 1.0e9))
    return ModelFittingDataTree.update_processor(types.SimpleNamespace(_variables=[var]), np.array([float(v)]), p)

def via_overrides(p, k, v):
    apply_overrides({k: v}, p, Exposure(readout=Readout()))
    return p

ENTRY = {"create_new_processor": lambda p, k, v: create_new_processor(p, {k: v}), "replace": lambda p, k, v: p.replace({k: v}),
         "apply_overrides": via_overrides, "update_processor": via_update}
entry = True
K = G + "on.arguments.level"
for name, f in ENTRY.items():
    p = processor("CCD")
    q = f(p, K, "7")
    got = q.get(K)
    want_ok = (got == 7 and (isinstance(got, float) if name == "update_processor" else type(got) is int))
    orig_ok = name == "apply_overrides" or p.get(K) == 1
    p2 = processor("CCD")
    miss = raises(f, p2, G + "on.arguments.zz_nope", "7") and raises(f, processor("CCD"), "detector.geometry.zz_nope", "7") \
        and "zz_nope" not in vars(p2.detector.geometry)
    p3 = processor("CCD")
    meth = raises(f, p3, "detector.geometry.to_dict", "7", kinds=(AttributeError, TypeError)) and callable(p3.detector.geometry.to_dict)
    det = f(processor("CCD"), "detector.environment.temperature", "150").get("detector.environment.temperature") == 150
    if not (want_ok and orig_ok and miss and meth and det):
        entry = False

print(json.dumps({"setIsStrict": strict, "setRefusesClassAttrs": refuses, "enabledSweepFixed": sweep, "entryPointsUseSet": entry}))
'''


def observe() -> dict:
    res = run_in_repo(PROBE, timeout=180)
    return res if isinstance(res, dict) else {}


def gen() -> str:
    r = observe()
    return (f"def setIsStrict : Bool := {lbool(r.get('setIsStrict', False))}\n"
            f"def setRefusesClassAttrs : Bool := {lbool(r.get('setRefusesClassAttrs', False))}\n"
            f"def enabledSweepFixed : Bool := {lbool(r.get('enabledSweepFixed', False))}\n"
            f"def entryPointsUseSet : Bool := {lbool(r.get('entryPointsUseSet', False))}")
