"""C08 tables (ast of /repo's working tree):

* setIsStrict        — `Processor.set` raises for a name that does not exist: somewhere in the method an `if`
                       whose test calls `self.has(...)` / `hasattr(...)` guards a `raise` (either branch).
* setRefusesClassAttrs — `Processor.set` also raises when the last part of the key is a method / class-level attribute
                       (an `if` whose test inspects `type(obj)` guards a `raise`).
* enabledSweepFixed  — in `Observation.validate_steps` the `if` that slices `key[: key.find(".arguments")]`
                       only does so when its test also mentions ".arguments" (so `find` cannot be −1).
* entryPointsUseSet  — sweep (`create_new_processor`), calibration (`update_processor`) and overrides
                       (`apply_overrides`) assign through `Processor.set` (call of an attribute named `set`),
                       and `Processor.replace` too.
"""
import ast

from extract import find_class, find_func, lbool, parse

FALLBACK = ("def setIsStrict : Bool := false\n"
            "def setRefusesClassAttrs : Bool := false\n"
            "def enabledSweepFixed : Bool := false\n"
            "def entryPointsUseSet : Bool := false")


def _calls(node, names):
    for n in ast.walk(node):
        if isinstance(n, ast.Call):
            f = n.func
            nm = f.attr if isinstance(f, ast.Attribute) else getattr(f, "id", None)
            if nm in names:
                return True
    return False


def _has_raise(stmts):
    return any(isinstance(n, ast.Raise) for s in stmts for n in ast.walk(s))


def set_is_strict() -> bool:
    fn = find_func(find_class(parse("pyxel/pipelines/processor.py"), "Processor"), "set")
    if fn is None:
        return False
    for n in ast.walk(fn):
        if isinstance(n, ast.If) and _calls(n.test, {"has", "hasattr"}):
            if _has_raise(n.body) or _has_raise(n.orelse):
                return True
    return False


def set_refuses_class_attrs() -> bool:
    """`Processor.set` raises when the last part of the key is an attribute of the object's CLASS that is not a
    property: some `if` whose test looks at `type(obj)` (or uses inspect.getattr_static) guards a `raise`."""
    fn = find_func(find_class(parse("pyxel/pipelines/processor.py"), "Processor"), "set")
    if fn is None:
        return False
    for n in ast.walk(fn):
        if isinstance(n, ast.If) and _calls(n.test, {"type", "getattr_static"}) and (_has_raise(n.body) or _has_raise(n.orelse)):
            return True
    return False


def enabled_sweep_fixed() -> bool:
    fn = find_func(find_class(parse("pyxel/observation/observation.py"), "Observation"), "validate_steps")
    if fn is None:
        return False
    found_slice = False
    ok = True
    for n in ast.walk(fn):
        if isinstance(n, ast.If):
            body_src = [m for s in n.body for m in ast.walk(s)]
            uses_find = any(
                isinstance(m, ast.Call) and isinstance(m.func, ast.Attribute) and m.func.attr == "find"
                and m.args and isinstance(m.args[0], ast.Constant) and m.args[0].value == ".arguments"
                for m in body_src
            )
            # only the innermost `if` that directly contains the slice counts
            if uses_find and not any(isinstance(s, ast.If) and any(
                    isinstance(m, ast.Call) and isinstance(m.func, ast.Attribute) and m.func.attr == "find"
                    for m in ast.walk(s)) for s in n.body):
                found_slice = True
                mentions = any(isinstance(m, ast.Constant) and isinstance(m.value, str) and "arguments" in m.value
                               for m in ast.walk(n.test))
                ok = ok and mentions
    return found_slice and ok


def entry_points_use_set() -> bool:
    places = [
        ("pyxel/run.py", None, "apply_overrides"),
        ("pyxel/observation/misc.py", None, "create_new_processor"),
        ("pyxel/calibration/fitting_datatree.py", None, "update_processor"),
        ("pyxel/pipelines/processor.py", "Processor", "replace"),
    ]
    for rel, cls, fn_name in places:
        mod = parse(rel)
        scope = find_class(mod, cls) if cls else mod
        fn = find_func(scope, fn_name)
        if fn is None or not _calls(fn, {"set"}):
            return False
        # no direct setattr on the processor's objects besides the running-mode branch of apply_overrides
        if fn_name != "apply_overrides" and _calls(fn, {"setattr"}):
            return False
    return True


def gen() -> str:
    return (f"def setIsStrict : Bool := {lbool(set_is_strict())}\n"
            f"def setRefusesClassAttrs : Bool := {lbool(set_refuses_class_attrs())}\n"
            f"def enabledSweepFixed : Bool := {lbool(enabled_sweep_fixed())}\n"
            f"def entryPointsUseSet : Bool := {lbool(entry_points_use_set())}")
