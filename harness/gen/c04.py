"""C04 tables, from the source text of /repo (ast only):

seededModels     : every function under pyxel/models that has a `seed` parameter, and whether every
                   statement of its body that (transitively, through helpers of the pyxel.models package)
                   draws from the process-wide numpy generator is lexically inside
                   `with set_random_seed(seed)`.
globalSeedCalls  : every `np.random.seed` / `np.random.set_state` call outside pyxel/util/randomize.py.
modesPassSeed    : per source file, whether EVERY call site of a function / class that takes a `pipeline_seed`
                   parameter (found by scanning the package, so private helpers may be renamed, split or inlined)
                   forwards the caller's pipeline seed; keyword dictionaries handed to a scheduler count as call sites.
seedTraces       : the sequence of effects of `set_random_seed` (lock acquire/release, state save/restore, seeding, body)
                   observed by running it under recording wrappers: normal exit, exit by an error, seed None, no argument.
                   (Evaluated, not read off the text: any rewriting of the context manager with the same effects gives
                   the same table.)
"""
from __future__ import annotations

import ast
from pathlib import Path

from extract import REPO, lbool, llist, lpair, lstr, run_in_repo

FALLBACK = (
    "def seededModels : List (String × Bool) := []\n"
    "def globalSeedCalls : List String := [\"extractor-failed\"]\n"
    "def modesPassSeed : List (String × Bool) := []\n"
    "def seedTraces : List (String × List String) := []\n"
    "def unseededGenerators : List String := [\"extractor-failed\"]"
)

NON_DRAW = {"seed", "get_state", "set_state", "default_rng", "RandomState", "Generator", "SeedSequence", "PCG64", "MT19937", "BitGenerator"}


def _attr_chain(node) -> list[str]:
    out = []
    while isinstance(node, ast.Attribute):
        out.append(node.attr)
        node = node.value
    if isinstance(node, ast.Name):
        out.append(node.id)
    return out[::-1]


def _is_global_draw(call: ast.Call) -> bool:
    ch = _attr_chain(call.func)
    return len(ch) == 3 and ch[0] in ("np", "numpy") and ch[1] == "random" and ch[2] not in NON_DRAW


def _is_global_write(call: ast.Call) -> bool:
    ch = _attr_chain(call.func)
    return len(ch) == 3 and ch[0] in ("np", "numpy") and ch[1] == "random" and ch[2] in ("seed", "set_state")


class Pkg:
    """all function / method definitions of pyxel/models, by simple name (over-approximate call graph)."""

    def __init__(self):
        self.defs: dict[str, list[ast.FunctionDef]] = {}
        self.files: dict[str, ast.Module] = {}
        for f in sorted((REPO / "pyxel" / "models").rglob("*.py")):
            try:
                mod = ast.parse(f.read_text())
            except Exception:
                continue
            self.files[str(f.relative_to(REPO))] = mod
            for n in ast.walk(mod):
                if isinstance(n, ast.ImportFrom):
                    for al in n.names:
                        if al.name == "set_random_seed" and al.asname:
                            SEED_CTX_NAMES.add(al.asname)
                if isinstance(n, (ast.FunctionDef, ast.AsyncFunctionDef)):
                    self.defs.setdefault(n.name, []).append(n)
        self._draws: dict[str, bool] = {}

    def callee_names(self, call: ast.Call) -> list[str]:
        f = call.func
        if isinstance(f, ast.Name):
            return [f.id]
        if isinstance(f, ast.Attribute):
            return [f.attr]
        return []

    def class_inits(self, name: str) -> list[ast.FunctionDef]:
        out = []
        for mod in self.files.values():
            for n in ast.walk(mod):
                if isinstance(n, ast.ClassDef) and n.name == name:
                    out += [m for m in n.body if isinstance(m, ast.FunctionDef) and m.name == "__init__"]
        return out

    def func_draws(self, name: str, stack=()) -> bool:
        """does any definition called `name` in the package (transitively) draw from np.random OUTSIDE a seeded region
        of its own (`with set_random_seed(<some argument>)`: a helper that seeds itself is as good as a seeded caller) ?"""
        if name in self._draws:
            return self._draws[name]
        if name in stack:
            return False
        res = False
        bodies = list(self.defs.get(name, [])) + self.class_inits(name)

        def visit(node, fd):
            nonlocal res
            if res:
                return
            if isinstance(node, ast.With) and _guard_with(node, any_argument=True):
                for it in node.items:
                    visit(it.context_expr, fd)
                return  # the body is a seeded region
            if isinstance(node, (ast.FunctionDef, ast.AsyncFunctionDef, ast.Lambda)) and node is not fd:
                return
            if isinstance(node, ast.Call):
                if _is_global_draw(node):
                    res = True
                    return
                for cn in self.callee_names(node):
                    if cn != name and (cn in self.defs or self.class_inits(cn)) and self.func_draws(cn, stack + (name,)):
                        res = True
                        return
            for ch in ast.iter_child_nodes(node):
                visit(ch, fd)

        for fd in bodies:
            for st in fd.body:
                visit(st, fd)
            if res:
                break
        self._draws[name] = res
        return res

    def call_draws(self, call: ast.Call) -> bool:
        if _is_global_draw(call):
            return True
        return any(self.func_draws(cn) for cn in self.callee_names(call) if cn in self.defs or self.class_inits(cn))


SEED_CTX_NAMES = {"set_random_seed"}  # plus the names it is imported under (filled by Pkg)


def _guard_with(node: ast.With, any_argument: bool = False) -> bool:
    """`with set_random_seed(seed)` / `(seed=seed)`; with any_argument: seeded by whatever the helper was handed"""
    for it in node.items:
        c = it.context_expr
        if isinstance(c, ast.Call) and _attr_chain(c.func)[-1:] and _attr_chain(c.func)[-1] in SEED_CTX_NAMES:
            args = list(c.args) + [k.value for k in c.keywords]
            if any_argument and args and not all(isinstance(a, ast.Constant) and a.value is None for a in args):
                return True
            if any(isinstance(a, ast.Name) and a.id == "seed" for a in args):
                return True
    return False


def _unguarded_draws(pkg: Pkg, fd: ast.FunctionDef) -> list[int]:
    bad = []

    def visit(node, guarded):
        if isinstance(node, ast.With) and _guard_with(node):
            for it in node.items:
                visit(it.context_expr, guarded)
            for b in node.body:
                visit(b, True)
            return
        if isinstance(node, (ast.FunctionDef, ast.AsyncFunctionDef, ast.Lambda)) and node is not fd:
            return  # nested definitions are analysed where they are called
        if isinstance(node, ast.Call) and not guarded and pkg.call_draws(node):
            bad.append(node.lineno)
        for ch in ast.iter_child_nodes(node):
            visit(ch, guarded)

    for st in fd.body:
        visit(st, False)
    return bad


def seeded_models(pkg: Pkg):
    rows = []
    for rel, mod in pkg.files.items():
        for n in mod.body:
            if isinstance(n, ast.FunctionDef):
                params = [a.arg for a in n.args.args + n.args.kwonlyargs]
                if "seed" in params and params and params[0] == "detector":
                    rows.append((f"{rel}:{n.name}", not _unguarded_draws(pkg, n)))
    return sorted(rows)


def global_seed_calls():
    rows = []
    for f in sorted((REPO / "pyxel").rglob("*.py")):
        rel = str(f.relative_to(REPO))
        if rel == "pyxel/util/randomize.py":
            continue
        try:
            mod = ast.parse(f.read_text())
        except Exception:
            continue
        for n in ast.walk(mod):
            if isinstance(n, ast.Call) and _is_global_write(n):
                rows.append(f"{rel}:{n.lineno}")
    return rows


PUBLIC_MODES = {"Exposure", "Observation", "Calibration"}  # where a pipeline seed originates (public API names)


def _mentions_seed(v) -> bool:
    for n in ast.walk(v):
        if isinstance(n, ast.Name) and n.id in ("pipeline_seed", "_pipeline_seed"):
            return True
        if isinstance(n, ast.Attribute) and n.attr in ("pipeline_seed", "_pipeline_seed"):
            return True
    return False


def modes_pass_seed():
    """-> [(file, every call site in it forwards the pipeline seed)] for the files that have such call sites"""
    mods = {}
    for f in sorted((REPO / "pyxel").rglob("*.py")):
        try:
            mods[str(f.relative_to(REPO))] = ast.parse(f.read_text())
        except Exception:
            continue
    # P: callables with a `pipeline_seed` parameter -> position of that parameter among the positional ones
    takers: dict[str, list[int | None]] = {}
    func_takers: set[str] = set()
    for mod in mods.values():
        for n in ast.walk(mod):
            if isinstance(n, ast.ClassDef) and n.name not in PUBLIC_MODES:
                for m in n.body:
                    if isinstance(m, ast.FunctionDef) and m.name == "__init__":
                        pos = [a.arg for a in m.args.posonlyargs + m.args.args][1:]
                        allp = pos + [a.arg for a in m.args.kwonlyargs]
                        if "pipeline_seed" in allp:
                            takers.setdefault(n.name, []).append(pos.index("pipeline_seed") if "pipeline_seed" in pos else None)
        for n in mod.body:
            if isinstance(n, ast.FunctionDef):
                pos = [a.arg for a in n.args.posonlyargs + n.args.args]
                allp = pos + [a.arg for a in n.args.kwonlyargs]
                if "pipeline_seed" in allp:
                    takers.setdefault(n.name, []).append(pos.index("pipeline_seed") if "pipeline_seed" in pos else None)
                    func_takers.add(n.name)
    rows = {}
    for rel, mod in mods.items():
        verdicts = []
        called_funcs = set()
        for n in ast.walk(mod):
            if isinstance(n, ast.Call) and isinstance(n.func, ast.Name) and n.func.id in takers:
                called_funcs.add(id(n.func))
                ok = False
                for k in n.keywords:
                    if k.arg == "pipeline_seed" and _mentions_seed(k.value):
                        ok = True
                for idx in takers[n.func.id]:
                    if idx is not None and len(n.args) > idx and not any(isinstance(a, ast.Starred) for a in n.args[: idx + 1]) and _mentions_seed(n.args[idx]):
                        ok = True
                verdicts.append(ok)
        # a taker handed over as an object (to a scheduler) needs a keyword dictionary that forwards the seed
        for fd in [x for x in ast.walk(mod) if isinstance(x, (ast.FunctionDef, ast.AsyncFunctionDef))]:
            refs = []
            for c in ast.walk(fd):
                if isinstance(c, ast.Call) and not (isinstance(c.func, ast.Name) and c.func.id in ("isinstance", "issubclass", "cast")):
                    for a in list(c.args) + [k.value for k in c.keywords]:
                        if isinstance(a, ast.Name) and a.id in func_takers:
                            refs.append(a)
            if not refs:
                continue
            ok = False
            for d in ast.walk(fd):
                if isinstance(d, ast.Dict):
                    for k, v in zip(d.keys, d.values):
                        if isinstance(k, ast.Constant) and k.value == "pipeline_seed" and _mentions_seed(v):
                            ok = True
                if isinstance(d, ast.Call) and isinstance(d.func, ast.Name) and d.func.id == "dict":
                    for k in d.keywords:
                        if k.arg == "pipeline_seed" and _mentions_seed(k.value):
                            ok = True
            verdicts.append(ok)
        # a keyword dictionary naming the seed must forward it, wherever it is
        for d in ast.walk(mod):
            if isinstance(d, ast.Dict):
                for k, v in zip(d.keys, d.values):
                    if isinstance(k, ast.Constant) and k.value == "pipeline_seed":
                        verdicts.append(_mentions_seed(v))
        if verdicts:
            rows[rel] = all(verdicts)
    return sorted(rows.items())


SEED_TRACE_PROBE = r"""
import json
import numpy as np
import pyxel.util.randomize as R

trace = []
real_get, real_set, real_seed = np.random.get_state, np.random.set_state, np.random.seed


def rec(name, f):
    def w(*a, **k):
        trace.append(name)
        return f(*a, **k)
    return w


class LockProxy:
    def __init__(self, real):
        self._real = real

    def acquire(self, *a, **k):
        trace.append("acquire")
        return self._real.acquire(*a, **k)

    def release(self):
        trace.append("release")
        return self._real.release()

    def __enter__(self):
        trace.append("acquire")
        return self._real.__enter__()

    def __exit__(self, *a):
        trace.append("release")
        return self._real.__exit__(*a)


for k, v in list(vars(R).items()):
    if hasattr(v, "acquire") and hasattr(v, "release") and not isinstance(v, type):
        setattr(R, k, LockProxy(v))
np.random.get_state, np.random.set_state, np.random.seed = rec("save", real_get), rec("restore", real_set), rec("seed", real_seed)
out = []
try:
    trace.clear()
    with R.set_random_seed(5):
        trace.append("body")
    out.append(["normal", list(trace)])
    trace.clear()
    try:
        with R.set_random_seed(5):
            trace.append("body")
            raise KeyError("x")
    except KeyError:
        trace.append("propagated")
    out.append(["error", list(trace)])
    trace.clear()
    with R.set_random_seed(None):
        trace.append("body")
    out.append(["none", list(trace)])
    trace.clear()
    with R.set_random_seed():
        trace.append("body")
    out.append(["default", list(trace)])
finally:
    np.random.get_state, np.random.set_state, np.random.seed = real_get, real_set, real_seed
print(json.dumps(out))
"""


def seed_traces():
    res = run_in_repo(SEED_TRACE_PROBE)
    if not isinstance(res, list):
        return []
    return [(str(a), [str(x) for x in b]) for a, b in res]


def unseeded_generators(pkg: Pkg):
    """calls under pyxel/models that create a private generator without handing it a seed expression
    (`np.random.default_rng()`, `RandomState()`, `Generator(...)` built from an unseeded bit generator):
    such draws ignore both the pipeline seed and the model's own seed."""
    rows = []
    for rel, mod in pkg.files.items():
        for n in ast.walk(mod):
            if isinstance(n, ast.Call):
                ch = _attr_chain(n.func)
                if ch[-1:] and ch[-1] in ("default_rng", "RandomState", "SeedSequence", "PCG64", "MT19937", "Philox", "SFC64"):
                    args = list(n.args) + [k.value for k in n.keywords]
                    seeded = any(not (isinstance(a, ast.Constant) and a.value is None) for a in args)
                    if not seeded:
                        rows.append(f"{rel}:{n.lineno}")
    return sorted(rows)


def gen() -> str:
    pkg = Pkg()
    sm = seeded_models(pkg)
    pb = lpair(lstr, lbool)
    return (
        f"def seededModels : List (String × Bool) := {llist(sm, pb)}\n"
        f"def globalSeedCalls : List String := {llist(global_seed_calls())}\n"
        f"def modesPassSeed : List (String × Bool) := {llist(modes_pass_seed(), pb)}\n"
        f"def seedTraces : List (String × List String) := {llist(seed_traces(), lpair(lstr, llist))}\n"
        f"def unseededGenerators : List String := {llist(unseeded_generators(pkg))}"
    )
