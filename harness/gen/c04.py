"""C04 tables, from the source text of /repo (ast only):

seededModels     : every function under pyxel/models that has a `seed` parameter, and whether every
                   statement of its body that (transitively, through helpers of the pyxel.models package)
                   draws from the process-wide numpy generator is lexically inside
                   `with set_random_seed(seed)`.
globalSeedCalls  : every `np.random.seed` / `np.random.set_state` call outside pyxel/util/randomize.py.
modesPassSeed    : for each running mode, whether the call that reaches `run_pipeline` / the fitting problem
                   passes `pipeline_seed=<the mode's seed>`.
seedContextShape : the shape of `set_random_seed` (lock, save, try, seed, yield, finally, restore, else, yield).
"""
from __future__ import annotations

import ast
from pathlib import Path

from extract import REPO, lbool, llist, lpair, lstr

FALLBACK = (
    "def seededModels : List (String × Bool) := []\n"
    "def globalSeedCalls : List String := [\"extractor-failed\"]\n"
    "def modesPassSeed : List (String × Bool) := []\n"
    "def seedContextShape : List String := []\n"
    "def unseededGenerators : List String := [\"extractor-failed\"]"
)

NON_DRAW = {"seed", "get_state", "set_state", "default_rng", "RandomState", "Generator", "SeedSequence", "PCG64", "MT19937", "BitGenerator"}


def _attr_chain(node) -> list[str]:
    out = []
    while isinstance(node, ast.Attribute):
        out.append(node.attr)
        node = node.value
    if isinstance(node, ast.Name):
        out.append(node.id)
    return out[::-1]


def _is_global_draw(call: ast.Call) -> bool:
    ch = _attr_chain(call.func)
    return len(ch) == 3 and ch[0] in ("np", "numpy") and ch[1] == "random" and ch[2] not in NON_DRAW


def _is_global_write(call: ast.Call) -> bool:
    ch = _attr_chain(call.func)
    return len(ch) == 3 and ch[0] in ("np", "numpy") and ch[1] == "random" and ch[2] in ("seed", "set_state")


class Pkg:
    """all function / method definitions of pyxel/models, by simple name (over-approximate call graph)."""

    def __init__(self):
        self.defs: dict[str, list[ast.FunctionDef]] = {}
        self.files: dict[str, ast.Module] = {}
        for f in sorted((REPO / "pyxel" / "models").rglob("*.py")):
            try:
                mod = ast.parse(f.read_text())
            except Exception:
                continue
            self.files[str(f.relative_to(REPO))] = mod
            for n in ast.walk(mod):
                if isinstance(n, (ast.FunctionDef, ast.AsyncFunctionDef)):
                    self.defs.setdefault(n.name, []).append(n)
        self._draws: dict[str, bool] = {}

    def callee_names(self, call: ast.Call) -> list[str]:
        f = call.func
        if isinstance(f, ast.Name):
            return [f.id]
        if isinstance(f, ast.Attribute):
            return [f.attr]
        return []

    def class_inits(self, name: str) -> list[ast.FunctionDef]:
        out = []
        for mod in self.files.values():
            for n in ast.walk(mod):
                if isinstance(n, ast.ClassDef) and n.name == name:
                    out += [m for m in n.body if isinstance(m, ast.FunctionDef) and m.name == "__init__"]
        return out

    def func_draws(self, name: str, stack=()) -> bool:
        """does any definition called `name` in the package (transitively) draw from np.random ?"""
        if name in self._draws:
            return self._draws[name]
        if name in stack:
            return False
        res = False
        bodies = list(self.defs.get(name, [])) + self.class_inits(name)
        for fd in bodies:
            for n in ast.walk(fd):
                if isinstance(n, ast.Call):
                    if _is_global_draw(n):
                        res = True
                    else:
                        for cn in self.callee_names(n):
                            if cn != name and (cn in self.defs or self.class_inits(cn)) and self.func_draws(cn, stack + (name,)):
                                res = True
                if res:
                    break
            if res:
                break
        self._draws[name] = res
        return res

    def call_draws(self, call: ast.Call) -> bool:
        if _is_global_draw(call):
            return True
        return any(self.func_draws(cn) for cn in self.callee_names(call) if cn in self.defs or self.class_inits(cn))


def _guard_with(node: ast.With) -> bool:
    for it in node.items:
        c = it.context_expr
        if isinstance(c, ast.Call) and _attr_chain(c.func)[-1:] == ["set_random_seed"]:
            args = list(c.args) + [k.value for k in c.keywords]
            if any(isinstance(a, ast.Name) and a.id == "seed" for a in args):
                return True
    return False


def _unguarded_draws(pkg: Pkg, fd: ast.FunctionDef) -> list[int]:
    bad = []

    def visit(node, guarded):
        if isinstance(node, ast.With) and _guard_with(node):
            for it in node.items:
                visit(it.context_expr, guarded)
            for b in node.body:
                visit(b, True)
            return
        if isinstance(node, (ast.FunctionDef, ast.AsyncFunctionDef, ast.Lambda)) and node is not fd:
            return  # nested definitions are analysed where they are called
        if isinstance(node, ast.Call) and not guarded and pkg.call_draws(node):
            bad.append(node.lineno)
        for ch in ast.iter_child_nodes(node):
            visit(ch, guarded)

    for st in fd.body:
        visit(st, False)
    return bad


def seeded_models(pkg: Pkg):
    rows = []
    for rel, mod in pkg.files.items():
        for n in mod.body:
            if isinstance(n, ast.FunctionDef):
                params = [a.arg for a in n.args.args + n.args.kwonlyargs]
                if "seed" in params and params and params[0] == "detector":
                    rows.append((f"{rel}:{n.name}", not _unguarded_draws(pkg, n)))
    return sorted(rows)


def global_seed_calls():
    rows = []
    for f in sorted((REPO / "pyxel").rglob("*.py")):
        rel = str(f.relative_to(REPO))
        if rel == "pyxel/util/randomize.py":
            continue
        try:
            mod = ast.parse(f.read_text())
        except Exception:
            continue
        for n in ast.walk(mod):
            if isinstance(n, ast.Call) and _is_global_write(n):
                rows.append(f"{rel}:{n.lineno}")
    return rows


def _passes_seed(fd, callee_names: set[str], attr: str = "pipeline_seed") -> bool | None:
    """every call to one of `callee_names` inside fd passes pipeline_seed=self.pipeline_seed (or the
    function's own `pipeline_seed` parameter / an attribute named pipeline_seed)."""
    found = False
    for n in ast.walk(fd):
        if isinstance(n, ast.Call) and _attr_chain(n.func)[-1:] and _attr_chain(n.func)[-1] in callee_names:
            found = True
            ok = False
            for k in n.keywords:
                if k.arg == "pipeline_seed":
                    v = k.value
                    ch = _attr_chain(v)
                    if ch[-1:] == [attr] or (isinstance(v, ast.Name) and v.id == attr):
                        ok = True
            # dict-of-kwargs form used by the dask path: {"pipeline_seed": pipeline_seed, ...}
            if not ok:
                return False
    return True if found else None


def _dict_passes_seed(rel: str, func: str) -> bool:
    """the dask path hands keyword arguments over as a dict literal: {"pipeline_seed": pipeline_seed, ...}"""
    try:
        mod = ast.parse((REPO / rel).read_text())
    except Exception:
        return False
    fd = next((n for n in ast.walk(mod) if isinstance(n, ast.FunctionDef) and n.name == func), None)
    if fd is None:
        return False
    for n in ast.walk(fd):
        if isinstance(n, ast.Dict):
            for k, v in zip(n.keys, n.values):
                if isinstance(k, ast.Constant) and k.value == "pipeline_seed":
                    return isinstance(v, ast.Name) and v.id == "pipeline_seed"
    return False


def modes_pass_seed():
    rows = []

    def add(label, rel, cls, func, callees):
        try:
            mod = ast.parse((REPO / rel).read_text())
        except Exception:
            rows.append((label, False))
            return
        scope = mod
        if cls:
            scope = next((n for n in ast.walk(mod) if isinstance(n, ast.ClassDef) and n.name == cls), None)
        fd = None
        if scope is not None:
            fd = next((n for n in ast.walk(scope) if isinstance(n, ast.FunctionDef) and n.name == func), None)
        r = _passes_seed(fd, callees) if fd is not None else None
        rows.append((label, bool(r)))

    add("exposure", "pyxel/exposure/exposure.py", "Exposure", "run_exposure", {"run_pipeline"})
    add("observation-sequential", "pyxel/observation/observation.py", "Observation", "_run_single_pipeline", {"run_pipeline"})
    add("observation-parallel", "pyxel/observation/observation.py", "Observation", "run_pipelines", {"run_pipelines_with_dask"})
    for fn in ("_run_pipelines_array_to_datatree", "_run_pipelines_tuple_to_array"):
        add(f"observation-dask:{fn}", "pyxel/observation/observation_dask.py", None, fn,
            {"run_pipeline", "_run_pipelines_array_to_datatree"})
    rows.append(("observation-dask:kwargs", _dict_passes_seed("pyxel/observation/observation_dask.py", "run_pipelines_with_dask")))
    add("calibration", "pyxel/calibration/calibration.py", "Calibration", "run_calibration", {"ModelFittingDataTree"})
    add("fitting:fitness", "pyxel/calibration/fitting_datatree.py", "ModelFittingDataTree", "fitness", {"run_pipeline"})
    add("fitting:_apply_parameters", "pyxel/calibration/fitting_datatree.py", "ModelFittingDataTree", "_apply_parameters", {"run_pipeline"})
    return rows


def seed_context_shape():
    try:
        mod = ast.parse((REPO / "pyxel/util/randomize.py").read_text())
    except Exception:
        return []
    fd = next((n for n in ast.walk(mod) if isinstance(n, ast.FunctionDef) and n.name == "set_random_seed"), None)
    if fd is None:
        return []
    shape: list[str] = []

    def walk(stmts):
        for st in stmts:
            if isinstance(st, ast.If):
                # `if seed is not None:` body, then else
                walk(st.body)
                if st.orelse:
                    shape.append("else")
                    walk(st.orelse)
            elif isinstance(st, ast.With):
                names = [_attr_chain(it.context_expr)[-1:] for it in st.items]
                if any(n and "LOCK" in n[0].upper() for n in names):
                    shape.append("lock")
                walk(st.body)
            elif isinstance(st, ast.Try):
                shape.append("try")
                walk(st.body)
                if st.finalbody:
                    shape.append("finally")
                    walk(st.finalbody)
                if st.handlers:
                    shape.append("except")
            elif isinstance(st, (ast.Assign, ast.AnnAssign)) and isinstance(st.value, ast.Call) and _attr_chain(st.value.func)[-1:] == ["get_state"]:
                shape.append("save")
            elif isinstance(st, ast.Expr) and isinstance(st.value, ast.Call):
                last = _attr_chain(st.value.func)[-1:]
                if last == ["seed"]:
                    shape.append("seed")
                elif last == ["set_state"]:
                    shape.append("restore")
                else:
                    shape.append("call:" + (last[0] if last else "?"))
            elif isinstance(st, ast.Expr) and isinstance(st.value, (ast.Yield,)):
                shape.append("yield")
            elif isinstance(st, ast.Expr) and isinstance(st.value, ast.Constant):
                pass  # docstring
            elif isinstance(st, ast.Pass):
                pass
            else:
                shape.append("other:" + type(st).__name__)

    walk(fd.body)
    return shape


def unseeded_generators(pkg: Pkg):
    """calls under pyxel/models that create a private generator without handing it a seed expression
    (`np.random.default_rng()`, `RandomState()`, `Generator(...)` built from an unseeded bit generator):
    such draws ignore both the pipeline seed and the model's own seed."""
    rows = []
    for rel, mod in pkg.files.items():
        for n in ast.walk(mod):
            if isinstance(n, ast.Call):
                ch = _attr_chain(n.func)
                if ch[-1:] and ch[-1] in ("default_rng", "RandomState", "SeedSequence", "PCG64", "MT19937", "Philox", "SFC64"):
                    args = list(n.args) + [k.value for k in n.keywords]
                    seeded = any(not (isinstance(a, ast.Constant) and a.value is None) for a in args)
                    if not seeded:
                        rows.append(f"{rel}:{n.lineno}")
    return sorted(rows)


def gen() -> str:
    pkg = Pkg()
    sm = seeded_models(pkg)
    pb = lpair(lstr, lbool)
    return (
        f"def seededModels : List (String × Bool) := {llist(sm, pb)}\n"
        f"def globalSeedCalls : List String := {llist(global_seed_calls())}\n"
        f"def modesPassSeed : List (String × Bool) := {llist(modes_pass_seed(), pb)}\n"
        f"def seedContextShape : List String := {llist(seed_context_shape())}\n"
        f"def unseededGenerators : List String := {llist(unseeded_generators(pkg))}"
    )
