"""C12 tables, re-extracted from /repo's working tree (ast) on every run.

* `table : List Entry` — for every detector field that has a constructor parameter AND a property setter and is
  guarded on at least one of the two paths: the *test* of the constructor's `raise` and of the setter's `raise`,
  translated node by node into `PyxelModel.C12.Cond` (see Model/C12.lean for the mapping).  Several guards on one
  path are OR-ed; nested `if`s are AND-ed with the enclosing tests (negated on `else` branches); no guard = `ff`.
* `opaqueFields` — validated fields whose guard is not a numeric comparison (`len(x) == 2`, `isinstance(x, Sequence)`):
  listed, not translated.
* `modeKeys / detKeys / modeOp / detOp / modeDispatch / detDispatch` from `_build_configuration`,
  `postInitModeOp / postInitDetOp` from `Configuration.__post_init__`.
* `sweepUsesSetter` — `Processor.set` ends in `setattr(obj, att, …)` (so an assignment through a key runs the
  property setter) and `create_new_processor` assigns through `Processor.set`.

`extract()` returns the same information as Python data (the harness harvests the guard constants from it as
boundary test points).
"""
import ast
from fractions import Fraction

import json
from pathlib import Path

from extract import REPO, find_class, find_func, lbool, llist, lstr, parse, run_in_repo

CLASSES = [
    ("pyxel/detectors/geometry.py", "Geometry"),
    ("pyxel/detectors/characteristics.py", "Characteristics"),
    ("pyxel/detectors/environment.py", "Environment"),
    ("pyxel/detectors/apd/apd_characteristics.py", "APDCharacteristics"),
    # mode-level settings
    ("pyxel/calibration/calibration.py", "Calibration"),
    ("pyxel/calibration/algorithm.py", "Algorithm"),
]
# fields whose guard was translated from `x not in range(a, b)`: the translation `not (a <= x <= b-1)` is the
# code's behaviour on INTEGERS only (a non-integer is never `in range(...)`); filled by extract()
INT_ONLY: list = []

# The syntax of guards is declared in the generated file itself (it cannot import the model: extract.py writes
# the header); Model/C12.lean imports it and gives it its meaning.
TYPES = """inductive Cmp | lt | le | gt | ge | eq | ne
deriving DecidableEq, Repr
inductive Term where
  | x
  | const (q : Rat)
deriving DecidableEq, Repr
inductive Cond where
  | cmp (a : Term) (op : Cmp) (b : Term)
  | chain (a : Term) (op1 : Cmp) (b : Term) (op2 : Cmp) (c : Term)
  | not (c : Cond)
  | and (a b : Cond)
  | or (a b : Cond)
  | truthy
  | notNone
  | isNumber
  | tt
  | ff
deriving DecidableEq, Repr
/-- one validated field as found in the source: tests of the constructor's / the setter's `raise` (`ff` = none) -/
structure Entry where
  cls : String
  field : String
  ctor : Cond
  setter : Cond
deriving DecidableEq, Repr
"""

FALLBACK = TYPES + (
    "def table : List Entry := []\n"
    "def intOnlyFields : List (String × String) := []\n"
    "def opaqueFields : List String := []\n"
    "def modeKeys : List String := []\ndef detKeys : List String := []\n"
    "def modeOp : String := \"\"\ndef detOp : String := \"\"\n"
    "def postInitModeOp : String := \"\"\ndef postInitDetOp : String := \"\"\n"
    "def modeDispatch : List String := []\ndef detDispatch : List String := []\n"
    "def sweepUsesSetter : Bool := false\n"
    "def apdTable : List (Option Rat × Option Rat × Option Rat × Bool) := []"
)


# ------------------------------------------------------------------ guard table: OBSERVED on the real constructors / setters
# The set of fields comes from the PUBLIC signatures (constructor parameters that have a property setter of the same
# name, numeric annotation); candidate breakpoints are every numeric literal of the class's module (and every number
# quoted in its strings / error messages).  For each field the probe below asks the real constructor and the real setter
# at every candidate, between every two neighbours, beyond both ends, at nan and ±inf, and the accepted set is written
# down as a `Cond` (`not (union of accepted intervals)`, or `union of refused intervals` when nan is accepted).
# A behaviour-preserving rewrite (helpers, guard clauses, renamed locals, table-driven checks) yields the same table.
GUARD_PROBE = r"""
import json, math, tempfile, os, warnings
warnings.filterwarnings("ignore")
SPEC = json.loads(%r)
import numpy as np
from pyxel.detectors import (APDCharacteristics, APDGeometry, CCDGeometry, Characteristics, CMOSGeometry, Environment,
                             MKIDGeometry)
tmp = tempfile.mkdtemp()
np.save(os.path.join(tmp, "target.npy"), np.ones((3, 4)))


def build(cls, kw):
    if cls == "Geometry":
        return CCDGeometry(**{**dict(row=3, col=4, total_thickness=40.0, pixel_vert_size=10.0, pixel_horz_size=10.0), **kw})
    if cls == "Environment":
        return Environment(**{**dict(temperature=200.0), **kw})
    if cls == "Characteristics":
        return Characteristics(**{**dict(quantum_efficiency=0.9, charge_to_volt_conversion=1e-6, pre_amplification=100.0,
                                         full_well_capacity=100000, adc_bit_resolution=16, adc_voltage_range=(0.0, 10.0)), **kw})
    if cls == "APDCharacteristics":
        return APDCharacteristics(**{**dict(roic_gain=0.8, quantum_efficiency=0.9, full_well_capacity=100000, adc_bit_resolution=16,
                                            adc_voltage_range=(0.0, 10.0), avalanche_gain=2.0, pixel_reset_voltage=5.0), **kw})
    from pyxel.calibration import Algorithm, Calibration
    if cls == "Algorithm":
        return Algorithm(**kw)
    from pyxel.observation import ParameterValues
    from pyxel.pipelines import FitnessFunction
    return Calibration(target_data_path=[os.path.join(tmp, "target.npy")],
                       fitness_function=FitnessFunction(func="pyxel.calibration.fitness.sum_of_abs_residuals"),
                       algorithm=Algorithm(type="sade", generations=2, population_size=8),
                       parameters=[ParameterValues(key="detector.characteristics.quantum_efficiency", values="_", boundaries=(0.1, 0.9))],
                       result_fit_range=[0, 3, 0, 4], target_fit_range=[0, 3, 0, 4], **kw)


def accepted(f, *a):
    try:
        f(*a)
        return True
    except Exception:
        return False


def ask(cls, field, x):
    c = accepted(build, cls, {field: x})
    try:
        obj = build(cls, {})
        s = accepted(setattr, obj, field, x)
    except Exception:
        s = None
    return [c, s]


import functools

LATTICE = [0, 1, -1, 4, 3, 64, 65, 100000, 100001] + [2 ** i for i in range(1, 17)] + [10 ** i for i in range(1, 7)]


def learn(cls, field, ks, integral):
    # breakpoints of the accepted sets of both paths: the candidates, refined by bisection wherever the verdict changes
    # strictly inside an interval between two candidates (so the result does not depend on where the source keeps its
    # constants, or whether it has literals at all)
    memo = {}

    def v(x, path):
        key = (type(x).__name__, repr(x))
        if key not in memo:
            memo[key] = ask(cls, field, x)
        r = memo[key][path]
        return bool(r)

    if integral:
        num, succ, pred = int, (lambda x: x + 1), (lambda x: x - 1)
        far_lo, far_hi = -10 ** 12, 10 ** 12
    else:
        num = float
        succ, pred = (lambda x: math.nextafter(x, math.inf)), (lambda x: math.nextafter(x, -math.inf))
        far_lo, far_hi = -1e300, 1e300

    def bisect(lo, hi, path):
        a = v(lo, path)
        if integral:
            while hi - lo > 1:
                mid = (lo + hi) // 2
                if v(mid, path) == a:
                    lo = mid
                else:
                    hi = mid
            return [lo, hi]
        while True:
            mid = lo + (hi - lo) / 2
            if not (lo < mid < hi):
                break
            if v(mid, path) == a:
                lo = mid
            else:
                hi = mid
        return [lo if len(repr(lo)) < len(repr(hi)) else hi]

    ks = {num(k) for k in ks if not integral or float(k).is_integer()} | {num(k) for k in LATTICE}
    # numbers quoted in the messages actually raised far outside / at a few plain values
    import re
    for x in (far_lo, far_hi, num(0), num(-1), float("nan")):
        for f in (lambda: build(cls, {field: x}), lambda: setattr(build(cls, {}), field, x)):
            try:
                f()
            except Exception as exc:
                for m in re.findall(r"(?<![\w.])-?\d+(?:\.\d+)?(?:[eE][-+]?\d+)?(?![\w])", str(exc)):
                    try:
                        q = float(m)
                        if abs(q) <= 1e12 and (not integral or q.is_integer()):
                            ks.add(num(q))
                    except ValueError:
                        pass
    for _ in range(12):
        srt = sorted(ks)
        new = set()
        spans = [[far_lo, num(srt[0] - 1), pred(srt[0])]]
        for a, b in zip(srt, srt[1:]):
            if succ(a) >= b:
                continue
            mid = (a + b) // 2 if integral else a + (b - a) / 2
            spans.append([succ(a), mid, pred(b)])
        spans.append([succ(srt[-1]), num(srt[-1] + 1), far_hi])
        for pts in spans:
            pts = sorted(set(pts))
            for path in (0, 1):
                for p, q in zip(pts, pts[1:]):
                    if v(p, path) != v(q, path):
                        new.update(bisect(p, q, path))
        new -= ks
        if not new:
            break
        ks |= new
    return sorted(ks), v


out = []
for e in SPEC:
    cls, field, integral = e["cls"], e["field"], e["int"]
    if not e["numeric"]:
        out.append({"cls": cls, "field": field, "rows": [], "special": {}, "wrong": [ask(cls, field, v) for v in ("zz", (1, 2, 3), 5)]})
        continue
    ks, v = learn(cls, field, e["consts"], integral)
    num = int if integral else float
    pts = [("below", None, ks[0], num(ks[0] - 1))]
    for i, k in enumerate(ks):
        pts.append(("at", k, k, k))
        if i + 1 < len(ks):
            a, b = k, ks[i + 1]
            if integral:
                if b - a <= 1:
                    continue
                mid = (a + b) // 2
            else:
                mid = a + (b - a) / 2
                if not (a < mid < b):
                    continue
            pts.append(("between", a, b, mid))
    pts.append(("above", ks[-1], None, num(ks[-1] + 1)))
    rows = [[kind, a, b, [v(x, 0), v(x, 1)]] for kind, a, b, x in pts]
    # drop the candidates at which nothing changes (keeps the table small and canonical)
    special = {"nan": ask(cls, field, float("nan")), "pinf": ask(cls, field, float("inf")), "ninf": ask(cls, field, float("-inf")),
               "far_above": [v(10 ** 12 if integral else 1e300, 0), v(10 ** 12 if integral else 1e300, 1)],
               "far_below": [v(-10 ** 12 if integral else -1e300, 0), v(-10 ** 12 if integral else -1e300, 1)]}
    out.append({"cls": cls, "field": field, "rows": rows, "special": special, "wrong": []})
print(json.dumps(out))
"""


def _numbers_in(mod):
    import re

    ks = set()
    for n in ast.walk(mod):
        if isinstance(n, ast.Constant):
            v = n.value
            if isinstance(v, bool):
                continue
            if isinstance(v, (int, float)) and v == v and abs(v) <= 1e9:
                ks.add(Fraction(v))
            elif isinstance(v, str) and len(v) < 200:
                for m in re.findall(r"(?<![\w.])-?\d+(?:\.\d+)?(?:[eE][-+]?\d+)?(?![\w])", v):
                    try:
                        q = Fraction(m)
                        if abs(q) <= 10**9:
                            ks.add(q)
                    except (ValueError, ZeroDivisionError):
                        pass
    return ks


def setters_of(cls):
    out = {}
    for st in cls.body:
        if isinstance(st, ast.FunctionDef):
            for d in st.decorator_list:
                if isinstance(d, ast.Attribute) and d.attr == "setter" and isinstance(d.value, ast.Name):
                    out[d.value.id] = st
    return out


def public_fields():
    """(class, field, numeric?, integer?, candidate constants) from the public signatures"""
    rows = []
    for rel, cname in CLASSES:
        mod = parse(rel)
        cls = find_class(mod, cname)
        init = find_func(cls, "__init__") if cls is not None else None
        if init is None:
            continue
        setters = setters_of(cls)
        # candidates: numeric literals / numbers quoted in strings of EVERY module of the class's package (helpers and
        # constants may live anywhere); the probe adds a lattice, the numbers of the raised messages, and bisection
        ks = set(_numbers_in(mod))
        pkg_dir = (REPO / rel).parent
        top = REPO / "pyxel" / Path(rel).parts[1]
        for f in sorted(top.rglob("*.py")):
            try:
                ks |= _numbers_in(ast.parse(f.read_text()))
            except Exception:  # noqa: BLE001
                pass
        ks = sorted(k for k in ks if k.denominator == 1 or len(str(k.denominator)) <= 4)
        if len(ks) > 80:
            ks = sorted({k for k in ks if k.denominator == 1 and abs(k) <= 10**8})
        for a in init.args.args[1:] + init.args.kwonlyargs:
            if a.arg not in setters or a.annotation is None:
                continue
            ann = ast.unparse(a.annotation)
            numeric = ("int" in ann or "float" in ann) and "Sequence" not in ann and "tuple" not in ann and "Literal" not in ann
            integer = numeric and "float" not in ann
            if not numeric and not ("Literal" in ann or ann.startswith("tuple")):
                continue            # objects, paths, sequences of objects: not value settings
            rows.append({"cls": cname, "field": a.arg, "numeric": numeric, "int": integer,
                         "consts": [float(k) if k.denominator != 1 else int(k) for k in ks]})
    return rows


# the APD bias trio (avalanche gain, pixel reset voltage, common voltage: any two determine the third) has consistency rules,
# not ranges, for the two voltages
EXCLUDED = {("APDCharacteristics", "common_voltage"), ("APDCharacteristics", "pixel_reset_voltage")}


def _learn(rows, special, path, integral=False):
    """accepted set of one path (0 = constructor, 1 = setter) as a list of intervals, or None when it is not piecewise
    constant on the candidate breakpoints the way the ends / infinities say"""
    verdict = [(kind, a, b, r[path]) for kind, a, b, r in rows]
    if any(v is None for *_, v in verdict):
        return None
    if special["far_above"][path] != verdict[-1][3] or special["far_below"][path] != verdict[0][3]:
        return None
    if not integral and (special["pinf"][path] != verdict[-1][3] or special["ninf"][path] != verdict[0][3]):
        return "inf-differs"            # (±inf are not integers: outside the domain of an integer field)
    return verdict


def _intervals(verdict, want):
    """maximal runs of pieces whose verdict is `want`, as (lo, lo_closed, hi, hi_closed) with None = unbounded"""
    runs, cur = [], None
    for kind, a, b, v in verdict:
        if v != want:
            if cur:
                runs.append(cur)
            cur = None
            continue
        if kind == "below":
            piece = (None, False, b, False)
        elif kind == "above":
            piece = (a, False, None, False)
        elif kind == "at":
            piece = (a, True, a, True)
        else:
            piece = (a, False, b, False)
        cur = piece if cur is None else (cur[0], cur[1], piece[2], piece[3])
    if cur:
        runs.append(cur)
    return runs


def _interval_cond(iv):
    lo, lc, hi, hc = iv
    F = Fraction
    if lo is None and hi is None:
        return ("tt",)
    if lo is None:
        return ("cmp", ("x",), "le" if hc else "lt", ("const", F(hi)))
    if hi is None:
        return ("cmp", ("x",), "ge" if lc else "gt", ("const", F(lo)))
    return ("chain", ("const", F(lo)), "le" if lc else "lt", ("x",), "le" if hc else "lt", ("const", F(hi)))


def _raise_cond(verdict, nan_accepted, integral=False):
    """the condition under which the path raises.  Integer fields: accepted runs with closed integer ends (the
    statement about them is about integers; nan / non-integers are outside it)"""
    if integral:
        acc = []
        for lo, lc, hi, hc in _intervals(verdict, True):
            acc.append((None if lo is None else (lo if lc else lo + 1), True, None if hi is None else (hi if hc else hi - 1), True))
        if not acc:
            return ("tt",)
        c = _interval_cond(acc[0])
        for iv in acc[1:]:
            c = ("or", c, _interval_cond(iv))
        return ("not", c)
    if not nan_accepted:
        acc = _intervals(verdict, True)
        if not acc:
            return ("tt",)
        c = _interval_cond(acc[0])
        for iv in acc[1:]:
            c = ("or", c, _interval_cond(iv))
        return ("not", c)
    rej = _intervals(verdict, False)
    if not rej:
        return ("ff",)
    c = _interval_cond(rej[0])
    for iv in rej[1:]:
        c = ("or", c, _interval_cond(iv))
    return c


import extract as _extract_mod

_CACHE: dict = _extract_mod.__dict__.setdefault("_c12_guard_cache", {})   # shared by every load of this plug-in


def extract():
    """-> (table, opaque): table entries {cls, field, ctor, setter, int_only}; opaque = validated non-numeric fields"""
    key = str(REPO)
    if key in _CACHE:
        return _CACHE[key]
    fields = public_fields()
    res = run_in_repo(GUARD_PROBE % json.dumps(fields), timeout=300)
    table, opaque = [], []
    if isinstance(res, list):
        for f, r in zip(fields, res):
            name = f"{f['cls']}.{f['field']}"
            if (f["cls"], f["field"]) in EXCLUDED:
                continue
            if not f["numeric"]:
                # a non-numeric setting is "validated" when some ill-typed value is refused by the constructor or the setter
                if any(w[0] is False or w[1] is False for w in r["wrong"]):
                    opaque.append(name)
                continue
            vc, vs = _learn(r["rows"], r["special"], 0, f["int"]), _learn(r["rows"], r["special"], 1, f["int"])
            if vc is None or vs is None or vc == "inf-differs" or vs == "inf-differs":
                opaque.append(name + ":not-piecewise")
                continue
            if all(v for *_, v in vc) and all(v for *_, v in vs) and r["special"]["nan"] == [True, True]:
                continue        # nothing is ever refused: not a validated field
            table.append({"cls": f["cls"], "field": f["field"], "int_only": f["int"],
                          "ctor": _raise_cond(vc, r["special"]["nan"][0], f["int"]),
                          "setter": _raise_cond(vs, r["special"]["nan"][1], f["int"])})
    out = (table, sorted(opaque))
    _CACHE[key] = out
    return out


def consts_of(c):
    out = []
    if isinstance(c, tuple):
        if c[0] == "const":
            out.append(c[1])
        for x in c[1:]:
            out += consts_of(x)
    return out


def lrat(q: Fraction) -> str:
    if q.denominator == 1:
        return f"({q.numerator} : Rat)"
    return f"(({q.numerator} : Rat) / {q.denominator})"


def lterm(t):
    return ".x" if t[0] == "x" else f"(.const {lrat(t[1])})"


def lcond(c) -> str:
    k = c[0]
    if k == "cmp":
        return f"(.cmp {lterm(c[1])} .{c[2]} {lterm(c[3])})"
    if k == "chain":
        return f"(.chain {lterm(c[1])} .{c[2]} {lterm(c[3])} .{c[4]} {lterm(c[5])})"
    if k == "not":
        return f"(.not {lcond(c[1])})"
    if k in ("and", "or"):
        return f"(.{k} {lcond(c[1])} {lcond(c[2])})"
    return f".{k}"


def cond_json(c):
    """JSON form sent to the Lean driver / used by the harness"""
    k = c[0]
    if k in ("x",):
        return ["x"]
    if k == "const":
        return ["const", str(c[1].numerator), str(c[1].denominator)]
    return [k] + [cond_json(x) if isinstance(x, tuple) else x for x in c[1:]]


# ------------------------------------------------------------------ loader facts: OBSERVED on `loads`
CONFIG_PROBE = r"""
import json, os, tempfile, warnings, itertools
warnings.filterwarnings("ignore")
import numpy as np, yaml
from pyxel.configuration import loads
CAND = json.loads(%r)
tmp = tempfile.mkdtemp()
np.save(os.path.join(tmp, "target.npy"), np.ones((3, 4)))
det = {"geometry": {"row": 3, "col": 4, "total_thickness": 10.0, "pixel_vert_size": 10.0, "pixel_horz_size": 10.0},
       "environment": {"temperature": 100.0},
       "characteristics": {"quantum_efficiency": 0.5, "charge_to_volt_conversion": 1e-6, "pre_amplification": 10.0,
                           "adc_bit_resolution": 16, "adc_voltage_range": [0.0, 5.0], "full_well_capacity": 1000}}
apd = {"geometry": det["geometry"], "environment": det["environment"],
       "characteristics": {"roic_gain": 0.8, "quantum_efficiency": 0.9, "full_well_capacity": 100000, "adc_bit_resolution": 16,
                           "adc_voltage_range": [0.0, 10.0], "avalanche_gain": 2.0, "pixel_reset_voltage": 5.0}}
modes = {"exposure": {}, "observation": {"parameters": [{"key": "detector.environment.temperature", "values": [100, 200]}]},
         "calibration": {"target_data_path": [os.path.join(tmp, "target.npy")],
                         "fitness_function": {"func": "pyxel.calibration.fitness.sum_of_abs_residuals"},
                         "algorithm": {"type": "sade", "generations": 2, "population_size": 8},
                         "parameters": [{"key": "detector.characteristics.quantum_efficiency", "values": "_", "boundaries": [0.1, 0.9]}],
                         "result_fit_range": [0, 3, 0, 4], "target_fit_range": [0, 3, 0, 4]}}


def load(keys):
    doc = {"pipeline": {}}
    for k in keys:
        doc[k] = modes.get(k, apd if k.startswith("apd") else det)
    try:
        cfg = loads(yaml.safe_dump(doc, sort_keys=False))
        return [type(cfg.running_mode).__name__, type(cfg.detector).__name__]
    except Exception as e:
        return type(e).__name__

mode_keys = [k for k in CAND["modes"] if isinstance(load([k, "ccd_detector"]), list)]
det_keys = [k for k in CAND["detectors"] if isinstance(load(["exposure", k]), list)]
counts_m = {n: all(isinstance(load(list(c) + ["ccd_detector"]), list) for c in itertools.combinations(mode_keys, n)) for n in range(len(mode_keys) + 1)}
counts_d = {n: all(isinstance(load(["exposure"] + list(c)), list) for c in itertools.combinations(det_keys, n)) for n in range(len(det_keys) + 1)}
# range checks are reached by a sweep / override: Processor.set and create_new_processor run the property setter
from pyxel.pipelines import Processor
from pyxel.observation.misc import create_new_processor
cfg = loads(yaml.safe_dump({"pipeline": {}, "exposure": {}, "ccd_detector": det}))
p = Processor(detector=cfg.detector, pipeline=cfg.pipeline)
def refused(f, *a):
    try:
        f(*a)
        return False
    except ValueError:
        return True
    except Exception:
        return False
setter = refused(p.set, "detector.environment.temperature", -5.0) and refused(create_new_processor, p, {"detector.characteristics.quantum_efficiency": 1.5}) \
    and not refused(p.set, "detector.environment.temperature", 150.0)
print(json.dumps({"modeKeys": mode_keys, "detKeys": det_keys, "counts_m": counts_m, "counts_d": counts_d, "setter": setter}))
"""


def _op_from_counts(counts: dict) -> str:
    """the comparison `count <op> 1 -> refuse` that the observed acceptance per number of keys amounts to"""
    obs = {int(n): (not ok) for n, ok in counts.items()}       # n -> refused?
    for op, f in (("!=", lambda n: n != 1), (">", lambda n: n > 1), ("<", lambda n: n < 1), (">=", lambda n: n >= 1),
                  ("<=", lambda n: n <= 1), ("==", lambda n: n == 1)):
        if all(f(n) == r for n, r in obs.items()):
            return op
    return ""


_FACTS: dict = _extract_mod.__dict__.setdefault("_c12_facts_cache", {})


def config_facts():
    key = str(REPO)
    if key in _FACTS:
        return _FACTS[key]
    facts = {"modeKeys": [], "detKeys": [], "modeOp": "", "detOp": "", "modeDispatch": [], "detDispatch": [],
             "postInitModeOp": "", "postInitDetOp": "", "setter": False}
    # candidate keys: the documented ones, then every string literal of the loader module that looks like one
    mod = parse("pyxel/configuration/configuration.py")
    lits = [n.value for n in ast.walk(mod) if isinstance(n, ast.Constant) and isinstance(n.value, str)] if mod else []
    modes = ["exposure", "observation", "calibration"]
    dets = ["ccd_detector", "cmos_detector", "mkid_detector", "apd_detector"]
    dets += sorted({s for s in lits if s.endswith("_detector") and s not in dets and s.isidentifier()})
    res = run_in_repo(CONFIG_PROBE % json.dumps({"modes": modes, "detectors": dets}), timeout=300)
    if isinstance(res, dict):
        facts["modeKeys"], facts["detKeys"] = res["modeKeys"], res["detKeys"]
        facts["modeDispatch"], facts["detDispatch"] = res["modeKeys"], res["detKeys"]
        # 0 keys is refused by the loader as a whole (by the count or by its "nothing provided" branch): the observable
        # decision is a function of the number of keys present
        facts["modeOp"] = facts["postInitModeOp"] = _op_from_counts(res["counts_m"])
        facts["detOp"] = facts["postInitDetOp"] = _op_from_counts(res["counts_d"])
        facts["setter"] = bool(res["setter"])
    _FACTS[key] = facts
    return facts


def sweep_uses_setter() -> bool:
    return bool(config_facts().get("setter"))


# ------------------------------------------------------------------ APD: the three bias inputs (any two determine the third)
APD_PROBE = r"""
import json, warnings
warnings.filterwarnings("ignore")
from pyxel.detectors import APDCharacteristics
GAINS = [None, 0.5, 1, 2, 1000, 1001]
PRVS = [None, 2, 3, 5, 12]
CVS = [None, 1, 2, 2.5, 4]
rows = []
for g in GAINS:
    for p in PRVS:
        for c in CVS:
            kw = {k: v for k, v in (("avalanche_gain", g), ("pixel_reset_voltage", p), ("common_voltage", c)) if v is not None}
            try:
                APDCharacteristics(roic_gain=0.8, **kw)
                ok = True
            except Exception:
                ok = False
            rows.append([g, p, c, ok])
print(json.dumps(rows))
"""


def apd_table():
    key = "apd:" + str(REPO)
    if key not in _FACTS:
        res = run_in_repo(APD_PROBE, timeout=120)
        _FACTS[key] = res if isinstance(res, list) else []
    return _FACTS[key]


def _lopt(v):
    return "none" if v is None else f"(some {lrat(Fraction(v))})"


def gen() -> str:
    table, opaque = extract()
    facts = config_facts()
    rows = ",\n  ".join(
        f"⟨{lstr(e['cls'])}, {lstr(e['field'])}, {lcond(e['ctor'])}, {lcond(e['setter'])}⟩" for e in table
    )
    return (
        TYPES +
        f"def table : List Entry := [\n  {rows}]\n"
        "def intOnlyFields : List (String × String) := ["
        + ", ".join(f"({lstr(e['cls'])}, {lstr(e['field'])})" for e in table if e.get("int_only")) + "]\n"
        f"def opaqueFields : List String := {llist(opaque)}\n"
        f"def modeKeys : List String := {llist(facts['modeKeys'])}\n"
        f"def detKeys : List String := {llist(facts['detKeys'])}\n"
        f"def modeOp : String := {lstr(facts['modeOp'])}\n"
        f"def detOp : String := {lstr(facts['detOp'])}\n"
        f"def postInitModeOp : String := {lstr(facts['postInitModeOp'])}\n"
        f"def postInitDetOp : String := {lstr(facts['postInitDetOp'])}\n"
        f"def modeDispatch : List String := {llist(facts['modeDispatch'])}\n"
        f"def detDispatch : List String := {llist(facts['detDispatch'])}\n"
        f"def sweepUsesSetter : Bool := {lbool(sweep_uses_setter())}\n"
        "/-- (avalanche_gain, pixel_reset_voltage, common_voltage, accepted by the constructor) on a grid, observed -/\n"
        "def apdTable : List (Option Rat × Option Rat × Option Rat × Bool) := ["
        + ", ".join(f"({_lopt(g)}, {_lopt(p_)}, {_lopt(c)}, {lbool(ok)})" for g, p_, c, ok in apd_table()) + "]"
    )
