"""C12 tables, re-extracted from /repo's working tree (ast) on every run.

* `table : List Entry` — for every detector field that has a constructor parameter AND a property setter and is
  guarded on at least one of the two paths: the *test* of the constructor's `raise` and of the setter's `raise`,
  translated node by node into `PyxelModel.C12.Cond` (see Model/C12.lean for the mapping).  Several guards on one
  path are OR-ed; nested `if`s are AND-ed with the enclosing tests (negated on `else` branches); no guard = `ff`.
* `opaqueFields` — validated fields whose guard is not a numeric comparison (`len(x) == 2`, `isinstance(x, Sequence)`):
  listed, not translated.
* `modeKeys / detKeys / modeOp / detOp / modeDispatch / detDispatch` from `_build_configuration`,
  `postInitModeOp / postInitDetOp` from `Configuration.__post_init__`.
* `sweepUsesSetter` — `Processor.set` ends in `setattr(obj, att, …)` (so an assignment through a key runs the
  property setter) and `create_new_processor` assigns through `Processor.set`.

`extract()` returns the same information as Python data (the harness harvests the guard constants from it as
boundary test points).
"""
import ast
from fractions import Fraction

from extract import find_class, find_func, lbool, llist, lstr, parse

CLASSES = [
    ("pyxel/detectors/geometry.py", "Geometry"),
    ("pyxel/detectors/characteristics.py", "Characteristics"),
    ("pyxel/detectors/environment.py", "Environment"),
    ("pyxel/detectors/apd/apd_characteristics.py", "APDCharacteristics"),
    # mode-level settings
    ("pyxel/calibration/calibration.py", "Calibration"),
    ("pyxel/calibration/algorithm.py", "Algorithm"),
]
# fields whose guard was translated from `x not in range(a, b)`: the translation `not (a <= x <= b-1)` is the
# code's behaviour on INTEGERS only (a non-integer is never `in range(...)`); filled by extract()
INT_ONLY: list = []

# The syntax of guards is declared in the generated file itself (it cannot import the model: extract.py writes
# the header); Model/C12.lean imports it and gives it its meaning.
TYPES = """inductive Cmp | lt | le | gt | ge | eq | ne
deriving DecidableEq, Repr
inductive Term where
  | x
  | const (q : Rat)
deriving DecidableEq, Repr
inductive Cond where
  | cmp (a : Term) (op : Cmp) (b : Term)
  | chain (a : Term) (op1 : Cmp) (b : Term) (op2 : Cmp) (c : Term)
  | not (c : Cond)
  | and (a b : Cond)
  | or (a b : Cond)
  | truthy
  | notNone
  | isNumber
  | tt
  | ff
deriving DecidableEq, Repr
/-- one validated field as found in the source: tests of the constructor's / the setter's `raise` (`ff` = none) -/
structure Entry where
  cls : String
  field : String
  ctor : Cond
  setter : Cond
deriving DecidableEq, Repr
"""

FALLBACK = TYPES + (
    "def table : List Entry := []\n"
    "def intOnlyFields : List (String × String) := []\n"
    "def opaqueFields : List String := []\n"
    "def modeKeys : List String := []\ndef detKeys : List String := []\n"
    "def modeOp : String := \"\"\ndef detOp : String := \"\"\n"
    "def postInitModeOp : String := \"\"\ndef postInitDetOp : String := \"\"\n"
    "def modeDispatch : List String := []\ndef detDispatch : List String := []\n"
    "def sweepUsesSetter : Bool := false"
)


class Unsupported(Exception):
    pass


_RANGE_USED: list = []


OPS = {ast.Lt: "lt", ast.LtE: "le", ast.Gt: "gt", ast.GtE: "ge", ast.Eq: "eq", ast.NotEq: "ne"}
IGNORED_NAMES = {"isinstance", "int", "float", "np", "numpy", "min", "max", "len", "Sequence", "WavelengthHandling", "bool", "range"}


def names_in(node):
    return {n.id for n in ast.walk(node) if isinstance(n, ast.Name)} - IGNORED_NAMES


def term(node, var):
    if isinstance(node, ast.Name) and node.id == var:
        return ("x",)
    if isinstance(node, ast.Constant) and isinstance(node.value, (int, float)) and not isinstance(node.value, bool):
        return ("const", Fraction(node.value))
    if isinstance(node, ast.UnaryOp) and isinstance(node.op, ast.USub):
        t = term(node.operand, var)
        if t[0] == "const":
            return ("const", -t[1])
    if isinstance(node, ast.Call) and len(node.args) == 1 and not node.keywords:
        f = node.func
        nm = f.attr if isinstance(f, ast.Attribute) else getattr(f, "id", None)
        if nm in ("min", "max") and isinstance(node.args[0], ast.Name) and node.args[0].id == var:
            return ("x",)  # np.min / np.max of a scalar is the scalar
    raise Unsupported(ast.dump(node)[:80])


def is_number_types(node):
    names = set()
    for n in ast.walk(node):
        if isinstance(n, ast.Name):
            names.add(n.id)
    if names == {"int"}:
        _RANGE_USED.append("isinstance-int")      # `isinstance(x, int)`: true of the integers the field is made for
        return True
    return names == {"int", "float"}


def cond(node, var):
    if isinstance(node, ast.BoolOp):
        cs = [cond(v, var) for v in node.values]
        op = "and" if isinstance(node.op, ast.And) else "or"
        out = cs[0]
        for c in cs[1:]:
            out = (op, out, c)
        return out
    if isinstance(node, ast.UnaryOp) and isinstance(node.op, ast.Not):
        return ("not", cond(node.operand, var))
    if isinstance(node, ast.Name) and node.id == var:
        return ("truthy",)
    if isinstance(node, ast.Constant) and isinstance(node.value, bool):
        return ("tt",) if node.value else ("ff",)
    if isinstance(node, ast.Call) and getattr(node.func, "id", None) == "isinstance" and len(node.args) == 2:
        if isinstance(node.args[0], ast.Name) and node.args[0].id == var:
            return ("isNumber",) if is_number_types(node.args[1]) else ("ff",)  # a number is no other class
        raise Unsupported("isinstance of something else")
    if isinstance(node, ast.Compare):
        if len(node.ops) == 1 and isinstance(node.ops[0], (ast.Is, ast.IsNot)):
            if isinstance(node.left, ast.Name) and node.left.id == var and isinstance(node.comparators[0], ast.Constant) \
                    and node.comparators[0].value is None:
                return ("notNone",) if isinstance(node.ops[0], ast.IsNot) else ("not", ("notNone",))
            raise Unsupported("is / is not")
        if len(node.ops) == 1 and isinstance(node.ops[0], (ast.In, ast.NotIn)):
            # `x in range(a, b)` / `x not in range(b)` with integer constants
            c = node.comparators[0]
            if isinstance(node.left, ast.Name) and node.left.id == var and isinstance(c, ast.Call) \
                    and getattr(c.func, "id", None) == "range" and 1 <= len(c.args) <= 2 and not c.keywords:
                bounds = [term(a, var) for a in c.args]
                if all(b[0] == "const" and b[1].denominator == 1 for b in bounds):
                    lo = bounds[0][1] if len(bounds) == 2 else Fraction(0)
                    hi = bounds[-1][1] - 1
                    _RANGE_USED.append(var)
                    inside = ("chain", ("const", lo), "le", ("x",), "le", ("const", hi))
                    return inside if isinstance(node.ops[0], ast.In) else ("not", inside)
            raise Unsupported("in / not in")
        ops = []
        for o in node.ops:
            if type(o) not in OPS:
                raise Unsupported(type(o).__name__)
            ops.append(OPS[type(o)])
        ts = [term(node.left, var)] + [term(c, var) for c in node.comparators]
        if len(ops) == 1:
            return ("cmp", ts[0], ops[0], ts[1])
        if len(ops) == 2:
            return ("chain", ts[0], ops[0], ts[1], ops[1], ts[2])
        raise Unsupported("comparison chain of length > 2")
    raise Unsupported(ast.dump(node)[:80])


def guards(stmts, ctx=()):
    """yield (list of (test, negated), ) for every `if` (with its enclosing tests) whose body raises directly"""
    for st in stmts:
        if isinstance(st, ast.If):
            here = ctx + ((st.test, False),)
            if any(isinstance(b, ast.Raise) for b in st.body):
                yield here
            yield from guards(st.body, here)
            if st.orelse:
                neg = ctx + ((st.test, True),)
                if any(isinstance(b, ast.Raise) for b in st.orelse):
                    yield neg
                yield from guards(st.orelse, neg)
        elif isinstance(st, (ast.With, ast.Try, ast.For, ast.While)):
            yield from guards(getattr(st, "body", []), ctx)


def guard_cond(fn, var):
    """OR of all guards of `fn` that talk about `var` only; returns (cond | None, opaque: bool)"""
    found = []
    opaque = False
    for chain in guards(fn.body):
        names = set()
        for t, _ in chain:
            names |= names_in(t)
        if names != {var}:
            continue
        try:
            c = None
            for t, neg in chain:
                ct = cond(t, var)
                if neg:
                    ct = ("not", ct)
                c = ct if c is None else ("and", c, ct)
            found.append(c)
        except Unsupported:
            opaque = True
    if not found:
        return None, opaque
    out = found[0]
    for c in found[1:]:
        out = ("or", out, c)
    return out, opaque


def setters_of(cls):
    out = {}
    for st in cls.body:
        if isinstance(st, ast.FunctionDef):
            for d in st.decorator_list:
                if isinstance(d, ast.Attribute) and d.attr == "setter" and isinstance(d.value, ast.Name):
                    args = [a.arg for a in st.args.args]
                    if len(args) >= 2:
                        out[d.value.id] = (st, args[1])
    return out


def extract():
    table, opaque = [], []
    for rel, cname in CLASSES:
        cls = find_class(parse(rel), cname)
        if cls is None:
            continue
        init = find_func(cls, "__init__")
        params = [a.arg for a in init.args.args[1:]] + [a.arg for a in init.args.kwonlyargs] if init else []
        setters = setters_of(cls)
        for f in params:
            del _RANGE_USED[:]
            cc, op1 = guard_cond(init, f)
            sc, op2 = (None, False)
            if f in setters:
                sc, op2 = guard_cond(setters[f][0], setters[f][1])
            int_only = bool(_RANGE_USED)
            if op1 or op2:
                opaque.append(f"{cname}.{f}")
                continue
            if cc is None and sc is None:
                continue  # not a validated field
            if f not in setters:
                opaque.append(f"{cname}.{f}:no-setter")
                continue
            table.append({"cls": cname, "field": f, "ctor": cc or ("ff",), "setter": sc or ("ff",), "int_only": int_only})
    return table, sorted(opaque)


def consts_of(c):
    out = []
    if isinstance(c, tuple):
        if c[0] == "const":
            out.append(c[1])
        for x in c[1:]:
            out += consts_of(x)
    return out


def lrat(q: Fraction) -> str:
    if q.denominator == 1:
        return f"({q.numerator} : Rat)"
    return f"(({q.numerator} : Rat) / {q.denominator})"


def lterm(t):
    return ".x" if t[0] == "x" else f"(.const {lrat(t[1])})"


def lcond(c) -> str:
    k = c[0]
    if k == "cmp":
        return f"(.cmp {lterm(c[1])} .{c[2]} {lterm(c[3])})"
    if k == "chain":
        return f"(.chain {lterm(c[1])} .{c[2]} {lterm(c[3])} .{c[4]} {lterm(c[5])})"
    if k == "not":
        return f"(.not {lcond(c[1])})"
    if k in ("and", "or"):
        return f"(.{k} {lcond(c[1])} {lcond(c[2])})"
    return f".{k}"


def cond_json(c):
    """JSON form sent to the Lean driver / used by the harness"""
    k = c[0]
    if k in ("x",):
        return ["x"]
    if k == "const":
        return ["const", str(c[1].numerator), str(c[1].denominator)]
    return [k] + [cond_json(x) if isinstance(x, tuple) else x for x in c[1:]]


def config_facts():
    mod = parse("pyxel/configuration/configuration.py")
    fn = find_func(mod, "_build_configuration")
    facts = {"modeKeys": [], "detKeys": [], "modeOp": "", "detOp": "", "modeDispatch": [], "detDispatch": [],
             "postInitModeOp": "", "postInitDetOp": ""}
    sym = {ast.NotEq: "!=", ast.Gt: ">", ast.Lt: "<", ast.GtE: ">=", ast.LtE: "<=", ast.Eq: "=="}

    def count_ops(func, names):
        res = {}
        for n in ast.walk(func):
            if isinstance(n, ast.If) and isinstance(n.test, ast.Compare) and isinstance(n.test.left, ast.Name) \
                    and n.test.left.id in names and len(n.test.ops) == 1 \
                    and isinstance(n.test.comparators[0], ast.Constant) and n.test.comparators[0].value == 1 \
                    and any(isinstance(b, ast.Raise) for b in n.body):
                res[n.test.left.id] = sym.get(type(n.test.ops[0]), "?")
        return res

    if fn is not None:
        for n in ast.walk(fn):
            if isinstance(n, (ast.Assign, ast.AnnAssign)):
                t = n.targets[0] if isinstance(n, ast.Assign) else n.target
                if isinstance(t, ast.Name) and isinstance(n.value, (ast.List, ast.Tuple)):
                    try:
                        vals = [ast.literal_eval(e) for e in n.value.elts]
                    except Exception:  # noqa: BLE001
                        continue
                    if t.id == "keys_running_mode":
                        facts["modeKeys"] = vals
                    elif t.id == "keys_detectors":
                        facts["detKeys"] = vals
        ops = count_ops(fn, {"num_running_modes", "num_detector", "num_detectors"})
        facts["modeOp"] = ops.get("num_running_modes", "")
        facts["detOp"] = ops.get("num_detector", ops.get("num_detectors", ""))

        def dispatch(first_key_options):
            for st in fn.body:
                if isinstance(st, ast.If):
                    chain, cur = [], st
                    while isinstance(cur, ast.If):
                        t = cur.test
                        if isinstance(t, ast.Compare) and len(t.ops) == 1 and isinstance(t.ops[0], ast.In) \
                                and isinstance(t.left, ast.Constant) and isinstance(t.comparators[0], ast.Name):
                            chain.append(t.left.value)
                        else:
                            chain = []
                            break
                        cur = cur.orelse[0] if len(cur.orelse) == 1 and isinstance(cur.orelse[0], ast.If) else None
                    if chain and chain[0] in first_key_options:
                        return chain
            return []

        facts["modeDispatch"] = dispatch({"exposure", "observation", "calibration"})
        facts["detDispatch"] = dispatch({"ccd_detector", "cmos_detector", "mkid_detector", "apd_detector"})
    post = find_func(find_class(mod, "Configuration"), "__post_init__")
    if post is not None:
        ops = count_ops(post, {"num_running_modes", "num_detectors", "num_detector"})
        facts["postInitModeOp"] = ops.get("num_running_modes", "")
        facts["postInitDetOp"] = ops.get("num_detectors", ops.get("num_detector", ""))
    return facts


def sweep_uses_setter() -> bool:
    fn = find_func(find_class(parse("pyxel/pipelines/processor.py"), "Processor"), "set")
    cnp = find_func(parse("pyxel/observation/misc.py"), "create_new_processor")
    if fn is None or cnp is None:
        return False

    def calls(node, name):
        for n in ast.walk(node):
            if isinstance(n, ast.Call):
                f = n.func
                if (f.attr if isinstance(f, ast.Attribute) else getattr(f, "id", None)) == name:
                    return True
        return False

    return calls(fn, "setattr") and calls(cnp, "set")


def gen() -> str:
    table, opaque = extract()
    facts = config_facts()
    rows = ",\n  ".join(
        f"⟨{lstr(e['cls'])}, {lstr(e['field'])}, {lcond(e['ctor'])}, {lcond(e['setter'])}⟩" for e in table
    )
    return (
        TYPES +
        f"def table : List Entry := [\n  {rows}]\n"
        "def intOnlyFields : List (String × String) := ["
        + ", ".join(f"({lstr(e['cls'])}, {lstr(e['field'])})" for e in table if e.get("int_only")) + "]\n"
        f"def opaqueFields : List String := {llist(opaque)}\n"
        f"def modeKeys : List String := {llist(facts['modeKeys'])}\n"
        f"def detKeys : List String := {llist(facts['detKeys'])}\n"
        f"def modeOp : String := {lstr(facts['modeOp'])}\n"
        f"def detOp : String := {lstr(facts['detOp'])}\n"
        f"def postInitModeOp : String := {lstr(facts['postInitModeOp'])}\n"
        f"def postInitDetOp : String := {lstr(facts['postInitDetOp'])}\n"
        f"def modeDispatch : List String := {llist(facts['modeDispatch'])}\n"
        f"def detDispatch : List String := {llist(facts['detDispatch'])}\n"
        f"def sweepUsesSetter : Bool := {lbool(sweep_uses_setter())}"
    )
