"""C19 tables read from today's source (ast):
  * the `exist_ok` / `parents` constants of the `mkdir` call in `create_output_directory`, whether the
    `except FileExistsError` branch increments the counter and whether the loop is `while True`;
  * the existence discipline of every writer in pyxel/outputs/utils.py: `write_to_*` (skip when the file
    exists and not overwrite), `to_*` (raise FileExistsError / pass overwrite=False to the library, or
    plain overwrite);
  * the default of `overwrite` in `save_to_files` and whether the exposure call site overrides it;
  * whether `apply_run_number` formats `run_number + 1`;
  * the literal parts of the two f-strings of `Outputs.build_filenames`."""
import ast

from extract import find_class, find_func, lbool, llist, parse

FALLBACK = ("def mkdirExistOk : Bool := true\ndef retryIncrementsCounter : Bool := false\n"
            "def skippingWriters : List String := []\ndef refusingWriters : List String := []\n"
            "def overwritingWriters : List String := []\ndef saveToFilesOverwrites : Bool := true\n"
            "def runNumberPlusOne : Bool := false\ndef plainNameParts : List String := []\n"
            "def suffixedNameParts : List String := []\n"
            "def autoNumberSortsNumbers : Bool := false")


def _kw(call: ast.Call, name: str):
    for k in call.keywords:
        if k.arg == name and isinstance(k.value, ast.Constant):
            return k.value.value
    return None


def gen() -> str:
    exist_ok = True
    increments = False
    mod_o = parse("pyxel/outputs/outputs.py")
    f = find_func(mod_o, "create_output_directory")
    if f is not None:
        for n in ast.walk(f):
            if isinstance(n, ast.Call) and isinstance(n.func, ast.Attribute) and n.func.attr == "mkdir":
                v = _kw(n, "exist_ok")
                exist_ok = bool(v) if v is not None else False  # pathlib default is False
        loops = [n for n in ast.walk(f) if isinstance(n, ast.While)]
        for lp in loops:
            forever = isinstance(lp.test, ast.Constant) and lp.test.value is True
            for h in ast.walk(lp):
                if isinstance(h, ast.ExceptHandler) and isinstance(h.type, ast.Name) and h.type.id == "FileExistsError":
                    aug = any(isinstance(x, ast.AugAssign) and isinstance(x.op, ast.Add) for x in ast.walk(h))
                    cont = any(isinstance(x, ast.Continue) for x in ast.walk(h))
                    increments = forever and aug and cont
    mod_u = parse("pyxel/outputs/utils.py")
    skipping, refusing, overwriting = [], [], []
    if mod_u is not None:
        for fn in mod_u.body:
            if not isinstance(fn, ast.FunctionDef):
                continue
            if fn.name.startswith("write_to_"):
                # `if filename.exists() and not overwrite: ... return`
                ok = False
                for n in ast.walk(fn):
                    if isinstance(n, ast.If) and isinstance(n.test, ast.BoolOp) and isinstance(n.test.op, ast.And):
                        txt = ast.unparse(n.test)
                        if ".exists()" in txt and "not overwrite" in txt and any(isinstance(x, ast.Return) for x in n.body):
                            ok = True
                (skipping if ok else overwriting).append(fn.name)
            elif fn.name in ("to_fits", "to_npy", "to_txt", "to_csv", "to_png", "to_jpg", "to_hdf"):
                raises = any(isinstance(n, ast.Raise) and "FileExistsError" in ast.unparse(n) for n in ast.walk(fn))
                lib_refuses = any(isinstance(n, ast.Call) and _kw(n, "overwrite") is False for n in ast.walk(fn))
                (refusing if (raises or lib_refuses) else overwriting).append(fn.name)
    stf_over = True
    f = find_func(mod_u, "save_to_files")
    if f is not None:
        names = [a.arg for a in f.args.args]
        defaults = dict(zip(names[len(names) - len(f.args.defaults):], f.args.defaults))
        d = defaults.get("overwrite")
        default_false = isinstance(d, ast.Constant) and d.value is False
        passes = False
        for rel in ("pyxel/exposure/exposure.py", "pyxel/observation/observation.py", "pyxel/observation/observation_dask.py"):
            m = parse(rel)
            if m is None:
                continue
            for n in ast.walk(m):
                if isinstance(n, ast.Call) and getattr(n.func, "id", None) == "save_to_files":
                    if any(k.arg == "overwrite" and not (isinstance(k.value, ast.Constant) and k.value.value is False) for k in n.keywords):
                        passes = True
        stf_over = not (default_false and not passes)
    plus_one = False
    f = find_func(mod_u, "apply_run_number")
    if f is not None:
        plus_one = any(isinstance(n, ast.BinOp) and isinstance(n.op, ast.Add) and ast.unparse(n) == "run_number + 1" for n in ast.walk(f))
    # automatic numbering: `sorted(get_number(d) for d in dir_list)` — the *numbers* are sorted, not the names
    sorts_numbers = False
    if f is not None:
        for n in ast.walk(f):
            if isinstance(n, ast.Call) and getattr(n.func, "id", None) == "sorted" and n.args:
                a0 = n.args[0]
                if isinstance(a0, (ast.GeneratorExp, ast.ListComp)) and isinstance(a0.elt, ast.Call) and getattr(a0.elt.func, "id", None) == "get_number":
                    sorts_numbers = True
    plain, suffixed = [], []
    cls = find_class(mod_o, "Outputs")
    f = find_func(cls, "build_filenames")
    if f is not None:
        for n in ast.walk(f):
            if isinstance(n, ast.JoinedStr):
                parts = [v.value if isinstance(v, ast.Constant) else "{" + ast.unparse(v.value) + "}" for v in n.values]
                if any("filename_suffix" in p_ for p_ in parts):
                    suffixed = parts
                else:
                    plain = parts
    return (
        f"def mkdirExistOk : Bool := {lbool(exist_ok)}\n"
        f"def retryIncrementsCounter : Bool := {lbool(increments)}\n"
        f"def skippingWriters : List String := {llist(sorted(skipping))}\n"
        f"def refusingWriters : List String := {llist(sorted(refusing))}\n"
        f"def overwritingWriters : List String := {llist(sorted(overwriting))}\n"
        f"def saveToFilesOverwrites : Bool := {lbool(stf_over)}\n"
        f"def runNumberPlusOne : Bool := {lbool(plus_one)}\n"
        f"def plainNameParts : List String := {llist(plain)}\n"
        f"def suffixedNameParts : List String := {llist(suffixed)}\n"
        f"def autoNumberSortsNumbers : Bool := {lbool(sorts_numbers)}"
    )
