"""C19 tables, obtained by *running* today's output code in a scratch folder (`extract.run_in_repo`), through public
entry points, observing effects on disk only:

  observedDirs        : (names already in the parent folder, directories obtained by consecutive starts within one
                        second) — `Outputs.create_output_folder()` with the clock fixed
  observedNames       : (mode, run, bucket, format, file name) — `Outputs.build_filenames` (exposure: no suffix; dask
                        observation: flat index) and `Outputs.save_to_file(processor, run_number=…)` (sequential observation)
  observedOnExisting  : (entry point, format, what happened to a file that already existed under the target name):
                        "skip" (untouched, no error), "refuse" (untouched, error), "overwrite" (content replaced)
  observedAutoNumbers : (numbers of the files present, number `apply_run_number` gives next without a run number)
"""
from extract import llist, lstr, run_in_repo

FALLBACK = ("def observedDirs : List (List String × List String) := []\n"
            "def observedNames : List (String × Nat × String × String × String) := []\n"
            "def observedOnExisting : List (String × String × String) := []\n"
            "def observedAutoNumbers : List (List Nat × Nat) := []")

PROBE = r"""
import datetime as _dt, hashlib, json, os, sys, tempfile, types, warnings
warnings.filterwarnings("ignore")
from pathlib import Path
from unittest import mock
import numpy as np
import pyxel.outputs
from pyxel.outputs import ExposureOutputs, ObservationOutputs, apply_run_number
from pyxel.detectors import CCD, CCDGeometry, Characteristics, Environment
from pyxel.pipelines import DetectionPipeline, Processor


class FixedDT(_dt.datetime):
    @classmethod
    def now(cls, tz=None):
        return cls(2026, 1, 2, 3, 4, 5)


def fixed_clock():
    # wherever the output code took `datetime` from: the class, or the module
    patches = []
    for name, mod in list(sys.modules.items()):
        if not name.startswith("pyxel.outputs") or mod is None:
            continue
        for attr, val in list(vars(mod).items()):
            if val is _dt.datetime:
                patches.append(mock.patch.object(mod, attr, FixedDT))
            elif val is _dt:
                fake = types.SimpleNamespace(**{k: getattr(_dt, k) for k in dir(_dt) if not k.startswith("__")})
                fake.datetime = FixedDT
                patches.append(mock.patch.object(mod, attr, fake))
    return patches


STAMP = "20260102_030405"
tmp = tempfile.mkdtemp()
out = {"dirs": [], "names": [], "existing": [], "auto": []}

# 1. directories
patches = fixed_clock()
for p in patches:
    p.start()
try:
    for k, (pre, nstart) in enumerate([([], 3), ([("run_" + STAMP, "dir"), ("run_" + STAMP + "_1", "file")], 2),
                                      ([("run_" + STAMP + "_1", "dir")], 3)]):
        parent = os.path.join(tmp, f"d{k}")
        os.makedirs(parent)
        for name, kind in pre:
            if kind == "dir":
                os.makedirs(os.path.join(parent, name))
            else:
                open(os.path.join(parent, name), "w").close()
        got = []
        for _ in range(nstart):
            o = ExposureOutputs(output_folder=parent)
            o.create_output_folder()
            got.append(os.path.basename(str(o.current_output_folder)))
        ok = all(os.path.isdir(os.path.join(parent, g)) for g in got)
        out["dirs"].append([[n for n, _ in pre], got if ok else []])
finally:
    for p in patches:
        p.stop()

# a detector with every bucket filled, and its processor
det = CCD(geometry=CCDGeometry(row=4, col=5, total_thickness=40.0, pixel_vert_size=10.0, pixel_horz_size=10.0),
          environment=Environment(temperature=200.0),
          characteristics=Characteristics(quantum_efficiency=0.9, charge_to_volt_conversion=1e-6, pre_amplification=100.0,
                                          full_well_capacity=100000, adc_bit_resolution=16, adc_voltage_range=(0.0, 10.0)))
base = np.arange(20, dtype=float).reshape(4, 5)
det.photon.array = base + 1
det.pixel.array = base + 2
det.signal.array = base + 3
det.image.array = (base * 100 + 4).astype("uint16")
det.charge.add_charge_array(base + 5)
proc = Processor(detector=det, pipeline=DetectionPipeline())
SAVE = [{"detector.image.array": ["fits", "npy"]}, {"detector.pixel.array": ["npy"]}]
COMBOS = [("image", "fits"), ("image", "npy"), ("pixel", "npy")]

# 2. names
o = ObservationOutputs(output_folder=os.path.join(tmp, "n"), save_data_to_file=SAVE)
o.create_output_folder()
for mode, suffix, run in (("exposure", None, 0), ("parallel", 0, 0), ("parallel", 7, 7), ("parallel", 12, 12)):
    names = [str(x) for x in o.build_filenames(**({} if suffix is None else {"filename_suffix": suffix}))]
    for (b, f), name in zip(COMBOS, names):
        out["names"].append([mode, run, b, f, name])
for run in (0, 4, 10):
    tree = o.save_to_file(processor=proc, run_number=run)
    for b, f in COMBOS:
        fn = tree[b]["filename"]
        dim = [d for d in fn.dims][0]
        out["names"].append(["sequential", run, b, f, os.path.basename(str(fn.sel({dim: f}).values.item()))])


def sha(p):
    with open(p, "rb") as fh:
        return hashlib.sha1(fh.read()).hexdigest()


# 3. what happens to a file that exists under the target name
from pyxel.outputs import utils as U
for f in ("fits", "npy", "jpg", "jpeg"):
    folder = Path(os.path.join(tmp, "e_stf_" + f))
    folder.mkdir()
    target = folder / f"detector_image.{f}"
    target.write_bytes(b"somebody else's file")
    before = sha(target)
    try:
        U.save_to_files(folder=folder, processor=proc, filenames=[Path(f"detector_image.{f}")], header=None)
        err = False
    except Exception:
        err = True
    same = sha(target) == before
    out["existing"].append(["save_to_files", f, ("refuse" if err else "skip") if same else "overwrite"])
for f in ("fits", "npy", "png", "jpg", "jpeg", "txt"):
    oo = ObservationOutputs(output_folder=os.path.join(tmp, "e_stf2_" + f), save_data_to_file=[{"detector.image.array": [f]}])
    oo.create_output_folder()
    ext = {"jpeg": "jpeg"}.get(f, f)
    try:
        first = oo.save_to_file(processor=proc, run_number=0)
        fn = first["image"]["filename"]
        name = str(fn.values.ravel()[0])
        target = Path(oo.current_output_folder) / os.path.basename(name)
        target.write_bytes(b"somebody else's file")
        before = sha(target)
        try:
            oo.save_to_file(processor=proc, run_number=0)
            err = False
        except Exception:
            err = True
        same = sha(target) == before
        out["existing"].append(["save_to_file", f, ("refuse" if err else "skip") if same else "overwrite"])
    except Exception as e:
        out["existing"].append(["save_to_file", f, "unsupported:" + type(e).__name__])

# 4. automatic numbering
for k, present in enumerate([[], list(range(1, 10)), list(range(1, 11)), list(range(1, 13)), [3, 1, 7], [10], [9, 10, 11, 99, 100]]):
    folder = os.path.join(tmp, f"a{k}")
    os.makedirs(folder)
    for n in present:
        open(os.path.join(folder, f"detector_image_array_{n}.txt"), "w").close()
    nxt = apply_run_number(Path(folder) / "detector_image_array_?.txt", run_number=None)
    stem = Path(nxt).stem
    out["auto"].append([present, int(stem.rsplit("_", 1)[-1])])
print(json.dumps(out))
"""


def gen() -> str:
    res = run_in_repo(PROBE, timeout=300)
    if res is None:
        return "-- probe did not run\n" + FALLBACK
    dirs = ", ".join(f"({llist(pre)}, {llist(got)})" for pre, got in res["dirs"])
    names = ", ".join(f"({lstr(m)}, {int(r)}, {lstr(b)}, {lstr(f)}, {lstr(n)})" for m, r, b, f, n in res["names"])
    existing = ", ".join(f"({lstr(a)}, {lstr(b)}, {lstr(c)})" for a, b, c in res["existing"])
    auto = ", ".join("([" + ", ".join(str(int(x)) for x in pres) + f"], {int(nxt)})" for pres, nxt in res["auto"])
    return (
        f"def observedDirs : List (List String × List String) := [{dirs}]\n"
        f"def observedNames : List (String × Nat × String × String × String) := [{names}]\n"
        f"def observedOnExisting : List (String × String × String) := [{existing}]\n"
        f"def observedAutoNumbers : List (List Nat × Nat) := [{auto}]"
    )
