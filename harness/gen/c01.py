"""C01 tables: MODEL_GROUPS tuple, constructor keywords, and whether each group keyword is wired to
its own ModelGroup.  The wiring is read off the source text when it has the pinned form
(`self._g = ModelGroup(g, name="g") if g else None`; property g returns self._g); when the text has another form
(a refactoring) it is established by evaluating the class on the whole finite domain instead: for every keyword g,
`DetectionPipeline(g=[m])` must expose under attribute g a ModelGroup named g holding exactly m, and None under every
other keyword, and `DetectionPipeline()` must expose None everywhere."""
import ast

from extract import find_class, find_func, lbool, llist, parse, run_in_repo

WIRING_PROBE = r"""
import json
from pyxel.pipelines import DetectionPipeline, ModelFunction, ModelGroup
import inspect
params = [p for p in inspect.signature(DetectionPipeline.__init__).parameters if p != "self"]
ok = bool(params)
empty = DetectionPipeline()
ok = ok and all(getattr(empty, g) is None for g in params)
for g in params:
    m = ModelFunction(func="pyxel.models.photon_collection.illumination", name="probe_" + g, arguments={"level": 1.0})
    p = DetectionPipeline(**{g: [m]})
    grp = getattr(p, g)
    ok = ok and isinstance(grp, ModelGroup) and any(isinstance(v, str) and v == g for v in vars(grp).values()) and len(grp.models) == 1 and grp.models[0] is m
    ok = ok and all(getattr(p, h) is None for h in params if h != g)
print(json.dumps({"ok": bool(ok), "params": params, "groups": [str(g) for g in DetectionPipeline.MODEL_GROUPS]}))
"""

FALLBACK = "def modelGroups : List String := []\ndef initParams : List String := []\ndef groupAttrIsOwnField : Bool := false"


def gen() -> str:
    mod = parse("pyxel/pipelines/pipeline.py")
    cls = find_class(mod, "DetectionPipeline")
    groups: list[str] = []
    params: list[str] = []
    wired = False
    if cls is not None:
        for st in cls.body:
            tgt = None
            if isinstance(st, ast.AnnAssign) and isinstance(st.target, ast.Name):
                tgt, val = st.target.id, st.value
            elif isinstance(st, ast.Assign) and len(st.targets) == 1 and isinstance(st.targets[0], ast.Name):
                tgt, val = st.targets[0].id, st.value
            if tgt == "MODEL_GROUPS" and isinstance(val, (ast.Tuple, ast.List)):
                try:
                    groups = [ast.literal_eval(e) for e in val.elts]
                except Exception:
                    groups = []
        init = find_func(cls, "__init__")
        if init is not None:
            params = [a.arg for a in init.args.args[1:]] + [a.arg for a in init.args.kwonlyargs]
            # wiring: `self._g = ModelGroup(g, name="g") if g else None` and property g returns self._g
            assigns = {}
            for st in ast.walk(init):
                if isinstance(st, (ast.Assign, ast.AnnAssign)):
                    t = st.targets[0] if isinstance(st, ast.Assign) else st.target
                    v = st.value
                    if isinstance(t, ast.Attribute) and isinstance(t.value, ast.Name) and t.value.id == "self":
                        assigns[t.attr] = v
            ok = bool(params)
            for g in params:
                v = assigns.get("_" + g)
                good = (
                    isinstance(v, ast.IfExp)
                    and isinstance(v.test, ast.Name) and v.test.id == g
                    and isinstance(v.orelse, ast.Constant) and v.orelse.value is None
                    and isinstance(v.body, ast.Call) and getattr(v.body.func, "id", None) == "ModelGroup"
                    and len(v.body.args) >= 1 and isinstance(v.body.args[0], ast.Name) and v.body.args[0].id == g
                    and any(k.arg == "name" and isinstance(k.value, ast.Constant) and k.value.value == g for k in v.body.keywords)
                )
                prop = find_func(cls, g)
                good_prop = False
                if prop is not None:
                    rets = [n for n in ast.walk(prop) if isinstance(n, ast.Return)]
                    good_prop = (
                        len(rets) == 1 and isinstance(rets[0].value, ast.Attribute)
                        and rets[0].value.attr == "_" + g
                        and isinstance(rets[0].value.value, ast.Name) and rets[0].value.value.id == "self"
                    )
                ok = ok and good and good_prop
            wired = ok
    # the class itself is asked as well: it settles the tables when the text has another form than the pinned one
    # (MODEL_GROUPS built from parts, wiring through a helper, ...), and must agree with the text where both speak
    res = run_in_repo(WIRING_PROBE)
    if res:
        if not groups:
            groups = list(res.get("groups") or [])
        if not params:
            params = list(res.get("params") or [])
        if groups != list(res.get("groups") or []) or params != list(res.get("params") or []):
            groups, params, wired = [], [], False  # text and class disagree: nothing is claimed
        elif not wired:
            wired = bool(res.get("ok"))
    return (
        f"def modelGroups : List String := {llist(groups)}\n"
        f"def initParams : List String := {llist(params)}\n"
        f"def groupAttrIsOwnField : Bool := {lbool(wired)}"
    )


