"""Writes /verif/MANIFEST.json from the table below (kept valid at all times)."""
import json
from pathlib import Path

VERIF = Path(__file__).resolve().parent.parent

CLAIMED = {
    # pid: (technique, level text, level note, design_ref)
    "C01": (
        "Lean 4 theorems over a hand-written scheduler model (all pipelines, all step counts) + regenerated MODEL_GROUPS table + differential run of the real scheduler against the model",
        "Machine-checked proof (Lean 4 kernel) that the scheduler model runs exactly the enabled models, each once, in (physical group rank, user index) order with exactly their arguments, independently of YAML key order, step and debug flag, for every pipeline; the group tuple is re-extracted from pipeline.py on every run and proved equal to the statement's order; the model is tied to the code by running the real exposure scheduler on generated pipelines (YAML and Python construction, debug on/off, all 45 group pairs) and diffing traces.",
        "Trusted: Lean kernel + {propext, Classical.choice, Quot.sound}; extract.py; probe-based observation of ModelFunction.__call__; xarray/debug capture modelled as not calling models (checked dynamically through /intermediate node names).",
        "6/C01",
    ),
    "C04": (
        "Lean 4 theorems about the save/seed/restore discipline (all programs, all generators) and about the lock protocol (all thread schedules) + ast-extracted tables of every seeded model / seed plumbing + differential runs of the real generator, models and modes",
        "Machine-checked proof that any program whose draws are inside seeded regions restores the process-wide generator exactly (also when a model fails) and yields draws independent of the prior state, for every nesting; and that with the re-entrant lock every schedule of any number of threads keeps each seeded region deterministic and the generator restored. Tables regenerated from today's source (every model function with a seed parameter draws only under set_random_seed(seed); nobody else seeds the global generator; every mode hands pipeline_seed down; shape of set_random_seed) are re-proved on every run. Tie to code: random programs on the real numpy generator vs the model on a symbolic generator; every seeded model function and every running mode run twice from different prior states, bitwise comparison; real overlapping threads.",
        "Partial for threads: atomicity of single numpy calls under the GIL and absence of concurrent UNSEEDED draws are assumed, OS scheduling is sampled not controlled. Static call graph is by simple name. Models needing data files (cosmix, nghxrg, qe map) are covered by the static table only.",
        "6/C04",
    ),
}

ALL = [f"C{i:02d}" for i in range(1, 21)]


def main():
    checks = []
    for pid, (tech, text, note, ref) in CLAIMED.items():
        checks.append({
            "property_id": pid,
            "quick_cmd": f"./check {pid} quick",
            "thorough_cmd": f"./check {pid} thorough",
            "evidence_file": f"evidence/{pid}.json",
            "replay_cmd_template": f"./check {pid} --replay {{path}}",
            "engine": "lean4-proof+correspondence",
            "level_claimed": {"category": "proof", "text": text, "design_ref": "DESIGN.md section " + ref},
            "level_note": note,
            "technique": tech,
        })
    na = [{"property_id": p, "reason": "check not built yet in this round (an executable model exists in DESIGN.md section 6; no claim is made until the theorems and the correspondence run)"} for p in ALL if p not in CLAIMED]
    m = {
        "version": 1,
        "setup_cmd": "/venv/bin/python harness/setup.py",
        "hooks": {
            "guard": "PYXEL_VERIF",
            "enable": "no source hooks: observation is through probe model functions in /verif/harness/probes.py referenced by dotted path; checks set PYXEL_VERIF=1 but /repo does not read it",
            "baseline_off_cmd": "cd /repo && /venv/bin/python -m pytest -ra -q -p no:cacheprovider --timeout=900 --continue-on-collection-errors",
            "source_commits": [],
            "add_only": True,
        },
        "engines": [{
            "name": "lean4-proof+correspondence",
            "path": "lean/ (PyxelModel library) + harness/ (extract.py translator, cXX.py correspondence drivers)",
            "serves_properties": sorted(CLAIMED),
            "kind_free_text": "Lean 4.33 theorems about hand-written executable models; tables regenerated from /repo each run; differential correspondence real-pyxel vs model through a JSON line protocol",
        }],
        "checks": checks,
        "not_applicable": na,
        "notes": "See DESIGN.md. Genuine defects repaired in /repo are listed in known_findings.jsonl (kind=fixed).",
    }
    (VERIF / "MANIFEST.json").write_text(json.dumps(m, indent=1) + "\n")


if __name__ == "__main__":
    main()
