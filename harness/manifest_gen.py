"""Writes /verif/MANIFEST.json from the table below (kept valid at all times)."""
import json
from pathlib import Path

VERIF = Path(__file__).resolve().parent.parent

CLAIMED = {k: (v["technique"], v["text"], v["note"], v["design_ref"]) for k, v in json.loads((VERIF / "harness" / "claims.json").read_text()).items()}

ALL = [f"C{i:02d}" for i in range(1, 21)]


def main():
    checks = []
    for pid, (tech, text, note, ref) in sorted(CLAIMED.items()):
        checks.append({
            "property_id": pid,
            "quick_cmd": f"./check {pid} quick",
            "thorough_cmd": f"./check {pid} thorough",
            "evidence_file": f"evidence/{pid}.json",
            "replay_cmd_template": f"./check {pid} --replay {{path}}",
            "engine": "lean4-proof+correspondence",
            "level_claimed": {"category": "proof", "text": text, "design_ref": "DESIGN.md section " + ref},
            "level_note": note,
            "technique": tech,
        })
    na = [{"property_id": p, "reason": "check not built yet in this round (an executable model exists in DESIGN.md section 6; no claim is made until the theorems and the correspondence run)"} for p in ALL if p not in CLAIMED]
    m = {
        "version": 1,
        "setup_cmd": "/venv/bin/python harness/setup.py",
        "hooks": {
            "guard": "PYXEL_VERIF",
            "enable": "no source hooks: observation is through probe model functions in /verif/harness/probes.py referenced by dotted path; checks set PYXEL_VERIF=1 but /repo does not read it",
            "baseline_off_cmd": "cd /repo && /venv/bin/python -m pytest -ra -q -p no:cacheprovider --timeout=900 --continue-on-collection-errors",
            "source_commits": [],
            "add_only": True,
        },
        "engines": [{
            "name": "lean4-proof+correspondence",
            "path": "lean/ (PyxelModel library) + harness/ (extract.py translator, cXX.py correspondence drivers)",
            "serves_properties": sorted(CLAIMED),
            "kind_free_text": "Lean 4.33 theorems about hand-written executable models; tables regenerated from /repo each run; differential correspondence real-pyxel vs model through a JSON line protocol",
        }],
        "checks": checks,
        "not_applicable": na,
        "notes": "See DESIGN.md. Genuine defects repaired in /repo are listed in known_findings.jsonl (kind=fixed).",
    }
    (VERIF / "MANIFEST.json").write_text(json.dumps(m, indent=1) + "\n")


if __name__ == "__main__":
    main()
