"""Probe model functions of the observation properties (C05 / C07 / C06), referenced from generated
pipelines by dotted path (`obsprobes.<name>`).  Importable from dask worker processes because
`/verif/harness` is on PYTHONPATH (common.ensure_repo_on_path).

Every probe writes what it *received* into the pixel bucket, one pixel per probe (`slot`), so that the
result of a run is a fingerprint vector of the whole assignment that was really applied:

* `stamp`  : pixel[slot] = 48-bit hash of the canonical text of its keyword arguments (exact in a double)
* `fields` : pixel[slot + i] = value of the i-th named detector field (exact double)
* `draw`   : pixel[slot] = one draw of the process-wide numpy generator (seeded-stochastic pipelines)
* `memory` : pixel[slot] = how many times this detector object (or a copy of its `_memory`) was used before
* `mutate` : appends to / overwrites its own list and dict arguments after stamping them

LOG (per process) receives one record per call; harnesses clear it before a run.
"""

from __future__ import annotations

import hashlib
import json
import operator
import threading
import time

import numpy as np

LOG: list = []


def reset() -> None:
    LOG.clear()


def canon_val(v):
    """canonical JSON-able form: tuples and arrays as lists, numbers by exact value (1 == 1.0)."""
    if isinstance(v, np.generic):
        v = v.item()
    if isinstance(v, np.ndarray):
        return [canon_val(x) for x in v.tolist()]
    if isinstance(v, (list, tuple)):
        return [canon_val(x) for x in v]
    if isinstance(v, dict):
        return {str(k): canon_val(x) for k, x in sorted(v.items(), key=lambda kv: str(kv[0]))}
    if isinstance(v, bool) or v is None or isinstance(v, str):
        return v
    if isinstance(v, int):
        return {"f": [v, 1]}
    if isinstance(v, float):
        if v != v or v in (float("inf"), float("-inf")):
            return {"f": repr(v)}
        from fractions import Fraction

        f = Fraction(v)
        return {"f": [f.numerator, f.denominator]}
    return {"repr": repr(v)}


def canon_text(v) -> str:
    return json.dumps(canon_val(v), sort_keys=True, separators=(",", ":"))


def fingerprint(kwargs: dict) -> float:
    """48-bit integer (exact as float64) of the canonical text of a kwargs dict"""
    h = hashlib.sha1(canon_text(kwargs).encode()).hexdigest()
    return float(int(h[:12], 16))


def _put(detector, slot: int, value: float) -> None:
    arr = np.array(detector.pixel.array, dtype=float)
    arr.flat[slot] = value
    detector.pixel.array = arr


def stamp(detector, slot: int = 0, delay_ms: float = 0.0, **kwargs) -> None:
    """pixel[slot] = fingerprint(kwargs); optional data-dependent delay (C07: perturb completion order)"""
    fp = fingerprint(kwargs)
    if delay_ms:
        time.sleep((int(fp) % 7) * float(delay_ms) / 1000.0)
    LOG.append(("stamp", int(slot), canon_text(kwargs), fp, threading.get_ident()))
    _put(detector, slot, fp)


def fields(detector, slot: int = 0, names=()) -> None:
    """pixel[slot+i] = float(detector.<names[i]>)"""
    vals = []
    for i, name in enumerate(names):
        v = float(operator.attrgetter(name)(detector))
        vals.append(v)
        _put(detector, slot + i, v)
    LOG.append(("fields", int(slot), canon_text(list(names)), vals, threading.get_ident()))


def draw(detector, slot: int = 0, delay_ms: float = 0.0, n: int = 1, seed=None) -> None:
    """pixel[slot] = sum of n draws of numpy's process-wide generator (integers < 2**20, exact); with `seed` the
    draws happen inside `set_random_seed(seed)` like a seeded pyxel model, else under the run's pipeline seed"""
    from pyxel.util import set_random_seed

    tot = 0
    with set_random_seed(seed):
        for _ in range(int(n)):
            tot += int(np.random.randint(0, 2**20))
            if delay_ms:
                time.sleep(float(delay_ms) / 1000.0)
    LOG.append(("draw", int(slot), "", float(tot), threading.get_ident()))
    _put(detector, slot, float(tot))


def det_memory(detector) -> dict:
    """the dictionary in which models keep state on the detector between calls (`Detector._memory`, the documented
    place); if a tree names it differently, a dictionary of our own stored on the detector object (copied with it)"""
    mem = getattr(detector, "_memory", None)
    if not isinstance(mem, dict):
        mem = vars(detector).setdefault("_verif_memory", {})
    return mem


def memory(detector, slot: int = 0) -> None:
    """keeps a counter in the detector's memory: pixel[slot] = number of earlier uses seen by this object"""
    mem = det_memory(detector)
    seen = int(mem.get("obsprobes_seen", 0))
    mem["obsprobes_seen"] = seen + 1
    LOG.append(("memory", int(slot), seen))
    _put(detector, slot, float(seen))


def mutate(detector, slot: int = 0, bag=None, table=None, **kwargs) -> None:
    """stamps (bag, table, kwargs) as received, then mutates its own list / dict arguments in place"""
    fp = fingerprint({"bag": bag, "table": table, **kwargs})
    LOG.append(("mutate", int(slot), canon_text({"bag": bag, "table": table, **kwargs}), fp))
    _put(detector, slot, fp)
    if isinstance(bag, list):
        bag.append(len(bag))
    elif isinstance(bag, np.ndarray) and bag.flags.writeable:
        bag *= 2.0  # in-place change of an array argument (calibration hands vector variables over as arrays)
    if isinstance(table, dict):
        table["touched"] = int(table.get("touched", 0)) + 1


def fail_if(detector, slot: int = 0, bad=None, value=None) -> None:
    """raises ValueError when `value == bad` (C06: failing runs interleaved with good ones)"""
    LOG.append(("fail_if", int(slot), canon_text(value)))
    if bad is not None and canon_text(value) == canon_text(bad):
        raise ValueError(f"obsprobes.fail_if: value {value!r} is the failing one")
    _put(detector, slot, fingerprint({"value": value}))


def level(detector, level: float = 0.0, tilt: float = 0.0, delay_ms: float = 0.0, noise: float = 0.0,
          slow=(), slow_ms: float = 0.0) -> None:
    """calibration probe: pixel = level + tilt·column (+ noise·uniform draws of the process-wide generator);
    data-dependent delay to perturb the completion order of the candidates; the candidates listed in `slow`
    ([level, tilt] pairs, e.g. the initial population of the first-created island) sleep `slow_ms` more"""
    LOG.append(("level", float(level), float(tilt), 0.0, threading.get_ident()))
    if slow_ms and any(float(level) == float(a) and float(tilt) == float(b) for a, b in slow):
        time.sleep(float(slow_ms) / 1000.0)
    rows, cols = detector.geometry.shape
    arr = float(level) + float(tilt) * np.arange(cols, dtype=float)[None, :] * np.ones((rows, 1))
    if noise:
        arr = arr + float(noise) * np.random.random((rows, cols))
    if delay_ms:
        time.sleep((int(abs(float(level)) * 1000) % 5) * float(delay_ms) / 1000.0)
    detector.pixel.array = arr


def adc_image(detector, slot: int = 0, value: int = 0) -> None:
    """writes an image whose dtype follows the detector's ADC resolution (like `simple_adc`): every pixel = value, saturated at
    the largest code of that dtype"""
    from pyxel.util import get_dtype

    dtype = get_dtype(detector.characteristics.adc_bit_resolution)
    LOG.append(("adc_image", int(slot), str(np.dtype(dtype)), float(value), threading.get_ident()))
    detector.image.array = np.full(detector.geometry.shape, min(int(value), int(np.iinfo(dtype).max)), dtype=dtype)


def photon_to_pixel(detector) -> None:
    """pixel = the photon bucket as it is (makes what an upstream built-in photon model produced visible in `pixel`)"""
    detector.pixel.array = np.array(detector.photon.array, dtype=float)


def clock(detector, slot: int = 0, delay_ms: float = 0.0) -> None:
    """pixel[slot] = a number made of the readout cursor the model sees: pipeline_count·10⁶ + time_step·10³ + time
    (dyadic times: exact); sleeps (data-dependent) between the scheduler setting the cursor and the model reading it"""
    if delay_ms:
        time.sleep(((int(detector.geometry.row) + int(slot) + len(LOG)) % 4) * float(delay_ms) / 1000.0)
    v = float(detector.pipeline_count) * 1e6 + float(detector.time_step) * 1e3 + float(detector.time)
    LOG.append(("clock", int(slot), "", v, threading.get_ident()))
    _put(detector, slot, v)


def pause(detector, ms: float = 1.0) -> None:
    """sleeps: widens the window between a processor being configured and its later models reading their arguments"""
    time.sleep(float(ms) / 1000.0)
