"""Rewrites the auto-generated tables of DESIGN.md (between BEGIN/END markers) from
known_findings.jsonl, seeded/*/meta.json and the current evidence files."""
import json, re, glob
from pathlib import Path

V = Path(__file__).resolve().parent.parent
design = (V / "DESIGN.md").read_text()


def block(name: str, body: str) -> None:
    global design
    b, e = f"<!-- BEGIN {name} -->", f"<!-- END {name} -->"
    new = f"{b}\n{body.rstrip()}\n{e}"
    if b in design:
        design = re.sub(re.escape(b) + r".*?" + re.escape(e), lambda m: new, design, flags=re.S)
    else:
        design = design.rstrip() + "\n\n" + new + "\n"


# fixes
rows = ["| property | commit | what failed before the repair | proposed by |", "|---|---|---|---|"]
for line in (V / "known_findings.jsonl").read_text().splitlines():
    line = line.strip()
    if not line or line.startswith("#"):
        continue
    k = json.loads(line)
    if k["kind"] == "fixed":
        what = k["what"].split(" ", 3)[3] if k["what"].startswith("fixed:") else k["what"]
        rows.append(f"| {k['property']} | `{k['commit']}` | {what} | {k.get('proposed_fix', 'coordinator')} |")
known = [json.loads(l) for l in (V / "known_findings.jsonl").read_text().splitlines() if l.strip() and not l.startswith("#") and json.loads(l)["kind"] == "known"]
body = "\n".join(rows)
if known:
    body += "\n\nRecorded, not repaired (`kind=known`):\n\n" + "\n".join(f"* {k['property']} `{k['key']}` — {k['what']}" for k in known)
else:
    body += "\n\nNo finding is recorded as `known` (unrepaired): every genuine defect exhibited so far was small enough to repair."
block("fixes", body)

# seeded
rows = ["| seeded id | property | what it breaks | needs, to manifest | outcome |", "|---|---|---|---|---|"]
for f in sorted(glob.glob(str(V / "seeded" / "*" / "meta.json"))):
    m = json.load(open(f))
    sid = Path(f).parent.name
    rows.append(f"| {sid} | {m['property']} | {m['breaks']} | {m['needs']} | {m['detected_by']} |")
block("seeded", "\n".join(rows))

# evidence summary
rows = ["| property | theorems (discharged/obligations) | correspondence cases (distinct non-trivial) | quick wall s |", "|---|---|---|---|"]
for f in sorted(glob.glob(str(V / "evidence" / "C*.json"))):
    e = json.load(open(f))
    c = e["coverage"]
    rows.append(f"| {e['property_id']} | {c.get('discharged')}/{c.get('obligations')} | {c.get('evaluations')} ({c.get('distinct_nontrivial')}) | {e['wall_s']} |")
block("evidence", "\n".join(rows))

# per-property as-built summary
claims = json.loads((V / "harness" / "claims.json").read_text())
parts = []
for pid in sorted(claims):
    c = claims[pid]
    thms = []
    ef = V / "evidence" / f"{pid}.json"
    if ef.exists():
        thms = sorted(json.load(open(ef))["coverage"].get("theorems", {}))
    parts.append(
        f"#### {pid}\n\n*Method.* {c['technique']}.\n\n*What is shown.* {c['text']}\n\n"
        f"*Assumed / limits.* {c['note']}\n\n*Theorems audited on the last run ({len(thms)}).* "
        + ", ".join(f"`{t}`" for t in thms) + "\n"
    )
block("perproperty", "\n".join(parts))

# harmless rewrites
rows = ["| id | files rewritten | checks run against it (exit codes, in time order) |", "|---|---|---|"]
for f in sorted(glob.glob(str(V / "harmless" / "*" / "meta.json"))):
    m = json.loads(Path(f).read_text())
    hid = Path(f).parent.name
    runs = ", ".join(f"{p}: {'→'.join(str(x) for x in v)}" for p, v in m.get("runs", {}).items())
    rows.append(f"| {hid} | {', '.join(x.replace('pyxel/', '') for x in m['files'])} | {runs} |")
block("harmless", "\n".join(rows))

# seed regression
rp = V / "seeded" / "regression.json"
if rp.exists():
    rr = json.loads(rp.read_text())
    app = [r for r in rr if r["applies"]]
    conc = [r for r in app if r["concrete"]]
    nfi = [r for r in app if not r["concrete"] and r["nfi"]]
    miss = [r for r in app if not r["concrete"] and not r["nfi"]]
    stale = [r for r in rr if not r["applies"]]
    body = (f"Last re-evaluation of every seeded defect against the checks as they are now (`harness/seed_regress.sh`, quick tier, seed 0): "
            f"{len(rr)} seeds — {len(conc)} caught with a concrete VIOLATION, {len(nfi)} reported as `no-failing-input-found` only "
            f"({', '.join(r['id'] for r in nfi) or 'none'}), {len(miss)} not reported ({', '.join(r['id'] for r in miss) or 'none'}), "
            f"{len(stale)} whose patch no longer applies because a later `fix:` commit rewrote the same lines "
            f"({', '.join(r['id'] for r in stale) or 'none'}; each was caught when it was seeded).")
    block("seedregress", body)

# per-round summary of the seeded defects
rounds = {1: (1, 2), 2: (3, 4), 3: (5, 6), 4: (7, 8), 5: (9, 10), 6: (11, 12)}
rows = ["| round | seeded | caught at once (concrete) | first only `no-failing-input-found` / wrong reason | missed at first | after strengthening |", "|---|---|---|---|---|---|"]
allm = {}
for f in sorted(glob.glob(str(V / "seeded" / "*" / "meta.json"))):
    allm[Path(f).parent.name] = json.loads(Path(f).read_text())
for r, ns in rounds.items():
    ids = [i for i in allm if int(i.split("-")[1]) in ns]
    missed = [i for i in ids if allm[i]["detected_by"].lstrip().upper().startswith("MISSED")]
    weak = [i for i in ids if i not in missed and re.match(r"\s*(first only|only as|first reported|reported as broken|reported, but)", allm[i]["detected_by"])]
    rows.append(f"| {r} | {len(ids)} | {len(ids) - len(missed) - len(weak)} | {len(weak)} | {len(missed)} | all concrete except those listed in the regression line below |")
block("seedrounds", "\n".join(rows))

(V / "DESIGN.md").write_text(design)
print("DESIGN.md tables rewritten")
