"""C17 — splitting an exposure into more readouts does not change collected charge.

obligations: lean/PyxelModel/Props/C17.lean (all pipelines of flux models, all rates / scales / QE, all schedules,
             over an arbitrary field; reuses C02's `steps_sum`)
tie to code : (a) every listed model function of /repo is called on a real detector at several time steps / time
              scales and compared with `rate·Δt/scale` (linearity against the *code*, per model and argument
              combination); (b) whole pipelines of the real models are run through `pyxel.run_mode` for several
              partitions of one exposure interval (1–12 readouts), non-destructive and destructive, and for the
              same schedule with every interval scaled; the pixel slices are compared with the Lean model and the
              statement is evaluated on them directly (`property_predicate`).
"""

from __future__ import annotations

import json
import math
import os
import shutil
import sys
import tempfile
from fractions import Fraction

import common
from common import LeanDriver, run_check

REL = 1e-12
PHOTON_FUNCS = {
    "illumination": "pyxel.models.photon_collection.illumination",
    "load_image": "pyxel.models.photon_collection.load_image",
    "stripe_pattern": "pyxel.models.photon_collection.stripe_pattern",
}
CHARGE_FUNCS = {
    "load_charge": "pyxel.models.charge_generation.load_charge",
    "dark_current": "pyxel.models.charge_generation.dark_current",
}
SCALES = [0.25, 0.5, 1.0, 1.0, 2.0, 4.0, 8.0]


# ------------------------------------------------------------------ generator
def gen_model(rng, kind, rows, cols):
    """-> {"kind", "args" (JSON-able, files as {"npy": [[...]]}), "dyadic": bool}"""
    ts = rng.choice(SCALES)
    if kind == "illumination":
        opt = rng.choice(["uniform", "uniform", "rectangular", "elliptic"])
        args = {"level": rng.randrange(1, 400) / 4.0, "option": opt, "time_scale": ts}
        if opt != "uniform":
            args["object_size"] = [rng.randrange(1, rows + 2), rng.randrange(1, cols + 2)]
            # centres near the lower / left border make the object cross it
            args["object_center"] = [rng.choice([0, 0, 1, rng.randrange(0, rows)]), rng.choice([0, 1, rng.randrange(0, cols)])]
        return {"kind": kind, "args": args, "dyadic": True, "seq_as": rng.choice(["list", "list", "tuple"])}
    if kind == "load_image":
        r2, c2 = rng.choice([(rows, cols), (rows, cols), (rows + 2, cols + 1), (max(1, rows - 1), cols)])
        img = [[float(rng.randrange(0, 500)) for _ in range(c2)] for _ in range(r2)]
        args = {"image_file": {"npy": img}, "multiplier": rng.choice([1.0, 0.5, 2.0, 0.25, 3.0]), "time_scale": ts}
        dy = True
        q = rng.random()
        if q < 0.3:
            args["align"] = rng.choice(["center", "top_left", "top_right", "bottom_left", "bottom_right"])
        elif q < 0.5 and r2 >= rows and c2 >= cols:
            args["position"] = [rng.randrange(0, 2), rng.randrange(0, 2)]
        if rng.random() < 0.2:
            args["convert_to_photons"] = True
            args["bit_resolution"] = rng.choice([8, 12, 16])
            dy = False  # division by the system gain
        return {"kind": kind, "args": args, "dyadic": dy}
    if kind == "stripe_pattern":
        angle = rng.choice([0, 0, 0, 90, 45])
        args = {"period": rng.choice([2, 2, 4]), "level": rng.randrange(1, 200) / 2.0, "angle": angle,
                "startwith": rng.choice([0, 1]), "time_scale": ts}
        return {"kind": kind, "args": args, "dyadic": angle == 0}
    if kind == "load_charge":
        arr = [[float(rng.randrange(0, 300)) for _ in range(cols)] for _ in range(rows)]
        args = {"filename": {"npy": arr}, "time_scale": ts}
        if rng.random() < 0.3:
            args["align"] = rng.choice(["center", "top_left", "bottom_right"])
        return {"kind": kind, "args": args, "dyadic": True}
    if kind == "dark_current":
        args = {"figure_of_merit": rng.choice([0.5, 1.0, 2.5, 10.0]), "temporal_noise": False}
        return {"kind": kind, "args": args, "dyadic": False}
    raise ValueError(kind)


def gen_partition(rng, start8, end8, n):
    """n readout times (in 1/8 of the grid unit) ending at end8, strictly inside (start8, end8] and never 0"""
    inner = [v for v in range(start8 + 1, end8) if v != 0]
    n = min(n, len(inner) + 1)
    pts = sorted(rng.sample(inner, n - 1)) + [end8]
    return [p / 8.0 for p in pts]


def gen_hot_case(rng):
    """warm detector, large pixels, large dark-current figure of merit and a full well capacity in the characteristics: the
    dark charge of one long interval is far above the full well (no full-well model is in the pipeline)"""
    c = gen_case(rng, time_mode="grid8")
    rows, cols = c["rows"], c["cols"]
    dc = gen_model(rng, "dark_current", rows, cols)
    dc["args"]["figure_of_merit"] = rng.choice([10.0, 30.0, 100.0])
    c["charge"] = [dc] + c["charge"][:1]
    c["temperature"] = rng.choice([300.0, 310.0, 320.0])
    c["hot"] = {"pixel_size": rng.choice([18.0, 25.0, 30.0]), "full_well_capacity": rng.choice([20000, 30000, 100000])}
    c["collect"] = True
    return c


def gen_case(rng, time_mode=None):
    rows, cols = rng.choice([2, 4, 4, 6]), rng.choice([2, 4, 6, 8])
    nph = rng.choice([0, 1, 1, 2, 2, 3])
    photon = [gen_model(rng, rng.choice(list(PHOTON_FUNCS)), rows, cols) for _ in range(nph)]
    nch = rng.choice([0, 0, 1, 1, 2]) if nph else rng.choice([1, 1, 2])
    charge = [gen_model(rng, rng.choice(["load_charge", "load_charge", "dark_current"]), rows, cols) for _ in range(nch)]
    qe = None
    if nph and rng.random() < 0.9:
        qe = rng.choice([1.0, 0.5, 0.75, 0.25, 0.875])
        qe = {"value": qe, "via": rng.choice(["argument", "detector"])}
    while True:
        start8 = rng.randrange(-160, 161)
        end8 = start8 + rng.randrange(13, 400)
        if end8 != 0:
            break
    if rng.random() < 0.3:
        start8 = 0 if end8 > 0 else start8
    tm = time_mode or rng.choice(["grid8", "grid8", "dyadic-fine", "dyadic-fine", "fraction", "fraction", "fraction"])
    time_exact = True
    if tm in ("grid8", "dyadic-fine"):
        # exact (dyadic) grids: 1/8 s, or 2^-10 … 2^-23 s (≈ 1 ms … 0.12 µs: intervals that are no multiples of 1 µs)
        u = 0.125 if tm == "grid8" else 2.0 ** -rng.choice([10, 13, 17, 20, 23])
        parts = [[end8]]
        for _ in range(3):
            parts.append(gen_partition(rng, start8, end8, rng.randrange(2, 13)))
        if rng.random() < 0.5:
            parts.append(gen_partition(rng, start8, end8, 12))
        # equally spaced readouts whose FIRST interval differs from the spacing: times = start + f, + d, + d, …
        length8 = end8 - start8
        for _ in range(2):
            n = rng.randrange(3, 9)
            d = rng.randrange(1, max(2, length8 // (n - 1)))
            f = length8 - d * (n - 1)
            pts = [start8 + f + d * k for k in range(n)]
            if f >= 1 and f != d and all(p != 0 for p in pts):
                parts.insert(rng.randrange(1, len(parts) + 1), [p / 8.0 for p in pts])
        start, parts = start8 * u, [[p * 8.0 * u for p in part] for part in parts]
        parts[0] = [end8 * u]
    else:
        # arbitrary doubles: thirds / sevenths / n-ths of the exposure and random split points with many digits, for
        # exposures from seconds down to microseconds (compared at 1e-12 relative)
        time_exact = False
        length = rng.choice([1.0, 1.0, 10.0, 0.3, 1e-3, 2.5e-4, 9.87655e-3, 1e-5, 3.3e-6])
        start = rng.choice([0.0, 0.0, length * rng.choice([0.5, -0.25, 1.0, 0.1])])
        end = start + length
        if end == 0.0:
            start, end = 0.0, length
        parts = [[end]]
        for n in rng.sample([3, 7, 9, 11, 6], 2):
            parts.append([start + length * k / n for k in range(1, n)] + [end])
        for _ in range(2):
            n = rng.randrange(2, 13)
            while True:
                pts = sorted(rng.uniform(start, end) for _ in range(n - 1))
                allp = [start] + pts + [end]
                if all(b - a >= 0.01 * length for a, b in zip(allp, allp[1:])) and all(p != 0.0 for p in pts):
                    break
            parts.append(pts + [end])
        for _ in range(2):  # equally spaced (linspace) readouts after a first interval of another length
            n, frac1 = rng.randrange(3, 9), rng.choice([0.05, 0.37, 0.5, 0.81])
            first = start + frac1 * length
            pts = [first + (end - first) * k / (n - 1) for k in range(n - 1)] + [end]
            parts.insert(rng.randrange(1, len(parts) + 1), pts)
        parts = [p for p in parts if all(b > a for a, b in zip([start] + p, p)) and all(t != 0.0 for t in p)]
    if tm != "grid8" and rng.random() < 0.5:
        # fast readouts are used with a time scale of 1 ms / 1 µs
        for m in photon + charge:
            if "time_scale" in m["args"]:
                m["args"]["time_scale"] = rng.choice([1e-3, 1e-6])
                m["dyadic"] = False
    c = rng.choice([2.0, 0.5, 3.0, 4.0, 1.5, 2.0 ** -10, 2.0 ** -20, 1e-3, 1e-6, 1e-3, 1e3])
    return {
        "rows": rows, "cols": cols, "detector": rng.choice(["CCD", "CMOS", "MKID"]),
        "temperature": rng.choice([150.0, 200.0, 250.0, 293.0]),
        "photon": photon, "qe": qe, "charge": charge, "collect": rng.random() < 0.95,
        "start": start, "partitions": parts, "time_mode": tm,
        "reuse_order": rng.sample(range(len(parts) + 3), len(parts) + 3),
        "time_exact": time_exact and c in (2.0, 0.5, 3.0, 4.0, 1.5, 2.0 ** -10, 2.0 ** -20),
        "scale_c": c,
        "dask_check": rng.random() < 0.35,  # also run two non-destructive partitions through a dask Observation
    }


# ------------------------------------------------------------------ implementation side
def frac(x):
    f = Fraction(float(x))
    return [f.numerator, f.denominator]


def real_args(args, tmpdir, tag, seq_as="tuple"):
    """arguments as handed to the model function; sequence arguments as a tuple (Python construction) or as a LIST
    (what a YAML configuration produces — the list object stored in the pipeline is the one every call receives)"""
    import numpy as np

    out = {}
    for k, v in args.items():
        if isinstance(v, dict) and "npy" in v:
            path = os.path.join(tmpdir, f"{tag}_{k}.npy")
            np.save(path, np.array(v["npy"], dtype=float))
            out[k] = path
        elif k in ("object_size", "object_center", "position"):
            out[k] = list(v) if seq_as == "list" else tuple(v)
        else:
            out[k] = v
    return out


def make_det(case):
    import pyx

    hot = case.get("hot") or {}
    ch = {"quantum_efficiency": (case["qe"] or {}).get("value", 0.9)}
    if "full_well_capacity" in hot:
        ch["full_well_capacity"] = hot["full_well_capacity"]
    geo = {"pixel_vert_size": hot["pixel_size"], "pixel_horz_size": hot["pixel_size"]} if "pixel_size" in hot else {}
    return pyx.make_detector(case["detector"], case["rows"], case["cols"], geometry=geo,
                             environment={"temperature": case["temperature"]}, characteristics=ch)


def call_model(case, m, tmpdir, tag, dt, scale):
    """call the real model function once on a fresh detector whose clock shows time step `dt`;
    returns the photon (photon models) or charge (charge models) array it produced"""
    import numpy as np
    from pyxel.evaluator import evaluate_reference

    det = make_det(case)
    det.set_readout(times=[abs(dt) + 1.0], start_time=0.0)
    det.empty()
    det.readout_properties.time_step = dt
    det.readout_properties.time = abs(dt) + 1.0
    args = real_args(m["args"], tmpdir, tag, m.get("seq_as", "tuple"))
    if "time_scale" in args:
        args["time_scale"] = scale
    func = evaluate_reference({**PHOTON_FUNCS, **CHARGE_FUNCS}[m["kind"]])
    func(det, **args)
    if m["kind"] in PHOTON_FUNCS:
        return np.array(det.photon.array, dtype=float)
    return np.array(det.charge.array, dtype=float)


def groups_of(case, tmpdir):
    g = {"photon_collection": [], "charge_generation": [], "charge_collection": []}
    for i, m in enumerate(case["photon"]):
        g["photon_collection"].append({"name": f"ph{i}", "func": PHOTON_FUNCS[m["kind"]], "arguments": real_args(m["args"], tmpdir, f"ph{i}", m.get("seq_as", "tuple"))})
    if case["qe"]:
        a = {"binomial_sampling": False}
        if case["qe"]["via"] == "argument":
            a["quantum_efficiency"] = case["qe"]["value"]
        g["charge_generation"].append({"name": "conv", "func": "pyxel.models.charge_generation.simple_conversion", "arguments": a})
    for i, m in enumerate(case["charge"]):
        g["charge_generation"].append({"name": f"ch{i}", "func": CHARGE_FUNCS[m["kind"]], "arguments": real_args(m["args"], tmpdir, f"ch{i}")})
    if case["collect"]:
        g["charge_collection"].append({"name": "collect", "func": "pyxel.models.charge_collection.simple_collection"})
    return {k: v for k, v in g.items() if v}


def run_exposure(case, tmpdir, times, start, nd, det=None, pipe=None):
    """pixel slices [[value per pixel] per readout] of the result of the real exposure (on a fresh detector, or on
    the detector object handed in, which may already have run other exposures)"""
    import numpy as np
    import pyx

    import pyxel

    det = det or make_det(case)

    res = pyxel.run_mode(mode=pyx.make_exposure(times=list(times), start_time=start, non_destructive=nd),
                         detector=det, pipeline=pipe or pyx.make_pipeline(groups_of(case, tmpdir)))
    arr = np.asarray(res["pixel"].to_numpy(), dtype=float)
    return [[float(v) for v in arr[i].ravel()] for i in range(arr.shape[0])]


def run_observation_dask(case, tmpdir, times, start, nd):
    """the same exposure as ONE parameter set of an Observation run through the dask path -> pixel slices per readout"""
    import dask
    import numpy as np
    import pyx
    import pyxel
    from pyxel.exposure import Readout
    from pyxel.observation import Observation, ParameterValues

    obs = Observation(parameters=[ParameterValues(key="detector.environment.temperature", values=[case["temperature"]])],
                      readout=Readout(times=list(times), start_time=start, non_destructive=nd), with_dask=True)
    with dask.config.set(scheduler="synchronous"):
        res = pyxel.run_mode(mode=obs, detector=make_det(case), pipeline=pyx.make_pipeline(groups_of(case, tmpdir)),
                             with_inherited_coords=True)
        px = res["bucket"]["pixel"].load()
    px = px.isel({d: 0 for d in px.dims if d not in ("time", "y", "x")})
    arr = np.asarray(px.transpose("time", "y", "x").to_numpy(), dtype=float)
    return [[float(v) for v in arr[i].ravel()] for i in range(arr.shape[0])]


def run_impl(case):
    import numpy as np

    tmpdir = tempfile.mkdtemp(prefix="c17_")
    try:
        out = {"models": [], "nd": [], "d": None, "d_scaled": None}
        # (a) per model: reference rate (Δt = 1, scale = 1) and two other (Δt, scale) points
        for grp, lst in (("ph", case["photon"]), ("ch", case["charge"])):
            for i, m in enumerate(lst):
                ref = call_model(case, m, tmpdir, f"{grp}{i}r", 1.0, 1.0)
                pts = []
                for dt, sc in ((0.375, 1.0), (2.5, m["args"].get("time_scale", 1.0)), (17.125, 4.0)):
                    if "time_scale" not in m["args"]:
                        sc = 1.0
                    got = call_model(case, m, tmpdir, f"{grp}{i}p", dt, sc)
                    pts.append({"dt": dt, "scale": sc, "got": [float(v) for v in got.ravel()]})
                out["models"].append({"group": grp, "idx": i, "rate": [float(v) for v in ref.ravel()], "points": pts,
                                      "shape": list(ref.shape)})
        # (b) whole pipelines
        start = case["start"]
        for times in case["partitions"]:
            out["nd"].append(run_exposure(case, tmpdir, times, start, True))
        fine = case["partitions"][-1]
        c = case["scale_c"]
        out["d"] = run_exposure(case, tmpdir, fine, start, False)
        st2, t2 = c * start, [c * t for t in fine]
        out["d_scaled"] = run_exposure(case, tmpdir, t2, st2, False)
        out["nd_scaled"] = run_exposure(case, tmpdir, t2, st2, True)
        if case.get("dask_check"):
            # (b') the single-readout exposure and the finest partition, non-destructive, as runs of a dask Observation
            out["nd_dask"] = [run_observation_dask(case, tmpdir, t, start, True) for t in (case["partitions"][0], fine)]
        # (c) the same runs once more, one after the other ON ONE detector object, in the case's random order (a user
        # looping over schedules with the detector of the configuration): reused[k] belongs to run order[k]
        import pyx

        det = make_det(case)
        pipe = pyx.make_pipeline(groups_of(case, tmpdir))  # ONE pipeline object too: its argument objects live across the runs
        runs = runs_of(case)
        out["reused"] = [run_exposure(case, tmpdir, runs[k][2], runs[k][1], runs[k][0], det, pipe) for k in case.get("reuse_order", [])]
        return out
    except Exception as e:  # noqa: BLE001
        return {"error": common.err_kind(e), "msg": str(e)[:300]}
    finally:
        shutil.rmtree(tmpdir, ignore_errors=True)


# ------------------------------------------------------------------ comparison helpers
def is_dyadic(case):
    """exact comparison only when every rate, every time and the scaling factor are dyadic (binary64 arithmetic exact)"""
    return case.get("time_exact", True) and all(m["dyadic"] for m in case["photon"] + case["charge"])


def close(a, b, exact):
    if exact:
        return a == b
    return abs(a - b) <= REL * max(abs(a), abs(b), 1e-300)


def rows_close(x, y, exact):
    return len(x) == len(y) and all(close(a, b, exact) for a, b in zip(x, y))


def steps_of(start, times):
    prev, out = start, []
    for t in times:
        out.append(t - prev)
        prev = t
    return out


# ------------------------------------------------------------------ the statement, on the implementation's output
def property_predicate(case, impl):
    """-> None or (key, text).  Exact comparison for dyadic pipelines, 1e-12 relative otherwise (DESIGN 6b)."""
    if "error" in impl:
        return ("C17:run-failed", f"a pipeline of the listed models failed: {impl['error']} {impl['msg']}")
    exact = is_dyadic(case)
    ref = impl["nd"][0][-1]
    for times, frames in zip(case["partitions"], impl["nd"]):
        if len(frames) != len(times):
            return ("C17:frames", f"{len(frames)} pixel slices for {len(times)} readouts")
        if not rows_close(frames[-1], ref, exact):
            k = next(i for i, (a, b) in enumerate(zip(frames[-1], ref)) if not close(a, b, exact))
            return ("C17:nd-partition",
                    f"non-destructive exposure [{case['start']}, {times[-1]}]: final charge of pixel {k} is {frames[-1][k]!r} with "
                    f"{len(times)} readouts {times} but {ref[k]!r} with a single readout")
    fine = case["partitions"][-1]
    st = steps_of(case["start"], fine)
    d = impl["d"]
    for i in range(len(fine)):
        # proportional to the frame's own duration: frame_i · Δt_0 = frame_0 · Δt_i
        lhs = [Fraction(v) * Fraction(st[0]) for v in d[i]]
        rhs = [Fraction(v) * Fraction(st[i]) for v in d[0]]
        ok = all((a == b) if exact else abs(a - b) <= REL * max(abs(a), abs(b), Fraction(1, 10**300)) for a, b in zip(lhs, rhs))
        if not ok:
            return ("C17:destructive-proportional",
                    f"destructive frames of {fine} from {case['start']}: frame {i} (duration {st[i]}) is not proportional to frame 0 "
                    f"(duration {st[0]}): {d[i][:3]} vs {d[0][:3]}")
    for times, frames in zip((case["partitions"][0], case["partitions"][-1]), impl.get("nd_dask") or []):
        if len(frames) != len(times) or not rows_close(frames[-1], ref, exact):
            k = next((i for i, (a, b) in enumerate(zip(frames[-1], ref)) if not close(a, b, exact)), 0)
            return ("C17:nd-partition:dask-observation",
                    f"non-destructive exposure [{case['start']}, {times[-1]}] run as a dask Observation with {len(times)} readouts: final "
                    f"charge of pixel {k} is {frames[-1][k]!r} but {ref[k]!r} for the single-readout exposure")
    # the same exposures run one after the other on one detector object must collect what they collect on a fresh one
    # (non-destructive: the final charge depends only on start and end time — not on what the detector did before)
    runs, fresh = runs_of(case), impl_runs(impl)
    for pos, (k, frames) in enumerate(zip(case.get("reuse_order", []), impl.get("reused", []))):
        nd, st0, times = runs[k]
        if len(frames) != len(fresh[k]) or not all(rows_close(a, b, exact) for a, b in zip(frames, fresh[k])):
            i = next((j for j, (a, b) in enumerate(zip(frames, fresh[k])) if not rows_close(a, b, exact)), 0)
            key = "C17:nd-partition" if nd else "C17:destructive-proportional"
            return (key + ":reused-detector",
                    f"{'non-' if nd else ''}destructive exposure [{st0}, {times[-1]}] with {len(times)} readouts, run as exposure #{pos + 1} on "
                    f"one detector object: readout {i} holds {frames[i][:3]} but {fresh[k][i][:3]} on a fresh detector "
                    f"(earlier runs on the object: {[('nd' if runs[q][0] else 'd', len(runs[q][2])) for q in case['reuse_order'][:pos]]})")
    c = case["scale_c"]
    for name, a, b in (("destructive", impl["d"], impl["d_scaled"]), ("non-destructive", impl["nd"][-1], impl["nd_scaled"])):
        for i, (fa, fb) in enumerate(zip(a, b)):
            if not rows_close([c * v for v in fa], fb, exact):
                return ("C17:scaling", f"{name}: every interval scaled by {c}, but frame {i} went from {fa[:3]} to {fb[:3]}")
    return None


def lean_requests(case, impl):
    """one `frames` request per run of the case (same order as `runs_of`)"""
    npix = case["rows"] * case["cols"]

    def spread(grp):
        res = []
        for m, rec in zip(case["photon" if grp == "ph" else "charge"], [r for r in impl["models"] if r["group"] == grp]):
            res.append({"rates": [frac(v) for v in rec["rate"]], "scale": frac(m["args"].get("time_scale", 1.0))})
        return res

    base = {"op": "frames", "npix": npix, "photon": spread("ph"), "charge": spread("ch"),
            "qe": frac(case["qe"]["value"]) if case["qe"] else None, "collect": case["collect"]}
    reqs = []
    for nd, start, times in runs_of(case):
        reqs.append({**base, "nd": nd, "start": frac(start), "times": [frac(t) for t in times]})
    return reqs


def runs_of(case):
    c, fine, start = case["scale_c"], case["partitions"][-1], case["start"]
    runs = [(True, start, times) for times in case["partitions"]]
    runs.append((False, start, fine))
    runs.append((False, c * start, [c * t for t in fine]))
    runs.append((True, c * start, [c * t for t in fine]))
    return runs


def impl_runs(impl):
    return impl["nd"] + [impl["d"], impl["d_scaled"], impl["nd_scaled"]]


def body(ck: common.Check):
    ck.obligations(["PyxelModel.Props.C17"], ["PyxelModel.Drive.C17"])
    n = 120 if ck.tier == "quick" else 1500
    cases = [gen_case(ck.rng) for _ in range(n)]
    cases += [gen_hot_case(ck.rng) for _ in range(8 if ck.tier == "quick" else 80)]
    impls = pool_map(run_impl, cases)
    reqs, owner = [], []
    for ci, (case, impl) in enumerate(zip(cases, impls)):
        if "error" in impl:
            continue
        for k, r in enumerate(lean_requests(case, impl)):
            reqs.append(r)
            owner.append((ci, k))
    answers = LeanDriver("C17").batch(reqs)
    by_case: dict[int, list] = {}
    for (ci, k), a in zip(owner, answers):
        if "bad" in a:
            raise common.InfraError(f"driver rejected request: {a}")
        by_case.setdefault(ci, []).append(a)
    for ci, (case, impl) in enumerate(zip(cases, impls)):
        exact = is_dyadic(case)
        ck.case(case, nontrivial=("error" not in impl and len(case["partitions"][-1]) >= 2), stream="pipelines")
        ck.count("dyadic" if exact else "tolerance-1e-12")
        ck.count("time-mode=" + case.get("time_mode", "grid8"))
        ck.count("dask-observation-partitions", int(bool(case.get("dask_check"))))
        ck.count("hot-full-well", int(bool(case.get("hot"))))
        ck.count(f"scale-c={case['scale_c']:g}")
        for m in case["photon"] + case["charge"]:
            ck.count("model=" + m["kind"])
        ck.count("qe=" + (case["qe"]["via"] if case["qe"] else "none"))
        ck.count(f"readouts_max={max(len(p) for p in case['partitions'])}")
        why = property_predicate(case, impl)
        if why is not None:
            ck.violation(why[0], why[1], {"case": case, "impl": impl if "error" in impl else {"nd_final": [f[-1] for f in impl["nd"]], "d": impl["d"]}})
        if "error" in impl:
            continue
        # (a) linearity of every model function against the code
        for rec in impl["models"]:
            ck.evaluations += len(rec["points"])
            for pt in rec["points"]:
                want = [r * (pt["dt"] / pt["scale"]) for r in rec["rate"]]
                if not rows_close(want, pt["got"], exact):
                    ck.disagreement("linearity", {"case": case, "model": [rec["group"], rec["idx"]], "dt": pt["dt"], "scale": pt["scale"]},
                                    pt["got"][:6], want[:6])
        # (b) pipelines against the Lean model (step-by-step `frames`) and its closed form (`spec`)
        for (nd, start, times), frames, ans in zip(runs_of(case), impl_runs(impl), by_case[ci]):
            ck.evaluations += 1
            for key in ("model", "spec"):
                lean = [[Fraction(q[0], q[1]) for q in px] for px in ans[key]]  # per pixel, per readout
                ok = all(
                    close(Fraction(frames[i][k]) if exact else frames[i][k], lean[k][i] if exact else float(lean[k][i]), exact)
                    for i in range(len(times)) for k in range(len(lean))
                ) and len(frames) == len(times)
                if not ok:
                    ck.disagreement("pipeline-" + key, {"case": case, "nd": nd, "start": start, "times": times},
                                    [f[:4] for f in frames[:3]], [[float(v) for v in px[:3]] for px in lean[:4]])
                    break
    ck.rule = ("pipelines of 0-3 photon models (illumination uniform/rectangular/elliptic, load_image with position/align/"
               "multiplier/ADU conversion, stripe_pattern), simple_conversion without sampling (QE by argument or from the "
               "detector), 0-2 charge models (load_charge, noise-free dark_current), simple_collection; even-sized detectors "
               "2x2..6x8, CCD/CMOS; one interval [start, end] split into 1..12 readouts (4-5 partitions per case) on an exact grid "
               "(1/8 s, or 2^-10…2^-23 s: intervals that are no multiples of 1 µs) or at arbitrary doubles (thirds / sevenths / "
               "n-ths of the exposure, random split points; exposures of 10 s … 3 µs, time scales 1 ms / 1 µs), non-destructive and "
               "destructive, plus the schedule scaled by c (2, 0.5, 3, 4, 1.5, 2^-10, 2^-20, 1e-3, 1e-6, 1e3); every case also has equally "
               "spaced partitions whose first interval differs from the spacing; sequence arguments passed as lists (YAML) or tuples; "
               "every run on a fresh detector AND all runs of the case once more in random order on one detector object with one "
               "pipeline object; every model function also called alone "
               "at three (Δt, time_scale) points; non-trivial = finest partition has ≥ 2 readouts")
    ck.assumptions = [
        "'does not change' (DESIGN 6b): equal as exact rationals when every model has dyadic rates; otherwise within 1e-12 relative",
        "the rate of a model (per pixel) is what its function produces for Δt = 1 s and time_scale = 1; the model is linear in it",
        "stripe_pattern is only used on even-sized detectors (on odd sizes the pinned function returns a short array)",
    ]
    ck.trusted_base.append("C17: astropy units inside dark_current and skimage.rotate inside stripe_pattern are exercised, not modelled "
                           "(only linearity in the time step is used)")


def pool_map(fn, items):
    """run the implementation side in forked workers (pyxel imported lazily inside)"""
    import multiprocessing as mp

    if len(items) < 8:
        return [fn(x) for x in items]
    ctx = mp.get_context("fork")
    with ctx.Pool(min(12, os.cpu_count() or 4)) as pool:
        return pool.map(fn, items, chunksize=1)


if __name__ == "__main__":
    if len(sys.argv) > 2 and sys.argv[1] == "--replay":
        common.ensure_repo_on_path()
        rp = json.load(open(sys.argv[2]))
        case = rp["replay"].get("case")
        if case is None or "partitions" not in case:
            print("replay names a broken obligation/correspondence, no concrete input:", rp["what"])
            sys.exit(1)
        impl = run_impl(case)
        why = property_predicate(case, impl)
        print("REPRODUCED: " + why[0] + " — " + why[1] if why else "not reproduced (property holds on this input)")
        sys.exit(1 if why else 0)
    sys.exit(run_check("C17", body))
