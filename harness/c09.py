"""C09 — a failing model always fails the run, with its identity attached.

obligations: lean/PyxelModel/Props/C09.lean (all schedules, all fault positions, all exceptions)
tie to code : `probes.fault` raises a chosen exception class at a chosen (run, readout step, model position) of
              generated pipelines — exhaustively over the positions of small pipelines — in exposure, sequential
              observation (1 or 2 swept parameters), parallel observation (construction and `.load()`) and
              calibration (initial population and evolution); observed: exception class, message, `__notes__`,
              call log, absence of a result; compared with the nested-loop model and with its flat specification.
"""

from __future__ import annotations

import itertools
import json
import shutil
import sys
import tempfile

import common
from common import LeanDriver, run_check

# the ten model groups, in execution order (every one runs on every detector type)
GROUPS = ["scene_generation", "photon_collection", "phasing", "charge_generation", "charge_collection", "charge_transfer",
          "charge_measurement", "signal_transfer", "readout_electronics", "data_processing"]
DETECTORS = ["CCD", "CMOS", "MKID", "APD"]


def short(g):
    """unique two-letter tag of a group name (scene_generation -> sg, phasing -> ph)"""
    parts = g.split("_")
    return parts[0][0] + parts[1][0] if len(parts) > 1 else g[:2]
FUNC = "probes.fault"
EXCS = ["ValueError", "ZeroDivisionError", "KeyError", "TypeError", "RuntimeError", "Exception", "OSError", "IndexError",
        "NotImplementedError", "AssertionError", "OddError", "QuietError", "LookupError", "FloatingPointError",
        "StopIteration", "StopAsyncIteration", "AttributeError", "MemoryError", "RecursionError", "EOFError", "TimeoutError",
        "ImportError", "NameError", "OverflowError", "UserWarning"]
OBS_HEAD = "This error occurred in 'Observation' mode with the following parameters:"
FIT_HEAD = "Exception raised with ModelFitting:"


# ------------------------------------------------------------------ generator
def gen_pipeline(rng, small=False, only=None):
    k = rng.choice([1, 2, 2, 3]) if not small else rng.choice([1, 2])
    groups = sorted(rng.sample(GROUPS, k), key=GROUPS.index) if only is None else list(only)
    out = []
    uid = "%06d" % rng.randrange(10**6)  # ids unique per pipeline: late calls of an earlier parallel case are not mistaken for ours
    for g in groups:
        n = rng.choice([1, 1, 2]) if small else rng.choice([1, 2, 3])
        out.append([g, [{"name": f"m{i}_{short(g)}", "enabled": (rng.random() < 0.85), "id": f"{uid}/{g}#{i}"} for i in range(n)]])
    if not any(m["enabled"] for _, ms in out for m in ms):
        out[0][1][0]["enabled"] = True
    return out


def schedule(groups):
    """enabled models of one step in schedule order (C01): [(group, name, id)]"""
    return [(g, m["name"], m["id"]) for g, ms in groups for m in ms if m["enabled"]]


def gen_exc(rng):
    name = rng.choice(EXCS)
    msg = rng.choice(["boom", "detector on fire", "x" * 40, "line one\nline two", "ünïcode ✓", "", "42"])
    note = rng.choice([None, None, "a note the model attached itself"])
    return {"exc": name, "msg": msg, "note": note}


def expected_exc(fault):
    """(class name, str(exception), own notes) of what the probe raises — computed by raising it"""
    import probes

    e = probes.make_fault(fault["exc"], fault["msg"], fault["note"])
    return type(e).__name__, str(e), list(getattr(e, "__notes__", []))


def gen_case(rng, mode, groups=None, fault_pos=None, steps=None, nruns=None, no_fault=False, two=None, obs_mode=None):
    groups = groups or gen_pipeline(rng)
    steps = steps or rng.choice([1, 2, 3])
    sched = schedule(groups)
    # seeded regions on the way out: a declared pipeline seed (0 is a seed too) wraps every run in `with set_random_seed(seed)`
    case = {"mode": mode, "groups": groups, "steps": steps, "fault": None,
            "pipeline_seed": rng.choice([None, None, 0, 7, 12345]),
            "detector": rng.choice(["CCD", "CCD", "CMOS", "MKID", "APD"])}
    if mode in ("sequential", "parallel"):
        nruns = nruns or rng.choice([2, 3])
        two = (rng.random() < 0.35) if two is None else two
        case["levels"] = [10 * (i + 1) for i in range(nruns)]
        case["levels2"] = [1, 2] if two else None
        # the observation's parameter mode: Cartesian product / one parameter at a time over the defaults / one run per
        # row of a table file
        case["obs_mode"] = obs_mode or rng.choice(["product", "product", "sequential", "custom"])
        if case["obs_mode"] == "custom":
            case["rows"] = [[a, (case["levels2"][i % 2] if two else 0)] for i, a in enumerate(case["levels"])]
            if two and rng.random() < 0.5:
                case["rows"].append([case["levels"][0] + 5, case["levels2"][1]])
    nr = len(run_params(case))
    case["nruns"] = nr
    if fault_pos is None and not no_fault:
        fault_pos = None if rng.random() < 0.12 else (rng.randrange(nr), rng.randrange(steps), rng.randrange(len(sched)))
    if fault_pos is not None:
        r, s, k = fault_pos
        case["fault"] = {"run": r, "step": s, "pos": k, "id": sched[k][2], **gen_exc(rng),
                         # ... and the failing model may raise inside its own seeded region
                         "model_seed": rng.choice([None, None, None, 0, 42])}
    # the swept `level` arguments live on one model: the failing one (or the first scheduled)
    case["swept"] = sched[fault_pos[2]][2] if fault_pos is not None else sched[0][2]
    return case


def run_params(case):
    """parameter values of every run in execution order: [(level, level2)]"""
    if case["mode"] not in ("sequential", "parallel"):
        return [(0, 0)]
    om = case.get("obs_mode", "product")
    if om == "sequential":
        return [(a, 0) for a in case["levels"]] + [(0, b) for b in (case["levels2"] or [])]
    if om == "custom":
        return [(a, b) for a, b in case["rows"]]
    l2 = case["levels2"] or [0]
    return [(a, b) for a in case["levels"] for b in l2]


def run_pairs(case):
    """per run: the (key, value) pairs that are this run's parameters (what the statement wants reported)"""
    k1, k2 = swept_keys(case)
    om = case.get("obs_mode", "product")
    out = []
    for a, b in run_params(case):
        if om == "sequential":
            out.append([(k1, a)] if a != 0 else [(k2, b)])
        else:
            out.append([(k1, a)] + ([(k2, b)] if case["levels2"] else []))
    return out


def observation_spec(case, folder):
    """mode / parameters / table of the observation, for the Python API and for a YAML document"""
    k1, k2 = swept_keys(case)
    om = case.get("obs_mode", "product")
    if om == "custom":
        import numpy as np

        ncol = 2 if case["levels2"] else 1
        path = folder + "/table.txt"
        np.savetxt(path, np.array([row[:ncol] for row in case["rows"]], dtype=float).reshape(-1, ncol))
        params = [{"key": k1, "values": "_"}] + ([{"key": k2, "values": "_"}] if case["levels2"] else [])
        return {"mode": "custom", "parameters": params, "from_file": path, "column_range": [0, ncol]}
    params = [{"key": k1, "values": list(case["levels"])}] + ([{"key": k2, "values": list(case["levels2"])}] if case["levels2"] else [])
    return {"mode": om, "parameters": params}


# ------------------------------------------------------------------ implementation side
_TOKEN = {"run": None}


def new_run_token():
    """a fresh identity for one run of one case (not drawn from the case generator's PRNG: it must differ between
    two runs of the same case in one process, e.g. a replay after the check)"""
    import uuid

    _TOKEN["run"] = uuid.uuid4().hex
    return _TOKEN["run"]


def own_records(log):
    """the log records written by models of the current run (worker threads of earlier runs may still be alive)"""
    return [r for r in log if r[0] == "fault" and (len(r) < 7 or r[6] == _TOKEN["run"])]


def build_pipeline(case, extra_first=None):
    import pyx

    # every model carries the token of THIS run (see probes.fault): ticket counter and log records are per run
    plan = {"id": None, "token": _TOKEN["run"]}
    if case["fault"]:
        f = case["fault"]
        lv = run_params(case)[f["run"]]
        plan = {"id": f["id"], "step": f["step"], "exc": f["exc"], "msg": f["msg"], "note": f["note"],
                "level": lv[0] if case["mode"] in ("sequential", "parallel") else None,
                "level2": lv[1] if (case["mode"] in ("sequential", "parallel")
                                    and (case["levels2"] or case.get("obs_mode") == "sequential")) else None,
                "nth": f.get("nth"), "model_seed": f.get("model_seed"), "token": _TOKEN["run"]}
        if plan["nth"] is not None:
            plan["step"] = None
    d = {}
    for g, ms in case["groups"]:
        d[g] = [{"name": m["name"], "func": FUNC, "enabled": m["enabled"],
                 "arguments": {"_id": m["id"], "level": 0, "level2": 0, "plan": plan}} for m in ms]
    if extra_first:
        d = {**extra_first, **d}
    return pyx.make_pipeline(d)


def swept_keys(case):
    g, _, i = case["swept"].partition("/")[2].partition("#")
    name = dict(case["groups"])[g][int(i)]["name"]
    base = f"pipeline.{g}.{name}.arguments."
    return base + "level", base + "level2"


def exc_record(e):
    return {"kind": type(e).__name__, "msg": str(e), "notes": list(getattr(e, "__notes__", [])),
            "cause": None if e.__cause__ is None else type(e.__cause__).__name__}


def trace_from_log(case, log):
    """(run, step, pos) of every logged call; the run counter advances whenever the schedule restarts"""
    sched = [x[2] for x in schedule(case["groups"])]
    out, run, prev = [], 0, None
    for rec in own_records(log):
        if rec[0] != "fault" or rec[1] not in sched:
            if rec[0] == "fault" and rec[1].partition("/")[0] == sched[0].partition("/")[0]:
                out.append([-1, rec[4], -1])  # a model of this pipeline that is not in the schedule was executed
            continue
        pos, step = sched.index(rec[1]), rec[4]
        cur = (step, pos)
        if prev is not None and cur <= prev:
            run += 1
        prev = cur
        out.append([run, step, pos])
    return out


def run_impl(case):
    import probes
    import pyx
    import pyxel

    probes.reset()
    new_run_token()
    mode = case["mode"]
    times = [float(i + 1) for i in range(case["steps"])]
    det = pyx.make_detector(case.get("detector", "CCD"), 3, 4)
    out = {}
    if case.get("entry") == "yaml":
        return run_yaml(case, times)
    if mode == "exposure":
        pipe = build_pipeline(case)
        try:
            res = pyxel.run_mode(pyx.make_exposure(times=times, pipeline_seed=case.get("pipeline_seed")), det, pipe)
            out["result"] = {"ok": type(res).__name__}
        except Exception as e:  # noqa: BLE001
            out["result"] = {"err": exc_record(e)}
        out["trace"] = trace_from_log(case, list(probes.LOG))
        return out
    if mode in ("sequential", "parallel"):
        from pyxel.exposure import Readout
        from pyxel.observation import Observation, ParameterValues

        obs_tmp = tempfile.mkdtemp(prefix="c09-")
        spec = observation_spec(case, obs_tmp)
        extra = {"from_file": spec["from_file"], "column_range": tuple(spec["column_range"])} if spec["mode"] == "custom" else {}
        obs = Observation(parameters=[ParameterValues(key=p["key"], values=p["values"]) for p in spec["parameters"]],
                          readout=Readout(times=times), mode=spec["mode"], with_dask=(mode == "parallel"),
                          pipeline_seed=case.get("pipeline_seed"), **extra)
        shutil.rmtree(obs_tmp, ignore_errors=True)  # the table is read when the observation is built
        pipe = build_pipeline(case)
        if mode == "parallel" and case.get("writer"):
            from pyxel.pipelines import ModelFunction

            # all buckets filled (float photon / charge / pixel / signal, uint32 image) before the probes run
            pipe = _with_writer(case, ModelFunction(func="probes.cal_probe", name="writer", arguments={"a": 1.0, "b": 0.0}))
        if mode == "sequential":
            try:
                res = pyxel.run_mode(obs, det, pipe)
                out["result"] = {"ok": type(res).__name__}
            except Exception as e:  # noqa: BLE001
                out["result"] = {"err": exc_record(e)}
            out["trace"] = trace_from_log(case, list(probes.LOG))
            return out
        import dask

        res = None
        with dask.config.set(scheduler="threads", num_workers=4):
            try:
                res = pyxel.run_mode(obs, det, pipe)
                out["build"] = {"ok": type(res).__name__}
            except Exception as e:  # noqa: BLE001
                out["build"] = {"err": exc_record(e)}
            out["calls_at_build"] = len(own_records(list(probes.LOG)))
            if res is not None:
                try:
                    loaded = res.load()
                    out["load"] = {"ok": type(loaded).__name__}
                    if case["fault"]:
                        try:
                            import numpy as np

                            summ = []
                            for b in ("photon", "pixel", "image"):
                                try:
                                    a = np.asarray(loaded[f"/bucket/{b}"].values, dtype=float)
                                except KeyError:
                                    continue
                                if a.size:
                                    summ.append(f"{b}: {int(np.isnan(a).sum())} NaN, {int((a == 0).sum())} zeros of {a.size}")
                            out["load_summary"] = "; returned " + ", ".join(summ)
                        except Exception:  # noqa: BLE001
                            pass
                except Exception as e:  # noqa: BLE001
                    out["load"] = {"err": exc_record(e)}
                    # nothing readable afterwards: a second attempt must fail as well (no cached zeros)
                    try:
                        res.load()
                        out["second_load"] = "ok"
                    except Exception as e2:  # noqa: BLE001
                        out["second_load"] = type(e2).__name__
        return out
    if mode == "calibration":
        import numpy as np
        from pyxel.calibration import Algorithm, Calibration
        from pyxel.observation import ParameterValues
        from pyxel.pipelines import FitnessFunction

        tmp = tempfile.mkdtemp(prefix="c09-")
        try:
            np.save(tmp + "/t.npy", np.full((3, 4), 3.0))
            targets, wkw = _cal_files(case, tmp)
            # a data-writing probe in front, so that the calibration has something to fit
            from pyxel.pipelines import ModelFunction

            writer = ModelFunction(func="probes.cal_probe", name="writer", arguments={"a": 1.0, "b": 0.0})
            pipe = _with_writer(case, writer)
            probes.reset()
            cal = Calibration(
                target_data_path=targets, **wkw,
                fitness_function=FitnessFunction("pyxel.calibration.fitness.sum_of_abs_residuals"),
                algorithm=Algorithm(**case["algo"]),
                parameters=[ParameterValues(key="pipeline.scene_generation.writer.arguments.a", values="_", boundaries=(0, 5)),
                            ParameterValues(key="pipeline.scene_generation.writer.arguments.b", values="_", boundaries=(0, 5))],
                result_type="pixel", result_fit_range=[0, 3, 0, 4], target_fit_range=[0, 3, 0, 4], pygmo_seed=case["pygmo_seed"],
                num_islands=case["islands"], num_evolutions=2, pipeline_seed=case.get("pipeline_seed"),
            )
            try:
                res = pyxel.run_mode(cal, det, pipe)
                out["result"] = {"ok": type(res).__name__}
            except Exception as e:  # noqa: BLE001
                out["result"] = {"err": exc_record(e)}
            out["calls"] = len(own_records(list(probes.LOG)))
            return out
        finally:
            shutil.rmtree(tmp, ignore_errors=True)
    raise ValueError(mode)


def _cal_files(case, tmp):
    """target files and the weights declaration of a calibration case: none / one weight per target (two targets,
    so that the weights really are an array of several values) / weight files"""
    import numpy as np

    kind = case.get("cal_weights")
    if not kind:
        return [tmp + "/t.npy"], {}
    np.save(tmp + "/t1.npy", np.full((3, 4), 5.0))
    targets = [tmp + "/t.npy", tmp + "/t1.npy"]
    if kind == "list":
        return targets, {"weights": [1.0, 2.0]}
    for k in (0, 1):
        np.save(f"{tmp}/w{k}.npy", np.full((3, 4), 1.0 + k))
    return targets, {"weights_from_file": [tmp + "/w0.npy", tmp + "/w1.npy"]}


def yaml_document(case, times, tmp):
    """the configuration file of the case: same pipeline, same plan, started through `pyxel.run(<file>)`"""
    mode = case["mode"]
    pipe = build_pipeline(case)
    pdoc = {}
    if mode == "calibration":
        pdoc["scene_generation"] = [{"name": "writer", "func": "probes.cal_probe", "enabled": True, "arguments": {"a": 1.0, "b": 0.0}}]
    for g, _ in case["groups"]:
        pdoc[g] = pdoc.get(g, []) + [{"name": m.name, "func": FUNC, "enabled": bool(m.enabled), "arguments": dict(m.arguments)} for m in getattr(pipe, g).models]
    outputs = None
    if case.get("outputs"):
        outputs = {"output_folder": tmp + "/out"}
        if mode != "calibration":
            # something to save: an image writer at the end of the pipeline (not part of the judged schedule)
            outputs["save_data_to_file"] = [{"detector.image.array": ["npy"]}]
            pdoc["data_processing"] = pdoc.get("data_processing", []) + [{"name": "wimg", "func": "probes.write_image", "enabled": True, "arguments": {}}]
    if mode == "exposure":
        section = {"exposure": {"readout": {"times": times}}}
        if case.get("pipeline_seed") is not None:
            section["exposure"]["pipeline_seed"] = case["pipeline_seed"]
    elif mode == "sequential":
        spec = observation_spec(case, tmp)
        section = {"observation": {**spec, "with_dask": False, "readout": {"times": times}}}
        if case.get("pipeline_seed") is not None:
            section["observation"]["pipeline_seed"] = case["pipeline_seed"]
    else:
        section = {"calibration": {
            "result_type": "pixel", "result_fit_range": [0, 3, 0, 4], "target_fit_range": [0, 3, 0, 4],
            "target_data_path": _cal_files(case, tmp)[0], **_cal_files(case, tmp)[1],
            "fitness_function": {"func": "pyxel.calibration.fitness.sum_of_abs_residuals"},
            "algorithm": dict(case["algo"]), "pygmo_seed": case["pygmo_seed"], "num_islands": case["islands"], "num_evolutions": 2,
            "parameters": [{"key": "pipeline.scene_generation.writer.arguments.a", "values": "_", "boundaries": [0, 5]},
                           {"key": "pipeline.scene_generation.writer.arguments.b", "values": "_", "boundaries": [0, 5]}]}}
    if mode == "calibration" and case.get("pipeline_seed") is not None:
        section["calibration"]["pipeline_seed"] = case["pipeline_seed"]
    if outputs:
        next(iter(section.values()))["outputs"] = outputs
    kind = case.get("detector", "CCD") if case.get("detector") in ("CCD", "CMOS", "MKID") else "CCD"
    return {**section,
            kind.lower() + "_detector": {
                "geometry": {"row": 3, "col": 4, "total_thickness": 10.0, "pixel_vert_size": 10.0, "pixel_horz_size": 10.0},
                "environment": {"temperature": 100.0},
                "characteristics": {"quantum_efficiency": 0.5, "charge_to_volt_conversion": 1e-6, "pre_amplification": 10.0,
                                    "adc_bit_resolution": 16, "adc_voltage_range": [0.0, 5.0], "full_well_capacity": 1000}},
            "pipeline": pdoc}


def run_yaml(case, times):
    """start the simulation the way a user does: `pyxel.run(<yaml file>)` (with or without an `outputs:` section)"""
    import os

    import numpy as np
    import probes
    import pyxel
    import yaml

    tmp = tempfile.mkdtemp(prefix="c09-")
    cwd = os.getcwd()
    out = {}
    try:
        np.save(tmp + "/t.npy", np.full((3, 4), 3.0))
        path = tmp + "/config.yaml"
        with open(path, "w") as fh:
            yaml.safe_dump(yaml_document(case, times, tmp), fh, sort_keys=False)
        os.chdir(tmp)  # pyxel.run moves ./pyxel.log into the output folder
        probes.reset()
        try:
            res = pyxel.run(path)
            out["result"] = {"ok": type(res).__name__}
        except Exception as e:  # noqa: BLE001
            out["result"] = {"err": exc_record(e)}
        if case["mode"] in ("exposure", "sequential"):
            out["trace"] = trace_from_log(case, list(probes.LOG))
        out["calls"] = len(own_records(list(probes.LOG)))
        return out
    finally:
        os.chdir(cwd)
        shutil.rmtree(tmp, ignore_errors=True)


def _with_writer(case, writer):
    from pyxel.pipelines import DetectionPipeline, ModelFunction

    base = build_pipeline(case)
    kw = {"scene_generation": [writer]}
    for g, _ in case["groups"]:
        grp = getattr(base, g)
        kw[g] = kw.get(g, []) + [ModelFunction(func=FUNC, name=m.name, arguments=dict(m.arguments), enabled=m.enabled) for m in grp.models]
    return DetectionPipeline(**kw)


# ------------------------------------------------------------------ Lean request
def lean_request(case):
    sched = schedule(case["groups"])
    f = case["fault"]
    runs = []
    for r in range(case["nruns"]):
        steps = []
        for s in range(case["steps"]):
            calls = []
            for k, (g, name, _id) in enumerate(sched):
                c = {"group": g, "name": name, "func": FUNC}
                if f and f.get("nth") is None and (f["run"], f["step"], f["pos"]) == (r, s, k):
                    kind, msg, notes = expected_exc(f)
                    c["fault"] = {"kind": kind, "msg": msg, "notes": notes}
                calls.append(c)
            steps.append(calls)
        runs.append(steps)
    req = {"mode": case["mode"], "runs": runs}
    if case["mode"] == "sequential":
        req["params"] = [[[repr(k), repr(v)] for k, v in pairs] for pairs in run_pairs(case)]
    if case["mode"] == "parallel":
        req["sigma"] = list(range(case["nruns"]))
    return req


# ------------------------------------------------------------------ the statement, evaluated in Python
def flat_positions(case):
    n = len(schedule(case["groups"]))
    return [[r, s, k] for r in range(case["nruns"]) for s in range(case["steps"]) for k in range(n)]


def _names_model(text, g, name):
    """does this text name the model group and the model?  (the wording of pyxel's note is not behaviour).
    A dotted parameter key `pipeline.<group>.<model>.arguments.…` is not such a statement."""
    return g in text and name in text and f"pipeline.{g}.{name}.arguments." not in text


def _names_param(text, key, val):
    """does this text give parameter `key` the value `val`?  The value is the first number that follows the key on
    its line, however it is written (`'key': 10`, `key = 10.0`, `key: np.float64(10.0) (index 1)`); `…level` must
    not match `…level2`."""
    import re

    for m in re.finditer(re.escape(key) + r"(?![A-Za-z0-9_])", text):
        rest = text[m.end():].split("\n")[0]
        tok = re.search(r"(?<![\w.])-?\d+(?:\.\d*)?(?:[eE][+-]?\d+)?(?![\w])", rest)
        if tok:
            try:
                if float(tok.group(0)) == float(val):
                    return True
            except ValueError:
                pass
    return False


def check_exc(case, err, need_type=True, need_params=False, where=""):
    """None or a description of how the raised exception misses the statement"""
    f = case["fault"]
    kind, msg, own = expected_exc(f)
    g, name, _ = schedule(case["groups"])[f["pos"]]
    if need_type:
        if err["kind"] != kind:
            return f"{where}exception class {err['kind']} instead of {kind}"
        if err["msg"] != msg:
            return f"{where}message {err['msg']!r} instead of {msg!r}"
        if not any(_names_model(n, g, name) for n in err["notes"]):
            return f"{where}no note names group {g!r} and model {name!r}: notes = {err['notes']}"
    else:
        text = err["msg"] + "\n" + "\n".join(err["notes"])
        if msg not in text:
            return f"{where}original message {msg!r} does not reach the caller: {text[-300:]!r}"
        if not _names_model(text, g, name):
            return f"{where}group/model of the failing model do not reach the caller"
    if need_params:
        for key, val in run_pairs(case)[f["run"]]:
            if not any(_names_param(n, key, val) for n in err["notes"]):
                return f"PARAMS:{where}parameter {key} = {val!r} of the failing run ({case.get('obs_mode', 'product')} mode) is given by no note: {err['notes']}"
    return None


def property_predicate(case, impl):
    f = case["fault"]
    mode = case["mode"]
    flat = flat_positions(case)
    if mode in ("exposure", "sequential"):
        res = impl["result"]
        if f is None:
            if "err" in res:
                return ("C09:spurious-error", f"no model raises but the run fails: {res['err']}")
            if impl["trace"] != flat:
                return ("C09:trace", "calls executed differ from the schedule")
            return None
        if "ok" in res:
            return ("C09:fault-swallowed", f"model {f['id']} raised {f['exc']} at run {f['run']} step {f['step']} but {mode} returned a {res['ok']}")
        why = check_exc(case, res["err"], need_type=True, need_params=(mode == "sequential"))
        if why and why.startswith("PARAMS:"):
            return ("C09:parameters-not-reported", why[len("PARAMS:"):])
        if why:
            return ("C09:identity-lost", why)
        cut = flat[: flat.index([f["run"], f["step"], f["pos"]]) + 1]
        if impl["trace"] != cut:
            extra = [t for t in impl["trace"] if t not in cut]
            return ("C09:executed-after-fault", f"calls executed after the fault (or missing before it): extra {extra[:5]}, {len(impl['trace'])} calls instead of {len(cut)}")
        return None
    if mode == "parallel":
        if f is None:
            if "err" in impl["build"] or "err" in impl.get("load", {}):
                return ("C09:spurious-error", f"no model raises but the observation fails: {impl}")
            return None
        if "err" in impl["build"]:
            why = check_exc(case, impl["build"]["err"], need_type=True, where="at construction: ")
            return ("C09:identity-lost", why) if why else None
        if "ok" in impl["load"]:
            return ("C09:fault-swallowed", f"model {f['id']} raised {f['exc']} in run {f['run']} of a parallel observation but .load() returned a "
                                           f"{impl['load']['ok']} (whatever it holds, it is not the data of the failed run){impl.get('load_summary', '')}")
        why = check_exc(case, impl["load"]["err"], need_type=True, where="at .load(): ")
        if why:
            return ("C09:identity-lost", why)
        if impl.get("second_load") == "ok":
            return ("C09:stale-data", "a second .load() after the failure returned data")
        return None
    if mode == "calibration":
        res = impl["result"]
        if f is None:
            return ("C09:spurious-error", f"no model raises but calibration fails: {res['err']}") if "err" in res else None
        if "ok" in res:
            return ("C09:fault-swallowed", f"model {f['id']} raised {f['exc']} at evaluation call {f['nth']} but calibration returned a result")
        initial = f["nth"] <= case["algo"]["population_size"]
        why = check_exc(case, res["err"], need_type=initial, where=("initial population: " if initial else "evolution: "))
        if why and f["exc"] == "StopIteration" and res["err"].get("kind") == "RuntimeError" \
                and res["err"].get("msg") == "generator raised StopIteration" and res["err"].get("cause") == "StopIteration":
            # PEP 479: the islands are created inside `for island in tqdm(executor.map(...))`; a StopIteration leaving
            # executor.map's iterator inside tqdm's generator frame is converted to RuntimeError (original kept as __cause__)
            return ("C09:identity-lost:calibration:StopIteration-converted-by-generator", why)
        return ("C09:identity-lost", why) if why else None
    return None


def canon_err(err, case=None):
    """what of an exception is behaviour: class, message, and WHAT the notes say — not how they word it.
    Each note becomes a token: the model's own note verbatim, ("model", group, name) for a note naming a scheduled
    model, ("param", key, value) for a note giving a swept parameter its value; any other note (headers, the
    fitness note with its object address) is dropped.  Applied to the implementation's and to the model's notes alike."""
    if case is None:
        return {"kind": err["kind"], "msg": err["msg"], "notes": [FIT_HEAD if n.startswith(FIT_HEAD) else n for n in err["notes"]]}
    own = expected_exc(case["fault"])[2] if case.get("fault") else []
    sched = schedule(case["groups"])
    keys = []
    if case["mode"] in ("sequential", "parallel"):
        seen = {}
        for pairs in run_pairs(case):
            for k, v in pairs:
                seen.setdefault(k, [])
                if v not in seen[k]:
                    seen[k].append(v)
        keys = list(seen.items())
    out = []
    for n in err["notes"]:
        if n in own:
            out.append(["own", n])
            continue
        par = [[key, v] for key, vals in keys for v in vals if _names_param(n, key, v)]
        if par:
            out.append(["param"] + par[0])
            continue
        hit = [[g, name] for g, name, _ in sched if _names_model(n, g, name)]
        if hit:
            out.append(["model"] + hit[0])
    return {"kind": err["kind"], "msg": err["msg"], "notes": out}


def compare(case, impl, ans):
    mode = case["mode"]
    if mode in ("exposure", "sequential"):
        if impl["trace"] != ans["trace"]:
            return f"trace differs: impl {impl['trace'][-3:]} ({len(impl['trace'])}) model {ans['trace'][-3:]} ({len(ans['trace'])})"
        if ("err" in impl["result"]) != ("err" in ans["result"]):
            return "one side raises, the other does not"
        if "err" in ans["result"] and canon_err(impl["result"]["err"], case) != canon_err(ans["result"]["err"], case):
            return f"exception differs: impl {canon_err(impl['result']['err'], case)} model {canon_err(ans['result']['err'], case)}"
        return None
    if mode == "parallel":
        if ("err" in impl["build"]) != ("err" in ans["build"]):
            return f"construction: impl {impl['build']} model {ans['build']}"
        if "err" in ans["build"]:
            return None if canon_err(impl["build"]["err"], case) == canon_err(ans["build"]["err"], case) else f"construction exception differs: {impl['build']['err']} vs {ans['build']['err']}"
        if ("err" in impl["load"]) != ("err" in ans["load"]):
            return f"load: impl {impl['load']} model {ans['load']}"
        if "err" in ans["load"] and canon_err(impl["load"]["err"], case) != canon_err(ans["load"]["err"], case):
            return f"load exception differs: {impl['load']['err']} vs {ans['load']['err']}"
    return None


def body(ck: common.Check):
    ck.obligations(["PyxelModel.Props.C09"], ["PyxelModel.Drive.C09"])
    rng = ck.rng
    quick = ck.tier == "quick"
    cases = []
    # exhaustive: every (run, step, position) of small pipelines
    for mode, nsmall in (("exposure", 6 if quick else 14), ("sequential", 4 if quick else 10)):
        for _ in range(nsmall):
            groups = gen_pipeline(rng, small=True)
            steps = rng.choice([1, 2])
            nruns = 1 if mode == "exposure" else 2
            n = len(schedule(groups))
            for r, s, k in itertools.product(range(nruns), range(steps), range(n)):
                cases.append(("exhaustive", gen_case(rng, mode, groups=groups, fault_pos=(r, s, k), steps=steps, nruns=nruns, two=False)))
            cases.append(("exhaustive", gen_case(rng, mode, groups=groups, steps=steps, nruns=nruns, no_fault=True, two=False)))
    for _ in range(80 if quick else 700):
        cases.append(("random", gen_case(rng, rng.choice(["exposure", "sequential", "sequential"]))))
    for _ in range(24 if quick else 200):
        cases.append(("parallel", gen_case(rng, "parallel")))
    # every exception class at least once
    # ... in every sequentially executed mode (and, thorough, on the parallel path): a loop written with map() /
    # next() must not mistake e.g. a model's StopIteration for its own control flow
    for name in EXCS:
        for mode in (["exposure", "sequential"] if quick else ["exposure", "sequential", "sequential", "parallel"]):
            c = gen_case(rng, mode)
            if c["fault"]:
                c["fault"]["exc"] = name
            cases.append(("classes", c))
    # a failing model in EVERY one of the ten groups, on every detector type: the group named to the caller must be
    # the group the model was configured in
    for gi, g in enumerate(GROUPS):
        for di, kind in enumerate(DETECTORS):
            if quick and (gi + di) % 2:
                continue
            groups = gen_pipeline(rng, small=True, only=[g])
            for m in groups[0][1]:
                m["enabled"] = True
            c = gen_case(rng, ["exposure", "sequential"][(gi + di // 2) % 2], groups=groups, fault_pos=(0, 0, 0), steps=1, nruns=2, two=False)
            c["detector"] = kind
            cases.append(("groups", c))
    # the file entry point `pyxel.run(<yaml>)` (what the command line calls), with and without an `outputs:` section
    for i in range(16 if quick else 120):
        c = gen_case(rng, ["exposure", "sequential"][i % 2], no_fault=(i % 8 == 7))
        c.update({"entry": "yaml", "outputs": (i // 2) % 2 == 0})
        cases.append(("yaml", c))
    # parallel path, every class at a run inside the dask graph (k >= 1) and at the eagerly executed first
    # combination (k = 0), with float and integer buckets filled by a writer model in half of the cases: a handler
    # around the task that answers some exception classes with placeholder data must show up for each class
    for n, name in enumerate(EXCS):
        for first in (False, True):
            c = gen_case(rng, "parallel", nruns=3, two=False)
            for _ in range(50):
                if c["fault"] and (c["fault"]["run"] == 0) == first:
                    break
                c = gen_case(rng, "parallel", nruns=3, two=False)
            if c["fault"]:
                c["fault"]["exc"] = name
            c["writer"] = (n % 2 == 0) != first
            cases.append(("parallel-classes", c))
    lean_cases = [(st, c) for st, c in cases]
    answers = LeanDriver("C09").batch([lean_request(c) for _, c in lean_cases])
    for (stream, case), ans in zip(lean_cases, answers):
        if "bad" in ans:
            raise common.InfraError(f"driver rejected request: {ans}")
        impl = run_impl(case)
        ck.case(case, nontrivial=case["fault"] is not None, stream=stream)
        ck.count("mode=" + case["mode"])
        ck.count("detector=" + case.get("detector", "CCD"))
        if case["fault"]:
            ck.count("fault_in_group=" + schedule(case["groups"])[case["fault"]["pos"]][0])
        if case.get("obs_mode"):
            ck.count("parameter_mode=" + case["obs_mode"] + ("/dask" if case["mode"] == "parallel" else ""))
        ck.count("pipeline_seed=" + ("none" if case.get("pipeline_seed") is None else "set"))
        if case["fault"] and case["fault"].get("model_seed") is not None:
            ck.count("fault_inside_model_seed_region")
        if case.get("entry") == "yaml":
            ck.count("yaml_entry:outputs=" + str(bool(case["outputs"])))
        if case["fault"]:
            ck.count("exc=" + case["fault"]["exc"])
            ck.count("fault_in_run>0", int(case["fault"]["run"] > 0))
            ck.count("fault_in_step>0", int(case["fault"]["step"] > 0))
        else:
            ck.count("no_fault")
        pv = property_predicate(case, impl)
        if pv and pv[0].startswith("C09:spurious-error"):
            # an error without any failing model is not what the statement is about: model vs implementation
            err = (impl.get("result") or {}).get("err") or {}
            key = pv[0]
            if case.get("entry") == "yaml" and case["mode"] == "sequential" and case.get("outputs") and "is not in the subpath of" in err.get("msg", ""):
                key += ":pyxel-run-sequential-observation-output-filenames"
            ck.disagreement(stream, case, {"impl": impl, "why": pv[1]}, "runs to completion", key=key)
            continue
        if pv:
            ck.violation(pv[0], pv[1], {"case": case, "impl": impl})
        why = compare(case, impl, ans)
        if why:
            ck.disagreement(stream, case, {"impl": impl, "why": why}, ans)
        # the driver's nested loops and its flat specification agree (theorem runSeq_spec), cheap sanity
        if case["mode"] in ("exposure", "sequential") and ans["trace"] != ans["spec"]["trace"]:
            raise common.InfraError("driver contradicts theorem runSeq_spec")
    # calibration: initial population and evolution phase, the three algorithms
    algos = [dict(type="sade", generations=2, population_size=8), dict(type="sga", generations=2, population_size=6),
             dict(type="nlopt", generations=1, population_size=5, maxeval=8)]
    ncal = 9 if quick else 36
    # corpus (always first): the recorded finding — StopIteration while the initial population is evaluated
    corpus_cal = {"algo": algos[0], "islands": 1, "nth": 3, "exc": "StopIteration"}
    for i in range(-1, ncal):
        if i == -1:
            groups = gen_pipeline(rng, small=True)
            c = gen_case(rng, "calibration", groups=groups, steps=1, no_fault=False, fault_pos=(0, 0, 0))
            c.update({"algo": corpus_cal["algo"], "islands": 1, "pygmo_seed": 4242})
            c["fault"].update({"nth": corpus_cal["nth"], "exc": "StopIteration", "msg": "line one\nline two", "note": None})
            impl = run_impl(c)
            ck.case(c, nontrivial=True, stream="corpus")
            pv = property_predicate(c, impl)
            if pv:
                ck.violation(pv[0], pv[1], {"case": c, "impl": impl})
            continue
        algo = algos[i % 3]
        groups = gen_pipeline(rng, small=True)
        islands = 1 + (i % 2)
        pop = algo["population_size"]
        nth = rng.randrange(1, pop + 1) if i % 2 == 0 else rng.randrange(islands * pop + 1, islands * pop + pop)
        if i == ncal - 1:
            nth = None
        c = gen_case(rng, "calibration", groups=groups, steps=1, no_fault=nth is None,
                     fault_pos=None if nth is None else (0, 0, rng.randrange(len(schedule(groups)))))
        c.update({"algo": algo, "islands": islands, "pygmo_seed": rng.randrange(1, 100000),
                  # declared weights when the fault strikes: none / one per target (>= 2 values) / weight files
                  "cal_weights": [None, "list", "file"][i % 3]})
        ck.count("calibration_weights=" + str(c["cal_weights"]))
        if c["fault"]:
            c["fault"]["nth"] = nth
        if i % 3 == 2 or i == ncal - 1:
            c.update({"entry": "yaml", "outputs": i % 2 == 0})
            ck.count("yaml_entry:outputs=" + str(bool(c["outputs"])))
        impl = run_impl(c)
        ck.case(c, nontrivial=c["fault"] is not None, stream="calibration")
        ck.count("mode=calibration")
        ck.count("calibration_phase=" + ("none" if nth is None else "initial" if nth <= pop else "evolution"))
        pv = property_predicate(c, impl)
        if pv:
            ck.violation(pv[0], pv[1], {"case": c, "impl": impl})
    ck.rule = ("pipelines of 1-3 of the ten groups x 1-3 models (some disabled) on CCD / CMOS / MKID / APD detectors, + a fault in EVERY group on every detector type; calibrations with no weights / per-target weights (2 values) / weight files; "
               "pipelines of 1-3 groups x 1-3 models (some disabled), 1-3 readout steps; exposure, sequential observation over 2-3 values in product / sequential / custom (table file) parameter mode "
               "(x 2 values of a second parameter), the same through the file entry point pyxel.run(<yaml>) with and without an outputs section (exposure, sequential observation, calibration), parallel observation (threads; every class at a run inside the dask graph and at the eager first run, with and without float/integer buckets written), calibration (sade / sga / nlopt; fault at an evaluation of the "
               f"initial population or of an evolution); {len(EXCS)} exception classes (incl. StopIteration, warnings, MemoryError), odd constructors / custom __str__, messages with newlines, "
               "unicode, empty; with and without a declared pipeline seed (incl. 0) and with the failing model raising inside its own seeded region; a fault at EVERY (run, step, position) of small pipelines + random positions + fault-free runs; "
               "non-trivial = a fault is injected")
    ck.assumptions = ["'its type' = exact class outside pygmo's island threads; inside them (evolution phase) only the message and the group/model text are required",
                      "the schedule order of the enabled models is the fixed group order (C01)",
                      "parallel observation: the failing run's error is required at construction (first combination) or at .load(); parameter notes are not required there"]
    ck.trusted_base.append("C09: Python exception propagation (`raise` re-raises the same object, `add_note` appends); dask re-raises the task's exception object; pygmo formats the island's traceback into a RuntimeError")


if __name__ == "__main__":
    if len(sys.argv) > 2 and sys.argv[1] == "--replay":
        common.ensure_repo_on_path()
        rp = json.load(open(sys.argv[2]))
        case = rp["replay"].get("case")
        if case is None:
            print("replay names a broken obligation/correspondence, no concrete input:", rp["what"])
            sys.exit(1)
        impl = run_impl(case)
        pv = property_predicate(case, impl)
        print("impl:", impl)
        print("REPRODUCED: " + pv[1] if pv else "not reproduced (property holds on this input)")
        sys.exit(1 if pv else 0)
    sys.exit(run_check("C09", body))
