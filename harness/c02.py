"""C02 — readout clock and per-step bucket lifecycle (destructive / non-destructive).

obligations: lean/PyxelModel/Props/C02.lean (all schedules incl. ±inf / NaN values, all start times, both
             modes, every prior detector content, every per-step effect of the models)
tie to code : differential run of the real `Readout(...)` constructor (lists, tuples, scalars, bools,
              "numpy.…" / literal strings, .npy / text files), its setters, and `pyxel.run_mode` with a probe
              first and last in every step and a writer in between, against the Lean model (`session`);
              the statement itself is re-evaluated in Python on what the probes saw (`property_predicate`).
"""

from __future__ import annotations

import json
import math
import os
import shutil
import sys
import tempfile
from fractions import Fraction

import common
from common import LeanDriver, run_check

BUCKETS = ["scene", "photon", "charge", "pixel", "signal", "image"]
BIG = 999_999_999


# ------------------------------------------------------------------ float <-> text / X
def fx(s: str) -> float:
    """case text -> float ('nan', 'inf', '-inf' or float.hex)"""
    return float.fromhex(s)


def tx(x: float) -> str:
    x = float(x)
    if math.isnan(x):
        return "nan"
    if math.isinf(x):
        return "inf" if x > 0 else "-inf"
    return x.hex()


def xj(x: float):
    """float -> the driver's X encoding (exact)"""
    x = float(x)
    if math.isnan(x):
        return "nan"
    if math.isinf(x):
        return "inf" if x > 0 else "-inf"
    f = Fraction(x)
    return [f.numerator, f.denominator]


# ------------------------------------------------------------------ generator
def dy(rng, lo=-40, hi=400):
    """dyadic rational with 3 fractional bits (binary64 arithmetic on these is exact)"""
    return rng.randrange(lo * 8, hi * 8 + 1) / 8.0


def gen_increasing(rng, n, first_lo=-30):
    """strictly increasing dyadic times without a zero, and a start time before the first"""
    while True:
        t = dy(rng, first_lo, 60)
        ts = []
        for _ in range(n):
            ts.append(t)
            t += rng.randrange(1, 200) / 8.0
        if all(v != 0 for v in ts):
            break
    start = ts[0] - rng.randrange(1, 120) / 8.0
    if rng.random() < 0.25:
        start = 0.0 if ts[0] > 0 else start
    return start, ts


# tokens of arrays with a non-finite entry (a model flags dead pixels NaN / saturated pixels ±inf)
NAN_TOK, INF_TOK, NINF_TOK = 900_000_001, 900_000_002, 900_000_003


def special_tok(rng, b):
    return rng.choice([NAN_TOK, INF_TOK] if b == "photon" else [NAN_TOK, NAN_TOK, INF_TOK, NINF_TOK])


def gen_plan(rng, n, nonfinite=0.06):
    plan = []
    for _ in range(n):
        ops = []
        for b in BUCKETS:
            r = rng.random()
            if b == "pixel":
                if r < 0.45:
                    ops.append(["add", rng.randrange(1, 50)])
                elif r < 0.65:
                    ops.append(["set", "pixel", rng.randrange(0, 900)])
                elif r < 0.70:
                    ops.append(["set", "pixel", None])
                elif r < 0.70 + nonfinite:
                    ops.append(["set", "pixel", special_tok(rng, b)])
            elif b == "charge":
                if r < 0.45:
                    ops.append(["set", "charge", rng.randrange(1, 900)])
                elif r < 0.6:
                    ops.append(["set", "charge", 10**6 + rng.randrange(1, 900)])  # a cluster in the frame
            elif r < 0.55:
                ops.append(["set", b, rng.randrange(1, 900)])
            elif r < 0.55 + nonfinite / 2 and b in ("photon", "signal"):
                ops.append(["set", b, special_tok(rng, b)])
        rng.shuffle(ops)
        plan.append(ops)
    return plan


def gen_prior(rng):
    toks = []
    for b in BUCKETS:
        if rng.random() < 0.75:
            k = rng.randrange(1, 900)
            if b == "charge" and rng.random() < 0.3:
                k += 10**6
            elif b in ("pixel", "photon", "signal", "charge") and rng.random() < (0.25 if b == "pixel" else 0.1):
                k = special_tok(rng, b)
            toks.append(k)
        else:
            toks.append(0 if b == "pixel" else None)
    earlier = None
    if rng.random() < 0.4:
        n = rng.randrange(1, 4)
        start, ts = gen_increasing(rng, n)
        earlier = {"times": [tx(t) for t in ts], "start": tx(start), "nd": rng.random() < 0.7, "plan": gen_plan(rng, n)}
    return {"tokens": toks, "earlier": earlier, "tokens_after_earlier": rng.random() < 0.7}


FORMS_LIST = ["seq", "tuple", "expr_list", "expr_numpy", "file_npy", "file_npy2d", "file_txt", "file_csv"]


def make_src(rng, ts, form=None):
    """wrap a list of float times in one of the input forms of `Readout(...)`"""
    if form is None:
        form = rng.choice(FORMS_LIST + ["seq", "seq"])
    if len(ts) == 1 and rng.random() < 0.3 and form in ("seq", "tuple"):
        form = "scalar"
    if form == "scalar" and len(ts) != 1:
        form = "seq"
    special = any(math.isnan(t) or math.isinf(t) for t in ts)
    if form == "file_npy2d" and (len(ts) < 2 or len(ts) % 2):
        form = "file_npy"
    if form in ("expr_list",) and special:
        form = "expr_numpy"
    return {"form": form, "values": [tx(t) for t in ts]}


def base_case(rng, start, ts, nd=None, form=None, ops=None, plan_len=None):
    n = len(ts) if plan_len is None else plan_len
    return {
        "src": make_src(rng, ts, form),
        "start": tx(start),
        "nd": (rng.random() < 0.55) if nd is None else nd,
        "ops": ops or [],
        "prior": gen_prior(rng),
        "plan": gen_plan(rng, max(n, 1)),
        "detector": rng.choice(["CCD", "CCD", "CMOS", "APD", "MKID", "MKID"]),
    }


def gen_valid(rng):
    n = rng.choice([1, 1, 2, 2, 3, 3, 4, 5, 6])
    start, ts = gen_increasing(rng, n)
    c = base_case(rng, start, ts)
    r = rng.random()
    if r < 0.06:
        c["src"] = {"form": "default", "values": []}
        c["start"] = tx(rng.choice([0.0, 0.5, -3.0, 0.875]))
        c["plan"] = gen_plan(rng, 1)
    elif r < 0.12:
        c["src"] = {"form": "bool", "values": [tx(1.0)]}
        c["start"] = tx(rng.choice([0.0, 0.5, -3.0]))
        c["plan"] = gen_plan(rng, 1)
    elif r < 0.2:
        # numpy range expressions whose values are dyadic
        a = rng.randrange(1, 40) / 4.0
        k = rng.randrange(1, 6)
        step = rng.choice([0.25, 0.5, 1.0, 2.0])
        if rng.random() < 0.5:
            expr = f"numpy.linspace({a!r}, {a + step * (k - 1)!r}, {k})" if k > 1 else f"numpy.linspace({a!r}, {a!r}, 1)"
        elif rng.random() < 0.5:
            expr = f"numpy.arange({a!r}, {a + step * k!r}, {step!r})"
        else:
            ia = rng.randrange(1, 9)
            expr = f"numpy.arange({ia}, {ia + k})"  # integer dtype branch of eval_range
        c["src"] = {"form": "expr_raw", "expr": expr, "values": []}
        c["start"] = tx(rng.choice([0.0, 0.125, -2.5, a - 0.125]))
        c["plan"] = gen_plan(rng, k)
    return c


def gen_nonfinite_valid(rng):
    n = rng.choice([1, 2, 3])
    start, ts = gen_increasing(rng, n)
    # +inf as last time is valid (DESIGN 6b); an infinite *start* time is outside what the statement defines
    # (all absolute times collapse to -inf / NaN): not generated
    ts = ts[:-1] + [math.inf]
    return base_case(rng, start, ts, form=rng.choice(["seq", "tuple", "expr_numpy", "file_npy", "file_txt"]))


INVALID_KINDS = [
    "zero_first", "zero_later", "zero_later", "zero_last", "equal_pair", "decreasing", "start_equal", "start_after",
    "nan_inside", "nan_first", "nan_single", "nan_start", "nan_start", "inf_inside", "neginf_first", "inf_twice",
    "empty", "scalar_zero", "both", "neg_zero_later", "start_pinf", "expr_empty", "file_empty", "empty_str",
]


def gen_invalid(rng, kind=None):
    kind = kind or rng.choice(INVALID_KINDS)
    n = rng.choice([2, 3, 3, 4, 5])
    start, ts = gen_increasing(rng, n)
    form = None
    if kind == "zero_first":
        ts = [0.0] + [abs(t) + 1 for t in ts[1:]]
        ts = sorted(set(ts))
        start = -rng.randrange(1, 50) / 8.0
    elif kind in ("zero_later", "zero_last", "neg_zero_later"):
        # strictly increasing, start earlier than everything, a zero at position k >= 1
        k = n - 1 if kind == "zero_last" else rng.randrange(1, n)
        neg = sorted(-v / 8.0 for v in rng.sample(range(1, 400), k))
        pos = sorted(v / 8.0 for v in rng.sample(range(1, 400), n - k - 1))
        ts = neg + [-0.0 if kind == "neg_zero_later" else 0.0] + pos
        start = ts[0] - rng.randrange(1, 50) / 8.0
    elif kind == "equal_pair":
        k = rng.randrange(0, n - 1)
        ts[k + 1] = ts[k]
    elif kind == "decreasing":
        k = rng.randrange(0, n - 1)
        ts[k], ts[k + 1] = ts[k + 1], ts[k]
        start = min(ts) - 1.0
    elif kind == "start_equal":
        start = ts[0]
    elif kind == "start_after":
        start = ts[0] + rng.randrange(1, 100) / 8.0
    elif kind == "nan_inside":
        ts[rng.randrange(1, n)] = math.nan
    elif kind == "nan_first":
        ts[0] = math.nan
    elif kind == "nan_single":
        ts = [math.nan]
    elif kind == "nan_start":
        start = math.nan
        if rng.random() < 0.4:
            ts = ts[:1]
    elif kind == "inf_inside":
        ts[rng.randrange(0, n - 1)] = math.inf
    elif kind == "neginf_first":
        ts[0] = -math.inf
        start = rng.choice([-math.inf, ts[1] - 1000.0])
    elif kind == "inf_twice":
        ts = ts[:-2] + [math.inf, math.inf]
    elif kind == "start_pinf":
        start = math.inf
    elif kind == "empty":
        ts, form = [], rng.choice(["seq", "tuple"])
    elif kind == "expr_empty":
        ts, form = [], "expr_numpy"
    elif kind == "file_empty":
        ts, form = [], "file_npy"
    elif kind == "empty_str":
        ts, form = [], "seq"
    elif kind == "scalar_zero":
        ts, form = [rng.choice([0.0, -0.0])], "scalar"
    c = base_case(rng, start, ts, form=form, plan_len=max(len(ts), 1))
    if kind == "scalar_zero":
        c["src"] = {"form": rng.choice(["scalar", "scalar_int"]), "values": [tx(0.0)]}
    if kind == "empty_str":
        c["src"] = {"form": "empty_str", "values": []}
    if kind == "both":
        c["src"] = {"form": "both", "values": [tx(t) for t in ts]}
    c["kind"] = kind
    return c


def gen_setter(rng):
    """valid construction followed by setter calls (the setters check less than the constructor)"""
    n = rng.choice([1, 2, 3, 4])
    start, ts = gen_increasing(rng, n)
    ops = []
    for _ in range(rng.choice([1, 1, 2, 3])):
        r = rng.random()
        if r < 0.5:
            m = rng.choice([1, 2, 3, 4])
            s2, t2 = gen_increasing(rng, m, first_lo=-10)
            q = rng.random()
            if q < 0.3 and m > 1:
                k = rng.randrange(0, m - 1)
                t2[k], t2[k + 1] = t2[k + 1], t2[k]  # non-monotonic: setter lets it in
            elif q < 0.4 and m > 1:
                t2[rng.randrange(1, m)] = 0.0
            elif q < 0.45:
                t2 = []
            elif q < 0.5:
                t2[0] = 0.0
            elif q < 0.55:
                t2[-1] = math.nan
            ops.append(["setTimes", [tx(t) for t in t2]])
        elif r < 0.85:
            q = rng.random()
            if q < 0.5:
                v = ts[0] - rng.randrange(1, 100) / 8.0
            elif q < 0.7:
                v = ts[0] + rng.randrange(0, 100) / 8.0
            elif q < 0.85:
                v = math.nan
            else:
                v = dy(rng, -30, 60)
            ops.append(["setStart", tx(v)])
        else:
            ops.append(["setNd", rng.random() < 0.5])
    c = base_case(rng, start, ts, form=rng.choice(["seq", "tuple", "scalar"]), ops=ops, plan_len=5)
    return c


# ------------------------------------------------------------------ implementation side
def src_values(src):
    """the list of times the case's source denotes (numpy expressions are evaluated by numpy: contract)"""
    if src["form"] == "default":
        return [1.0]
    if src["form"] == "empty_str":
        return []
    if src["form"] == "expr_raw":
        import numpy

        return [float(v) for v in eval(src["expr"], None, {"numpy": numpy})]
    return [fx(s) for s in src["values"]]


def _pylit(x: float) -> str:
    if math.isnan(x):
        return "numpy.nan"
    if math.isinf(x):
        return "numpy.inf" if x > 0 else "-numpy.inf"
    return repr(x)


def readout_kwargs(src, tmpdir):
    """keyword arguments for `Readout(...)` realising the source form"""
    import numpy as np

    form = src["form"]
    vals = [fx(s) for s in src.get("values", [])]
    if form == "default":
        return {}
    if form == "empty_str":
        return {"times": ""}
    if form == "both":
        return {"times": vals, "times_from_file": "whatever.npy"}
    if form == "seq":
        return {"times": list(vals)}
    if form == "tuple":
        return {"times": tuple(vals)}
    if form == "scalar":
        return {"times": vals[0]}
    if form == "scalar_int":
        return {"times": int(vals[0])}
    if form == "bool":
        return {"times": True}
    if form == "expr_list":
        return {"times": "[" + ", ".join(repr(v) for v in vals) + "]"}
    if form == "expr_numpy":
        return {"times": "numpy.array([" + ", ".join(_pylit(v) for v in vals) + "], dtype=float)"}
    if form == "expr_raw":
        return {"times": src["expr"]}
    if form in ("file_npy", "file_npy2d"):
        arr = np.array(vals, dtype=float)
        if form == "file_npy2d":
            arr = arr.reshape(-1, 2)
        path = os.path.join(tmpdir, "times.npy")
        np.save(path, arr)
        return {"times_from_file": path}
    if form in ("file_txt", "file_csv"):
        path = os.path.join(tmpdir, "times.txt" if form == "file_txt" else "times.csv")
        with open(path, "w") as f:
            if form == "file_txt":
                f.write("".join(repr(v) + "\n" for v in vals))
            else:
                f.write(",".join(repr(v) for v in vals) + "\n")
        return {"times_from_file": path}
    raise ValueError(form)


def lean_src(src):
    form = src["form"]
    vals = [xj(v) for v in src_values(src)] if form != "default" else []
    kind = {
        "default": "default", "both": "both", "seq": "seq", "tuple": "seq", "scalar": "scalar", "scalar_int": "scalar",
        "bool": "scalar", "expr_list": "expr", "expr_numpy": "expr", "expr_raw": "expr", "file_npy": "file",
        "file_npy2d": "file", "file_txt": "file", "file_csv": "file", "empty_str": "seq",
    }[form]
    return {"kind": kind, "v": vals}


def lean_src_yaml(src):
    """the `times:` / `times_from_file:` entries of the YAML route, for the model's `srcOfYaml`"""
    form = src["form"]
    vals = [xj(v) for v in src_values(src)] if form not in ("default", "empty_str") else []
    kind = {
        "default": "yaml_absent", "both": "yaml_both", "seq": "yaml_seq", "tuple": "yaml_seq", "scalar": "yaml_num",
        "scalar_int": "yaml_num", "bool": "yaml_num", "expr_list": "yaml_str", "expr_numpy": "yaml_str", "expr_raw": "yaml_str",
        "empty_str": "yaml_empty_str", "file_npy": "yaml_file", "file_npy2d": "yaml_file", "file_txt": "yaml_file",
        "file_csv": "yaml_file",
    }[form]
    return {"kind": kind, "v": vals}


def lean_request(case):
    if "sweep" in case:
        return {"op": "sweep", "start": xj(fx(case["start"])), "nd": case["nd"], "times": [xj(v) for v in src_values(case["src"])],
                "values": [xj(fx(v)) for v in case["sweep"]],
                "prior": case.get("_prior_seen") or [None, None, None, 0, None, None], "plan": case["plan"]}
    ops = []
    for op in case["ops"]:
        if op[0] == "setTimes":
            ops.append(["setTimes", [xj(fx(s)) for s in op[1]]])
        elif op[0] == "setStart":
            ops.append(["setStart", xj(fx(op[1]))])
        else:
            ops.append(["setNd", bool(op[1])])
    return {
        "op": "session", "src": lean_src_yaml(case["src"]) if case.get("route") == "yaml" else lean_src(case["src"]), "start": xj(fx(case["start"])), "nd": case["nd"], "ops": ops,
        # the prior content is whatever the history left: the model takes the tokens the harness *observed*
        # just before the run (filled in by run_impl); theorem `prior_never_leaks` says it is irrelevant
        "prior": case.get("_prior_seen") or [None, None, None, 0, None, None],
        "plan": case["plan"],
    }


def pipeline():
    import pyx

    return pyx.make_pipeline({
        "scene_generation": [{"name": "begin", "func": "probes.c02_probe", "arguments": {"where": "begin"}}],
        "charge_collection": [{"name": "writer", "func": "probes.c02_writer"}],
        "data_processing": [{"name": "end", "func": "probes.c02_probe", "arguments": {"where": "end"}}],
    })


def obs_from_log(log):
    """pair the begin / end probe records of consecutive steps -> (obs, clock consistent?)"""
    obs, rp_same = [], True
    for b, e in zip(log[0::2], log[1::2]):
        if b[1] != "begin" or e[1] != "end" or [tx(v) if isinstance(v, float) else v for v in b[2:9]] != [tx(v) if isinstance(v, float) else v for v in e[2:9]]:
            rp_same = False
        for rec in (b, e):
            same = all((x == y) or (isinstance(x, float) and math.isnan(x) and math.isnan(y)) for x, y in zip(rec[2:9], rec[9]))
            rp_same = rp_same and same
        obs.append([xj(b[2]), xj(b[3]), xj(b[4]), b[5], b[6], b[7], b[8], b[10], e[10]])
    return obs, rp_same


def run_other_mode(case, readout, det, tmpdir):
    """the same readout / pipeline / (dirty) detector through Observation (sequential or dask path) or Calibration:
    every execution of the pipeline inside the mode is one run -> {"runs": [{"obs", "rp_same"} …]}"""
    import probes
    import pyxel
    from pyxel.observation import Observation, ParameterValues

    n = len(readout.times)
    probes.C02["plan"] = list(case["plan"][:n]) * 400  # the writer counts its calls: same plan for every run of the mode
    mode = case["mode"]
    if mode == "observation-dask-times":
        # the scanned parameter IS the readout time (only the dask path honours the key `observation.readout.times`):
        # one one-step run per value, each with the configured start time and mode
        import dask

        obs = Observation(parameters=[ParameterValues(key="observation.readout.times", values=[fx(v) for v in case["sweep"]])],
                          readout=readout, with_dask=True)
        with dask.config.set(scheduler="synchronous"):
            res = pyxel.run_mode(mode=obs, detector=det, pipeline=pipeline(), with_inherited_coords=True)
            if hasattr(res, "load"):
                res.load()
    elif mode in ("observation-seq", "observation-dask"):
        import dask

        obs = Observation(parameters=[ParameterValues(key="detector.environment.temperature", values=[101.0, 102.0])],
                          readout=readout, with_dask=(mode == "observation-dask"))
        with dask.config.set(scheduler="synchronous"):
            res = pyxel.run_mode(mode=obs, detector=det, pipeline=pipeline(), with_inherited_coords=True)
            if hasattr(res, "load"):
                res.load()
    else:
        import numpy as np
        from pyxel.calibration import Algorithm, Calibration
        from pyxel.pipelines import FitnessFunction

        rows, cols = det.geometry.shape
        tf = os.path.join(tmpdir, "target.npy")
        np.save(tf, np.zeros((rows, cols)))
        cal = Calibration(
            target_data_path=[tf], fitness_function=FitnessFunction(func="pyxel.calibration.fitness.sum_of_abs_residuals"),
            algorithm=Algorithm(type="sade", generations=1, population_size=8),
            parameters=[ParameterValues(key="detector.environment.temperature", values="_", boundaries=(100.0, 200.0))],
            readout=readout, result_type="pixel", result_fit_range=(0, rows, 0, cols), target_fit_range=(0, rows, 0, cols),
            pygmo_seed=1, num_islands=1, num_evolutions=1,
        )
        pyxel.run_mode(mode=cal, detector=det, pipeline=pipeline())
    log = list(probes.LOG)
    if not log or len(log) % (2 * n):
        return {"error": "Other:log-not-whole-runs", "stage": "run", "calls": len(log), "msg": f"{len(log)} probe records for runs of {n} steps", "op_ok": []}
    runs = []
    by_det: dict = {}
    for rec in log:  # the records of one detector object are sequential; different objects may interleave (threads)
        by_det.setdefault(rec[11], []).append(rec)
    for recs in by_det.values():
        if len(recs) % (2 * n):
            return {"error": "Other:log-not-whole-runs", "stage": "run", "calls": len(log), "msg": f"{len(recs)} probe records of one detector for runs of {n} steps", "op_ok": []}
        for k in range(0, len(recs), 2 * n):
            obs, same = obs_from_log(recs[k:k + 2 * n])
            runs.append({"obs": obs, "rp_same": same})
    return {"runs": runs, "op_ok": []}


def run_yaml(case, tmpdir):
    """the same session through the YAML entry point: `pyxel.configuration.loads` builds exposure (readout section),
    detector and pipeline; then `pyxel.run_mode`.  -> same result shape as `run_impl`"""
    import probes
    import pyxel
    import yaml
    from pyxel.configuration import loads

    kw = readout_kwargs(case["src"], tmpdir)
    ro = {}
    if "times" in kw:
        v = kw["times"]
        ro["times"] = list(v) if isinstance(v, tuple) else v
    if "times_from_file" in kw:
        ro["times_from_file"] = kw["times_from_file"]
    if case.get("yaml_null_times") and "times" not in ro:
        ro["times"] = None
    ro["start_time"] = fx(case["start"])
    ro["non_destructive"] = bool(case["nd"])
    pipe = {
        "scene_generation": [{"name": "begin", "func": "probes.c02_probe", "enabled": True, "arguments": {"where": "begin"}}],
        "charge_collection": [{"name": "writer", "func": "probes.c02_writer", "enabled": True}],
        "data_processing": [{"name": "end", "func": "probes.c02_probe", "enabled": True, "arguments": {"where": "end"}}],
    }
    doc = {
        "exposure": {"readout": ro},
        "ccd_detector": {
            "geometry": {"row": 2, "col": 3, "total_thickness": 10.0, "pixel_vert_size": 10.0, "pixel_horz_size": 10.0},
            "environment": {"temperature": 100.0},
            "characteristics": {"quantum_efficiency": 0.5, "charge_to_volt_conversion": 1e-6, "pre_amplification": 10.0,
                                "adc_bit_resolution": 16, "adc_voltage_range": [0.0, 5.0], "full_well_capacity": 1000},
        },
        "pipeline": pipe,
    }
    probes.reset()
    probes.C02["calls"], probes.C02["plan"] = 0, case["plan"]
    try:
        cfg = loads(yaml.safe_dump(doc, sort_keys=False))
    except Exception as e:  # noqa: BLE001
        case["_prior_seen"] = [None, None, None, 0, None, None]
        return {"error": common.err_kind(e), "stage": "construct", "calls": len(probes.LOG), "msg": str(e)[:200], "op_ok": []}
    det = cfg.detector
    probes.c02_apply(det, [["set", b, k] for b, k in zip(BUCKETS, case["prior"]["tokens"])])
    case["_prior_seen"] = probes.c02_state(det)
    out = {"op_ok": []}
    try:
        pyxel.run_mode(mode=cfg.exposure, detector=det, pipeline=cfg.pipeline)
    except Exception as e:  # noqa: BLE001
        out.update({"error": common.err_kind(e), "stage": "run", "calls": len(probes.LOG), "msg": str(e)[:200]})
        return out
    log = list(probes.LOG)
    if len(log) % 2:
        out.update({"error": "Other:odd-log", "stage": "run", "calls": len(log)})
        return out
    obs, rp_same = obs_from_log(log)
    out.update({"obs": obs, "rp_same": rp_same})
    return out


def run_impl(case, det=None, shared_tmp=None):
    """-> {"error": kind, "stage": s, "calls": n, "op_ok": [...]} or {"obs": [...], "op_ok": [...], "rp_same": b};
    a history case ({"history": [sub-case …]}) -> {"history": [result of each run, all on ONE detector object]}"""
    import probes
    import pyx
    import pyxel
    from pyxel.exposure import Exposure, Readout

    if "history" in case:
        hdet = pyx.make_detector(case.get("detector", "CCD"), 2, 3)
        probes.c02_apply(hdet, [["set", b, k] for b, k in zip(BUCKETS, case["prior"]["tokens"])])
        # one folder for the whole history: schedule files of the runs are written to the SAME path, one after the other
        htmp = tempfile.mkdtemp(prefix="c02h_")
        try:
            return {"history": [run_impl(sub, hdet, htmp) for sub in case["history"]]}
        finally:
            shutil.rmtree(htmp, ignore_errors=True)
    tmpdir = shared_tmp or tempfile.mkdtemp(prefix="c02_")
    try:
        if case.get("route") == "yaml":
            return run_yaml(case, tmpdir)
        reused = det is not None
        det = det or pyx.make_detector(case.get("detector", "CCD"), 2, 3)
        prior = {"tokens": [], "earlier": None, "tokens_after_earlier": False} if reused else case["prior"]
        earlier = prior.get("earlier")
        if earlier and not prior.get("tokens_after_earlier", True):
            probes.c02_apply(det, [["set", b, k] for b, k in zip(BUCKETS, prior["tokens"])])
        if earlier:
            probes.reset()
            probes.C02["calls"], probes.C02["plan"] = 0, earlier["plan"]
            ro = Readout(times=[fx(s) for s in earlier["times"]], start_time=fx(earlier["start"]), non_destructive=earlier["nd"])
            pyxel.run_mode(mode=Exposure(readout=ro), detector=det, pipeline=pipeline())
        if not reused and (not earlier or prior.get("tokens_after_earlier", True)):
            probes.c02_apply(det, [["set", b, k] for b, k in zip(BUCKETS, prior["tokens"])])
        case["_prior_seen"] = probes.c02_state(det)
        probes.reset()
        probes.C02["calls"], probes.C02["plan"] = 0, case["plan"]
        out = {"op_ok": []}
        try:
            readout = Readout(start_time=fx(case["start"]), non_destructive=case["nd"], **readout_kwargs(case["src"], tmpdir))
        except Exception as e:  # noqa: BLE001
            return {"error": common.err_kind(e), "stage": "construct", "calls": len(probes.LOG), "msg": str(e)[:200], "op_ok": []}
        for op in case["ops"]:
            try:
                if op[0] == "setTimes":
                    readout.times = [fx(s) for s in op[1]]
                elif op[0] == "setStart":
                    readout.start_time = fx(op[1])
                else:
                    readout.non_destructive = bool(op[1])
                out["op_ok"].append(True)
            except Exception:  # noqa: BLE001
                out["op_ok"].append(False)
        try:
            if case.get("mode"):
                return run_other_mode(case, readout, det, tmpdir)
            pyxel.run_mode(mode=Exposure(readout=readout), detector=det, pipeline=pipeline())
        except Exception as e:  # noqa: BLE001
            out.update({"error": common.err_kind(e), "stage": "run", "calls": len(probes.LOG), "msg": str(e)[:200]})
            return out
        log = list(probes.LOG)
        if len(log) % 2:
            out.update({"error": "Other:odd-log", "stage": "run", "calls": len(log)})
            return out
        obs, rp_same = obs_from_log(log)
        out.update({"obs": obs, "rp_same": rp_same})
        return out
    finally:
        if shared_tmp is None:
            shutil.rmtree(tmpdir, ignore_errors=True)


# ------------------------------------------------------------------ the statement, on the implementation's output
def invalid_reason(start, ts):
    """None if (start, ts) is a valid schedule in the statement's sense, else which clause fails (IEEE comparisons)"""
    if len(ts) == 0:
        return "empty"
    if math.isnan(start) or any(math.isnan(t) for t in ts):
        return "nan"
    if any(t == 0 for t in ts):
        return "zero-time"
    if not all(start < t for t in ts[:1]):
        return "start-not-earlier"
    if not all(ts[i] < ts[i + 1] for i in range(len(ts) - 1)):
        return "not-increasing"
    if not all(start < t for t in ts) or not all(ts[i] < ts[j] for i in range(len(ts)) for j in range(i + 1, len(ts))):
        return "not-increasing"
    return None


def effective_schedule(case, impl):
    """(start, times, nd) the object holds when the run starts: constructor arguments, then every setter
    call that did not raise"""
    if case["src"]["form"] == "both":
        return None
    start, ts, nd = fx(case["start"]), src_values(case["src"]), case["nd"]
    for op, ok in zip(case["ops"], impl.get("op_ok", [])):
        if not ok:
            continue
        if op[0] == "setTimes":
            ts = [fx(s) for s in op[1]]
        elif op[0] == "setStart":
            start = fx(op[1])
        else:
            nd = bool(op[1])
    return start, ts, nd


def xf(j):
    if isinstance(j, str):
        return float(j)
    return j[0] / j[1]


def property_predicate(case, impl):
    """-> None or (key, text)"""
    if "history" in impl:  # several runs in a row on one detector object: each judged with its own Readout
        for k, (sub, si) in enumerate(zip(case["history"], impl["history"])):
            why = property_predicate(sub, si)
            if why:
                return (why[0], f"run #{k} of {len(case['history'])} on one detector object: {why[1]}")
        return None
    if "runs" in impl and "sweep" in case:  # Observation scanning the readout time: each run has its own one-time schedule
        wanted = [fx(v) for v in case["sweep"]]
        seen = set()
        for k, run in enumerate(impl["runs"]):
            t_obs = xf(run["obs"][0][0]) if run["obs"] else None
            if t_obs not in wanted:
                return ("C02:clock", f"{case['mode']}, pipeline execution #{k}: models saw time {t_obs}, the scanned readout times are {wanted}")
            seen.add(t_obs)
            sub = dict(case, src={"form": "scalar", "values": [tx(t_obs)]})
            why = property_predicate_one(sub, {"obs": run["obs"], "rp_same": run["rp_same"], "op_ok": []})
            if why:
                return (why[0], f"{case['mode']} (scanned readout time {t_obs}, configured start time {fx(case['start'])}), "
                                f"pipeline execution #{k}: {why[1]}")
        if seen != set(wanted):
            return ("C02:runs-per-time", f"{case['mode']}: scanned readout times {wanted}, executed only {sorted(seen)}")
        return None
    if "runs" in impl:  # Observation / Calibration: every execution of the pipeline is judged like an exposure
        for k, run in enumerate(impl["runs"]):
            why = property_predicate_one(case, {"obs": run["obs"], "rp_same": run["rp_same"], "op_ok": []})
            if why:
                return (why[0], f"{case['mode']}, pipeline execution #{k}: {why[1]}")
        return None
    return property_predicate_one(case, impl)


def property_predicate_one(case, impl):
    if case["src"]["form"] == "both":
        if "error" in impl and impl["calls"] == 0:
            return None
        return ("C02:both-sources-run", "`times` and `times_from_file` both given, yet models executed")
    start0, ts0 = fx(case["start"]), src_values(case["src"])
    if impl.get("stage") == "construct":
        why = invalid_reason(start0, ts0)
        if why is None:
            return ("C02:valid-rejected", f"valid schedule start={start0} times={ts0} refused by the constructor: {impl['error']} {impl.get('msg','')}")
        if impl["calls"]:
            return ("C02:model-ran-before-rejection", "a model executed although the constructor refused the schedule")
        return None
    start, ts, nd = effective_schedule(case, impl)
    why = invalid_reason(start, ts)
    if why is not None:
        if "error" in impl and impl["calls"] == 0:
            return None
        ran = impl["calls"] if "error" in impl else 2 * len(impl["obs"])
        return (f"C02:invalid-accepted:{why}",
                f"schedule start={start} times={ts} is not valid ({why}) but was not rejected before any model executed "
                f"({ran} probe calls happened)")
    if "error" in impl:
        return ("C02:valid-rejected", f"valid schedule start={start} times={ts} failed in {impl['stage']}: {impl['error']} {impl.get('msg','')}")
    obs = impl["obs"]
    n = len(ts)
    if len(obs) != n:
        return ("C02:runs-per-time", f"{len(obs)} pipeline runs for {n} readout times")
    if not impl["rp_same"]:
        return ("C02:clock", "clock differs between first and last probe of a step, or between detector and readout_properties")
    for i, o in enumerate(obs):
        t, st, ab, cnt, first, last, num, beg, end = o
        prev = start if i == 0 else ts[i - 1]
        exp = (ts[i], ts[i] - prev, start + ts[i], i, i == 0, i == n - 1, n)
        got = (xf(t), xf(st), xf(ab), cnt, first, last, num)
        if got != exp:
            return ("C02:clock", f"step {i}: models saw (time, step, abs, count, first, last, n)={got}, statement says {exp}")
        for b, name in zip((0, 1, 2, 4, 5), ("scene", "photon", "charge", "signal", "image")):
            if beg[b] is not None:
                return ("C02:buckets-begin", f"step {i}: {name} holds token {beg[b]} at the beginning of the step (prior/earlier content {case['prior']['tokens']})")
        want = 0 if (not nd or i == 0) else obs[i - 1][8][3]
        if beg[3] != want:
            return ("C02:pixel-begin", f"step {i} ({'non-' if nd else ''}destructive): pixel token {beg[3]} at the beginning, statement says {want}")
    return None


def run_impl_packed(case):
    impl = run_impl(case)
    if "history" in case:
        return impl, [sub.get("_prior_seen") for sub in case["history"]]
    return impl, case.get("_prior_seen")


def pool_map(fn, items):
    """implementation side in forked workers (pyxel is imported lazily inside them)"""
    import multiprocessing as mp

    if len(items) < 8:
        return [fn(x) for x in items]
    with mp.get_context("fork").Pool(min(8, os.cpu_count() or 4)) as pool:
        return pool.map(fn, items, chunksize=4)


def strip_private(case):
    if "history" in case:
        return dict({k: v for k, v in case.items() if not k.startswith("_")}, history=[strip_private(c) for c in case["history"]])
    return {k: v for k, v in case.items() if not k.startswith("_")}


def canon_impl(impl):
    if "error" in impl:
        return {"error": "rejected"}  # which exception class / message / raising function is not part of the property
    return {"obs": impl["obs"]}


def canon_model(model):
    return {"error": "rejected"} if "error" in model else model


# ------------------------------------------------------------------ check
def gen_float(rng, kind=None):
    """valid schedule of arbitrary (non-dyadic) doubles: the clock must match Lean's binary64 `Float` bit for bit.
    kind 'nano': nanosecond-scale irregular sampling; 'near-regular': steps equal up to a relative 1e-9 … 1e-5;
    'linspace': regular decimal sampling (steps differ in the last bits only)"""
    n = rng.choice([1, 2, 3, 5, 8]) if kind is None else rng.choice([2, 3, 4, 6])
    start = rng.choice([0.0, rng.uniform(-50, 50), rng.uniform(-1e-3, 1e-3), rng.uniform(-1e6, 1e6)])
    if kind == "nano":
        start = rng.choice([0.0, 1e-9, rng.uniform(0, 3e-9), -2e-9])
    elif kind in ("near-regular", "linspace"):
        start = rng.choice([0.0, 0.0, rng.uniform(-2, 2)])
    base = rng.choice([1.0, 0.1, 2.5, 1e-3, 60.0])
    t, ts = start, []
    for i in range(n):
        if kind == "nano":
            t = t + rng.choice([1e-9, 2e-9, 4e-9, 6e-9, rng.uniform(1e-10, 9e-9)])
        elif kind == "near-regular":
            t = t + base * (1.0 + rng.choice([-1, 1]) * 10.0 ** rng.uniform(-9, -5.3) * rng.choice([0, 1, 1]))
        elif kind == "linspace":
            t = start + base * (i + 1)
        else:
            t = t + rng.choice([rng.uniform(1e-9, 1e-3), rng.uniform(0.01, 10.0), rng.uniform(1.0, 1e5), 0.1, 1 / 3])
        if t == 0.0 or (ts and t <= ts[-1]) or t <= start:
            t = math.nextafter(max(ts[-1] if ts else start, start), math.inf)
            if t == 0.0:
                t = 5e-324
        ts.append(t)
    c = base_case(rng, start, ts, form=rng.choice(["seq", "tuple", "file_npy", "expr_list"]))
    c["float"] = True
    return c


def gen_modes(rng, mode):
    """a valid schedule run through Observation / Calibration on a detector that already holds content"""
    if mode == "calibration":
        # (time-domain calibration needs target cubes: the default one-readout schedule [1.0] is used, with a start time)
        c = base_case(rng, rng.choice([0.0, 0.25, -2.5, 0.875]), [1.0], nd=rng.random() < 0.8, form="seq", plan_len=1)
        c["src"] = {"form": "default", "values": []}
    else:
        n = rng.choice([1, 2, 3])
        start, ts = gen_increasing(rng, n)
        c = base_case(rng, start, ts, nd=rng.random() < 0.8, form=rng.choice(["seq", "tuple"]))
    c["mode"] = mode
    c["detector"] = "CCD"
    if mode == "calibration":
        # the calibration reads the `pixel` bucket as simulated data: a plan that EMPTIES it (`pixel.update(None)`) makes the
        # fitting code fail for want of data — a harness artefact, not a schedule that is "valid but rejected"
        c["plan"] = [[op for op in step if not (op[0] == "set" and op[1] == "pixel" and op[2] is None)] for step in c["plan"]]
    c["prior"]["tokens"][3] = rng.randrange(1, 900)  # the detector holds pixel charge before the run
    for i, b in enumerate(BUCKETS):
        if c["prior"]["tokens"][i] is None and rng.random() < 0.5:
            c["prior"]["tokens"][i] = rng.randrange(1, 900)
    return c


def gen_tiny_dyadic(rng):
    """exact (dyadic) schedules at the 2^-30 … 2^-34 s scale and nearly regular dyadic ones: compared as rationals"""
    n = rng.choice([2, 3, 4, 5])
    if rng.random() < 0.5:
        u = 2.0 ** -rng.choice([30, 32, 34])
        k, ks = 0, []
        for _ in range(n):
            k += rng.randrange(1, 9)
            ks.append(k)
        start, ts = rng.choice([0.0, -u, -3 * u]), [v * u for v in ks]
    else:
        d, eps = rng.choice([1.0, 0.5, 4.0]), 2.0 ** -rng.choice([20, 24, 28])
        start, t, ts = rng.choice([0.0, -1.0, 0.25]), 0.0, []
        t = start
        for _ in range(n):
            t += d + rng.choice([-1, 0, 1, 2]) * eps
            ts.append(t)
        if any(v == 0 for v in ts):
            ts = [v + 8.0 for v in ts]
    return base_case(rng, start, ts, form=rng.choice(["seq", "tuple", "file_npy"]))


def gen_history(rng):
    """2-3 exposures in a row on ONE detector object: same times and mode with different start times (valid, and
    invalid through the setter), or same start time and different times; every run is judged with its own Readout"""
    n = rng.choice([1, 2, 3])
    start, ts = gen_increasing(rng, n)
    nd = rng.random() < 0.5
    subs = []
    for k in range(rng.choice([2, 3, 3])):
        r = rng.random()
        s_k, t_k, ops = start, ts, []
        if k > 0 and r < 0.6:
            s_k = ts[0] - rng.randrange(1, 200) / 8.0  # same times, another (valid) start time
        elif k > 0 and r < 0.75:
            ops = [["setStart", "nan"]]  # same times, start changed to NaN through the weak setter: must be refused
        elif k > 0 and r < 0.9:
            _, t_k = gen_increasing(rng, rng.choice([1, 2, 3]), first_lo=int(start) + 1)  # same start, other times
            if not all(start < t for t in t_k):
                t_k = ts
        sub = base_case(rng, s_k, t_k, nd=nd if rng.random() < 0.85 else not nd, form=rng.choice(["seq", "tuple"]), ops=ops,
                        plan_len=len(t_k))
        sub["plan"] = gen_plan(rng, len(t_k), nonfinite=0.15)
        sub["prior"] = {"tokens": [], "earlier": None}
        subs.append(sub)
    return {"history": subs, "prior": gen_prior(rng), "detector": rng.choice(["CCD", "CMOS", "APD", "MKID"])}


def gen_file_rewrite(rng):
    """rewrite-and-reload history of ONE schedule file in one process: 2-4 schedules of the same length whose text has
    the same number of bytes (x.0 / x.5 values; .npy files of n values always have the same size) are written to the same
    path one after the other, without any pause; after each write a Readout is built from the file and run.  Every run
    is judged against the schedule written last."""
    n = rng.choice([1, 2, 3, 4])
    form = rng.choice(["file_txt", "file_txt", "file_csv", "file_npy"])
    subs, seen = [], set()
    for _ in range(rng.choice([2, 3, 3, 4])):
        while True:
            ts = sorted(rng.sample(range(2, 20), n))  # halves: 1.0 … 9.5, three characters each
            if tuple(ts) not in seen:
                seen.add(tuple(ts))
                break
        ts = [v / 2.0 for v in ts]
        start = rng.choice([0.0, 0.25, -1.0, 0.5])
        sub = base_case(rng, start, ts, nd=rng.random() < 0.5, form=form, plan_len=n)
        sub["src"] = {"form": form, "values": [tx(t) for t in ts]}
        sub["prior"] = {"tokens": [], "earlier": None}
        subs.append(sub)
    return {"history": subs, "prior": gen_prior(rng), "detector": rng.choice(["CCD", "CMOS", "MKID"]), "file_rewrite": form}


def gen_sweep(rng):
    """dask Observation whose scanned parameter is the readout time, with a start time that is (mostly) not 0"""
    vals = sorted(rng.sample(range(2, 200), rng.choice([2, 3, 4])))
    vals = [v / 4.0 for v in vals]
    start = rng.choice([0.5, 0.25, -3.0, 0.125, 0.0, vals[0] - 0.375])
    c = base_case(rng, start, [vals[-1] + 1.0], nd=rng.random() < 0.5, form="seq", plan_len=1)
    c["mode"], c["detector"], c["sweep"] = "observation-dask-times", "CCD", [tx(v) for v in vals]
    c["prior"]["earlier"] = None
    return c


def to_yaml_route(rng, c):
    """the same case through the YAML entry point (no setter calls, no earlier run; tuples are YAML lists)"""
    c = dict(c, route="yaml", ops=[], detector="CCD")
    c["prior"] = dict(c["prior"], earlier=None)
    if c["src"]["form"] == "default" and rng.random() < 0.5:
        c["yaml_null_times"] = True  # `times:` left empty = null = not given
    return c


def build_cases(rng, tier):
    k = 1 if tier == "quick" else 12
    cases = []
    for _ in range(110 * k):
        cases.append(("valid", gen_valid(rng)))
    for kind in sorted(set(INVALID_KINDS)):
        for _ in range(3 * k):
            cases.append(("invalid", gen_invalid(rng, kind)))
    for _ in range(60 * k):
        cases.append(("invalid", gen_invalid(rng)))
    for _ in range(60 * k):
        cases.append(("setter", gen_setter(rng)))
    for _ in range(20 * k):
        cases.append(("nonfinite", gen_nonfinite_valid(rng)))
    for _ in range(40 * k):
        cases.append(("float", gen_float(rng)))
    for kind in ("nano", "nano", "near-regular", "near-regular", "linspace"):
        for _ in range(6 * k):
            cases.append(("float", gen_float(rng, kind)))
    for _ in range(10 * k):
        cases.append(("valid", gen_tiny_dyadic(rng)))
    for _ in range(30 * k):
        cases.append(("history", gen_history(rng)))
    for _ in range(14 * k):
        cases.append(("file-rewrite", gen_file_rewrite(rng)))
    for _ in range(25 * k):
        c = gen_valid(rng)
        c["plan"] = gen_plan(rng, len(c["plan"]), nonfinite=0.25)
        c["nd"] = rng.random() < 0.35
        c["prior"]["tokens"][3] = special_tok(rng, "pixel") if rng.random() < 0.6 else c["prior"]["tokens"][3]
        cases.append(("nonfinite-content", c))
    for _ in range(8 * k):
        cases.append(("modes", gen_sweep(rng)))
    # YAML route: valid schedules of every form, every falsy `times:` value, and the other ways of being invalid
    for _ in range(24 * k):
        cases.append(("yaml", to_yaml_route(rng, gen_valid(rng))))
    for kind in ("scalar_zero", "scalar_zero", "scalar_zero", "empty", "empty", "empty_str", "empty_str", "both", "zero_first",
                 "zero_later", "nan_start", "start_equal", "decreasing", "expr_empty", "file_empty"):
        for _ in range(k):
            cases.append(("yaml", to_yaml_route(rng, gen_invalid(rng, kind))))
    for _ in range(12 * k):
        cases.append(("yaml", to_yaml_route(rng, gen_invalid(rng))))
    for _ in range(2 * k):
        cases.append(("invalid", gen_invalid(rng, "empty_str")))
    for mode, cnt in (("observation-seq", 10), ("observation-dask", 8), ("calibration", 3)):
        for _ in range(cnt * k):
            cases.append(("modes", gen_modes(rng, mode)))
    return cases


def body(ck: common.Check):
    ck.obligations(["PyxelModel.Props.C02"], ["PyxelModel.Drive.C02"])
    cases = build_cases(ck.rng, ck.tier)
    packed = pool_map(run_impl_packed, [c for _, c in cases])  # forked workers; the prior content each run saw comes back
    impls0 = []
    for (_, c), (impl, seen) in zip(cases, packed):
        if "history" in c:
            for sub, sv in zip(c["history"], seen):
                sub["_prior_seen"] = sv
        else:
            c["_prior_seen"] = seen
        impls0.append(impl)
    # a history case is unfolded into its runs: every run is judged with its own Readout and compared with its own
    # Lean session (whole = the history case, kept for the replay)
    units = []
    for (stream, case), impl in zip(cases, impls0):
        if "history" in case:
            ck.count("history-runs", len(case["history"]))
            for k, (sub, si) in enumerate(zip(case["history"], impl["history"])):
                units.append((stream, sub, si, (case, k)))
        else:
            units.append((stream, case, impl, None))
    cases = [(st, c) for st, c, _, _ in units]
    impls = [i for _, _, i, _ in units]
    wholes = [w for _, _, _, w in units]
    answers = LeanDriver("C02").batch([lean_request(c) for _, c in cases])
    # arbitrary doubles: the same generic `steps` evaluated at Lean's `Float`, bit for bit
    fl = [(c, i) for (st, c), i in zip(cases, impls) if st == "float" and "obs" in i]
    fans = LeanDriver("C02").batch([{"op": "floatclock", "start": common.float_bits(fx(c["start"])),
                                     "times": [common.float_bits(v) for v in src_values(c["src"])]} for c, _ in fl])
    for (c, i), a in zip(fl, fans):
        if "bad" in a:
            raise common.InfraError(f"driver rejected request: {a}")
        got_steps = [common.float_bits(xf(o[1])) for o in i["obs"]]
        got_abs = [common.float_bits(xf(o[2])) for o in i["obs"]]
        ck.evaluations += 1
        if got_steps != a["steps"] or got_abs != a["abs"]:
            ck.disagreement("float-bits", {k: v for k, v in c.items() if not k.startswith("_")}, [got_steps, got_abs], [a["steps"], a["abs"]])
    for (stream, case), impl, ans, whole in zip(cases, impls, answers, wholes):
        if "bad" in ans:
            raise common.InfraError(f"driver rejected request: {ans} for {case}")
        public = {k: v for k, v in case.items() if not k.startswith("_")}
        steps = len(impl["runs"][0]["obs"]) if "runs" in impl else len(impl.get("obs", []))
        if "mode" in case:
            ck.count("mode=" + case["mode"])
            ck.count("mode-pipeline-executions", len(impl.get("runs", [])))
        ck.case(public, nontrivial=(steps >= 2 or "error" in impl), stream=stream)
        ck.count("form=" + case["src"]["form"])
        ck.count("outcome=" + (impl.get("error", "ok") + ("@" + impl["stage"] if "stage" in impl else "")))
        ck.count(f"steps={steps}")
        ck.count("nd" if case["nd"] else "destructive")
        ck.count("detector=" + (whole[0] if whole else case).get("detector", "CCD"))
        if case["prior"]["earlier"]:
            ck.count("prior=earlier-run")
        if "kind" in case:
            ck.count("invalid-kind=" + case["kind"])
        why = property_predicate(case, impl)
        replay = {"case": public, "impl": impl, "model": ans.get("model", ans.get("runs"))}
        if whole is not None:
            wc, k = whole
            replay = {"case": strip_private(wc), "run": k, "impl": impl, "model": ans.get("model")}
            if why is not None:
                why = (why[0], f"run #{k} of {len(wc['history'])} on one detector object: {why[1]}")
        if why is not None:
            ck.violation(why[0], why[1], replay)
        if "runs" in impl and "sweep" in case:
            by_val = {json.dumps(v): m for v, m in zip(lean_request(case)["values"], ans["runs"])}
            for run in impl["runs"]:
                m = by_val.get(json.dumps(run["obs"][0][0])) if run["obs"] else None
                if m is None or {"obs": run["obs"]} != m:
                    ck.disagreement(stream, public, {"obs": run["obs"]}, m)
                    break
            continue
        if "runs" in impl:
            for run in impl["runs"]:
                if {"obs": run["obs"]} != ans["model"]:
                    ck.disagreement(stream, public, {"obs": run["obs"]}, ans["model"])
                    break
            continue
        mine, model = canon_impl(impl), canon_model(ans["model"])
        if stream == "float" and "obs" in mine and "obs" in model:
            # arbitrary doubles: the rational model's `t − prev` / `start + t` are the *unrounded* values; these two
            # fields are compared with the `Float` model instead (bit for bit, above)
            mask = lambda obs: [[o[0], None, None] + o[3:] for o in obs]  # noqa: E731
            mine, model = {"obs": mask(mine["obs"])}, {"obs": mask(model["obs"])}
        if mine != model:
            ck.disagreement(stream, public, mine, model)
        # harness self-check: the Python reading of "valid" and the Lean `ValidSpec` must coincide
        if impl.get("stage") != "construct" and case["src"]["form"] != "both" and ans["spec"]["valid"] is not None:
            start, ts, _ = effective_schedule(case, impl)
            lean_ops_same = ans["final"]["times"] == [xj(t) for t in ts] and ans["final"]["start"] == xj(start)
            if lean_ops_same and (invalid_reason(start, ts) is None) != ans["spec"]["valid"]:
                raise common.InfraError(f"python predicate and Lean ValidSpec disagree on {start} {ts}")
    ck.rule = ("schedules of 1-6 dyadic times (lists, tuples, scalars, bool, literal / numpy strings, .npy 1-D/2-D, .txt, .csv, "
               "default), start times before/at/after the first time, ±inf and NaN values, every way of being invalid "
               "(zero first/later/last, equal, decreasing, start ≥ first, NaN anywhere, inf inside, empty, both sources), setter "
               "calls after construction; destructive / non-destructive; random per-step writes to all six buckets (set, "
               "accumulate, clear, charge clusters); prior content: direct fill and/or an earlier run on the same detector; "
               "the same sessions through the YAML entry point (every form, every falsy `times:` value 0 / 0.0 / -0.0 / [] / \"\", null = default); "
               "dask Observation scanning `observation.readout.times` with a non-zero start time; "
               "the same sessions through Observation (sequential and dask path) and Calibration on a detector that already holds pixel "
               "charge, every pipeline execution inside the mode judged like an exposure; nanosecond-scale, 2^-30 s-scale and nearly "
               "regular schedules (steps equal up to 1e-9…1e-5 relative); a stream of arbitrary (non-dyadic) doubles whose time steps / absolute times are compared bit for bit with the "
               "same `steps` evaluated at Lean's binary64 Float; non-trivial = ≥ 2 steps or a rejection; distinct by canonical JSON")
    ck.assumptions = [
        "valid schedule (DESIGN 6b): non-empty, every time ≠ 0, start < every time (NaN is not earlier than anything), strictly increasing; +inf as last time is valid",
        "containers are empty: scene/photon/signal/image hold nothing; charge holds an all-zero array and no clusters",
        "a schedule refused by `Readout(...)` or by `run_mode` before the first probe call counts as 'rejected before any model executes'",
        "times are dyadic rationals, so binary64 `-`/`+` are exact and the model's rational clock must match bit for bit",
    ]
    ck.trusted_base.append("C02: numpy evaluates 'numpy.linspace/arange/array' strings and np.load/pandas read files to the values the harness computes with the same calls; "
                           "probes read private `_array`/`_frame` fields to observe without initialising")


if __name__ == "__main__":
    if len(sys.argv) > 2 and sys.argv[1] == "--replay":
        common.ensure_repo_on_path()
        rp = json.load(open(sys.argv[2]))
        case = rp["replay"].get("case")
        if case is None:
            print("replay names a broken obligation/correspondence, no concrete input:", rp["what"])
            sys.exit(1)
        impl = run_impl(case)
        why = property_predicate(case, impl)
        print("impl:", impl)
        print("REPRODUCED: " + why[0] + " — " + why[1] if why else "not reproduced (property holds on this input)")
        sys.exit(1 if why else 0)
    sys.exit(run_check("C02", body))
