"""C12 — a configuration file means what it says, and nonsense is refused.

obligations: lean/PyxelModel/Props/C12.lean — guard theorems for ALL numbers over the guard table re-extracted from
             /repo (ast of every `if …: raise` in the constructors and property setters), loader theorems.
tie to code : Generated/C12.lean (guards, key lists, `!= 1` tests, if/elif order) + differential run of the REAL
              constructors, property setters, Processor.set (native and textual), and `pyxel.configuration.loads`
              on generated documents, against the Lean model.
oracle      : the statement on the implementation: a number inside the documented range is accepted and stored
              unchanged on every path, one outside is refused on every path; exactly one mode / detector; every
              setting of a loaded document equals the value written; YAML-built and Python-built objects give
              identical results.
"""

from __future__ import annotations

import itertools
import json
import math
import shutil
import sys
import tempfile
from fractions import Fraction

import common
from common import LeanDriver, run_check

KINDS = ["CCD", "CMOS", "MKID", "APD"]
DET_KEY = {"CCD": "ccd_detector", "CMOS": "cmos_detector", "MKID": "mkid_detector", "APD": "apd_detector"}
SECTION_OF = {"Geometry": "geometry", "Environment": "environment", "Characteristics": "characteristics",
              "APDCharacteristics": "characteristics"}
INT_ONLY = {("Geometry", "row"), ("Geometry", "col")}
# the statement's table (independent copy of Model/C12.lean `specOf`): lo, lo strict, hi
SPEC = {
    ("Geometry", "row"): (0, True, None), ("Geometry", "col"): (0, True, None),
    ("Geometry", "total_thickness"): (0, False, 10000), ("Geometry", "pixel_vert_size"): (0, False, 1000),
    ("Geometry", "pixel_horz_size"): (0, False, 1000), ("Geometry", "pixel_scale"): (0, False, 1000),
    ("Characteristics", "quantum_efficiency"): (0, False, 1), ("Characteristics", "charge_to_volt_conversion"): (0, False, 100),
    ("Characteristics", "pre_amplification"): (0, False, 10000), ("Characteristics", "full_well_capacity"): (0, False, 10000000),
    ("Characteristics", "adc_bit_resolution"): (4, False, 64),
    ("Environment", "temperature"): (0, True, 1000), ("Environment", "wavelength"): (0, True, None),
    ("APDCharacteristics", "quantum_efficiency"): (0, False, 1), ("APDCharacteristics", "full_well_capacity"): (0, False, 10000000),
    ("APDCharacteristics", "adc_bit_resolution"): (4, False, 64), ("APDCharacteristics", "avalanche_gain"): (1, False, 1000),
    # mode-level settings
    ("Calibration", "pygmo_seed"): (0, False, 100000), ("Calibration", "num_islands"): (1, False, None),
    ("Calibration", "num_best_decisions"): (0, False, None),
    ("Algorithm", "generations"): (1, False, 100000), ("Algorithm", "population_size"): (1, False, 100000),
    ("Algorithm", "variant"): (1, False, 18), ("Algorithm", "variant_adptv"): (1, False, 2),
    ("Algorithm", "cr"): (0, False, 1), ("Algorithm", "m"): (0, False, 1),
}
DETECTOR_CLASSES = {"Geometry", "Environment", "Characteristics", "APDCharacteristics"}



def _same_func(model, dotted: str) -> bool:
    """does the loaded model designate the function written in the file ?  (public view: the callable it resolves to;
    the private attribute holding the dotted path is used when present, a rename of it must not matter)"""
    name = getattr(model, "_func_name", None)
    if isinstance(name, str):
        return name == dotted
    try:
        from pyxel.evaluator import evaluate_reference

        return model.func is evaluate_reference(dotted)
    except Exception:  # noqa: BLE001
        return False


def in_spec(cf, x):
    lo, strict, hi = SPEC[cf]
    if isinstance(x, float) and x != x:
        return False
    if x == float("-inf"):
        return False
    if x == float("inf"):
        return hi is None
    q = Fraction(x)
    if not (lo < q if strict else lo <= q):
        return False
    return hi is None or q <= hi


# ------------------------------------------------------------------ numbers
def num_json(x):
    if isinstance(x, float):
        if x != x:
            return "nan"
        if x == float("inf"):
            return "pinf"
        if x == float("-inf"):
            return "ninf"
    q = Fraction(x)
    return {"q": [str(q.numerator), str(q.denominator)]}


def tag_num(x):
    """replayable description of a Python number"""
    if isinstance(x, bool):
        return ["bool", x]
    if isinstance(x, int):
        return ["int", str(x)]
    return ["float", float(x).hex() if x == x and abs(x) != float("inf") else repr(x)]


def untag_num(t):
    if t[0] == "int":
        return int(t[1])
    if t[0] == "bool":
        return bool(t[1])
    s = t[1]
    return float.fromhex(s) if s.startswith(("0x", "-0x")) else float(s)


def points_for(consts, cf, rng, quick):
    ks = sorted({Fraction(0), Fraction(1)} | set(consts))
    out = []
    for k in ks:
        ki = int(k)
        for d in (-1, 0, 1):
            out.append(ki + d)
        if cf in INT_ONLY:
            continue
        kf = float(k)
        out += [kf, math.nextafter(kf, -math.inf), math.nextafter(kf, math.inf), kf - 0.5, kf + 0.5]
    if cf in INT_ONLY:
        out += [-5, 2, 17, 1000]
    else:
        for a, b in zip(ks, ks[1:]):
            out.append(float((a + b) / 2))
        out += [float("nan"), float("inf"), float("-inf"), -0.0, 5e-324, 1e300, -1e300, 0.3, 2.5]
        out += [rng.uniform(-2, 2) * float(rng.choice(ks) or 1) for _ in range(2 if quick else 12)]
    seen, res = set(), []
    for x in out:
        key = (type(x).__name__, repr(x))
        if key not in seen:
            seen.add(key)
            res.append(x)
    return res


# ------------------------------------------------------------------ building things
def geometry_class(kind):
    from pyxel.detectors import APDGeometry, CCDGeometry, CMOSGeometry, MKIDGeometry

    return {"CCD": CCDGeometry, "CMOS": CMOSGeometry, "MKID": MKIDGeometry, "APD": APDGeometry}[kind]


def section_doc(kind):
    geo = {"row": 3, "col": 4, "total_thickness": 40.0, "pixel_vert_size": 10.0, "pixel_horz_size": 10.0}
    env = {"temperature": 200.0}
    if kind == "APD":
        ch = {"roic_gain": 0.8, "quantum_efficiency": 0.9, "full_well_capacity": 100000, "adc_bit_resolution": 16,
              "adc_voltage_range": [0.0, 10.0], "avalanche_gain": 2.0, "pixel_reset_voltage": 5.0}
    else:
        ch = {"quantum_efficiency": 0.9, "charge_to_volt_conversion": 1e-6, "pre_amplification": 100.0,
              "full_well_capacity": 100000, "adc_bit_resolution": 16, "adc_voltage_range": [0.0, 10.0]}
    return {"geometry": geo, "environment": env, "characteristics": ch}


def make_section(kind, cls, kwargs):
    from pyxel.detectors import APDCharacteristics, Characteristics, Environment

    if cls == "Geometry":
        return geometry_class(kind)(**kwargs)
    if cls == "Environment":
        return Environment(**kwargs)
    if cls == "Characteristics":
        return Characteristics(**kwargs)
    return APDCharacteristics(**kwargs)


def outcome(f, *a, **kw):
    try:
        return "ok", f(*a, **kw)
    except Exception as e:  # noqa: BLE001
        return common.err_kind(e), str(e)[:140]


def stored(obj, field):
    """the value the object now holds for `field`: its property, or (getter refusing a falsy value) its to_dict entry"""
    try:
        return getattr(obj, field)
    except ValueError:
        return obj.to_dict().get(field, "<missing>")


def same_number(a, b):
    if isinstance(a, float) and a != a:
        return isinstance(b, float) and b != b
    try:
        return type(a) is type(b) and a == b and math.copysign(1, a) == math.copysign(1, b)
    except TypeError:
        return False


def run_guard_impl(case):
    """one (class, field, number, detector kind): outcome on every path"""
    import yaml
    import pyx
    from pyxel.configuration import loads
    from pyxel.pipelines import DetectionPipeline, Processor

    cls, field, kind = case["cls"], case["field"], case["kind"]
    x = untag_num(case["x"])
    sect = SECTION_OF[cls]
    doc = section_doc(kind)
    out = {}
    # constructor
    kw = dict(doc[sect])
    kw[field] = x
    if "adc_voltage_range" in kw:
        kw["adc_voltage_range"] = tuple(kw["adc_voltage_range"])
    r, obj = outcome(make_section, kind, cls, kw)
    out["ctor"] = r
    if r == "ok":
        st = stored(obj, field)
        if cls == "Environment" and isinstance(x, int):
            out["ctor_stored_ok"] = st == x  # Environment stores float(temperature) / float(wavelength)
        else:
            out["ctor_stored_ok"] = same_number(st, x)
    # setter
    kw0 = dict(doc[sect])
    if "adc_voltage_range" in kw0:
        kw0["adc_voltage_range"] = tuple(kw0["adc_voltage_range"])
    obj = make_section(kind, cls, kw0)
    before = dict(obj.to_dict())
    r, _ = outcome(setattr, obj, field, x)
    out["setter"] = r
    after = obj.to_dict()
    if r == "ok":
        out["setter_stored_ok"] = same_number(stored(obj, field), x)
    else:
        out["setter_unchanged"] = repr(after) == repr(before)
    # sweep / override: Processor.set with the number itself, and with its text
    for name, val in (("sweep", x), ("sweep_text", None)):
        if name == "sweep_text":
            if isinstance(x, float) and (x != x or abs(x) == float("inf")):
                continue
            val = repr(x)
        proc = Processor(detector=pyx.make_detector(kind, 3, 4), pipeline=DetectionPipeline())
        r, _ = outcome(proc.set, "detector.%s.%s" % (sect, field), val)
        out[name] = r
        if r == "ok":
            got = stored(getattr(proc.detector, sect), field)
            out[name + "_stored_ok"] = same_number(got, x)
    # YAML
    ydoc = {"exposure": {}, DET_KEY[kind]: json.loads(json.dumps(doc)), "pipeline": {}}
    ydoc[DET_KEY[kind]][sect][field] = x
    text = yaml.safe_dump(ydoc, sort_keys=False)
    r, cfg = outcome(loads, text)
    out["yaml"] = r
    if r == "ok":
        got = stored(getattr(cfg.detector, sect), field)
        if cls == "Environment" and isinstance(x, int):
            out["yaml_stored_ok"] = got == x
        else:
            out["yaml_stored_ok"] = same_number(got, x)
    return out


CTOR_PATHS = ("ctor", "yaml")
SETTER_PATHS = ("setter", "sweep", "sweep_text")


def guard_predicate(case, impl):
    cf = (case["cls"], case["field"])
    x = untag_num(case["x"])
    if cf in INT_ONLY and not isinstance(x, int):
        return None
    inside = in_spec(cf, x)
    for path in CTOR_PATHS + SETTER_PATHS:
        if path not in impl:
            continue
        acc = impl[path] == "ok"
        if inside and not acc:
            return ("%s.%s:%s:rejects-in-range" % (cf[0], cf[1], path),
                    "%s.%s = %r is inside the documented range but the %s path refused it (%s)" % (cf[0], cf[1], x, path, impl[path]))
        if not inside and acc:
            return ("%s.%s:%s:accepts-out-of-range" % (cf[0], cf[1], path),
                    "%s.%s = %r is outside the documented range %s but the %s path accepted it"
                    % (cf[0], cf[1], x, fmt_range(SPEC[cf]), path))
        if acc and impl.get(path + "_stored_ok") is False:
            return ("%s.%s:%s:stored-differs" % (cf[0], cf[1], path),
                    "%s.%s = %r was accepted on the %s path but a different value is stored" % (cf[0], cf[1], x, path))
    if impl.get("setter_unchanged") is False:
        return ("%s.%s:setter:refused-but-changed" % cf, "refused assignment of %r changed the object" % (x,))
    return None


def fmt_range(r):
    lo, strict, hi = r
    return "%s%s, %s" % ("(" if strict else "[", lo, ("%s]" % hi) if hi is not None else "inf)")


# ------------------------------------------------------------------ voltage range (non-numeric guard)
VR_VALUES = [["tuple", [0.0, 5.0]], ["list", [0, 5]], ["tuple", [1.0]], ["tuple", []], ["list", []], ["tuple", [1, 2, 3]],
             ["list", [1, 2, 3, 4]], ["int", 5], ["float", 2.5], ["str", "ab"], ["str", "abc"]]


def vr_value(t):
    k, v = t
    return {"tuple": tuple, "list": list}.get(k, lambda z: z)(v)


def run_vr_impl(case):
    kind = case["kind"]
    cls = "APDCharacteristics" if kind == "APD" else "Characteristics"
    v = vr_value(case["value"])
    doc = section_doc(kind)["characteristics"]
    kw = dict(doc)
    kw["adc_voltage_range"] = v
    out = {"ctor": outcome(make_section, kind, cls, kw)[0]}
    kw0 = dict(doc)
    kw0["adc_voltage_range"] = tuple(kw0["adc_voltage_range"])
    obj = make_section(kind, cls, kw0)
    out["setter"] = outcome(setattr, obj, "adc_voltage_range", v)[0]
    return out


def vr_predicate(case, impl):
    v = vr_value(case["value"])
    cls = "APDCharacteristics" if case["kind"] == "APD" else "Characteristics"
    ok_len2 = isinstance(v, (list, tuple, str)) and len(v) == 2
    for path in ("ctor", "setter"):
        acc = impl[path] == "ok"
        if ok_len2 and not acc:
            return "%s.adc_voltage_range:%s:rejects-pair" % (cls, path), "a pair %r was refused on the %s path" % (v, path)
        if not ok_len2 and acc:
            return ("%s.adc_voltage_range:%s:accepts-non-pair" % (cls, path),
                    "adc_voltage_range = %r is not a pair of voltages but the %s path accepted it" % (v, path))
    return None


# ------------------------------------------------------------------ exactly one mode / detector
def mode_docs(tmp):
    cal = {"target_data_path": [tmp + "/target.npy"],
           "fitness_function": {"func": "pyxel.calibration.fitness.sum_of_abs_residuals"},
           "algorithm": {"type": "sade", "generations": 2, "population_size": 8},
           "parameters": [{"key": "detector.characteristics.quantum_efficiency", "values": "_", "boundaries": [0.1, 0.9]}],
           "result_fit_range": [0, 3, 0, 4], "target_fit_range": [0, 3, 0, 4]}
    obs = {"parameters": [{"key": "detector.environment.temperature", "values": [100, 200]}]}
    return {"exposure": {}, "observation": obs, "calibration": cal}


MODE_CLASS = {"exposure": "Exposure", "observation": "Observation", "calibration": "Calibration"}
DET_CLASS = {"ccd_detector": "CCD", "cmos_detector": "CMOS", "mkid_detector": "MKID", "apd_detector": "APD"}


def run_one_impl(case, tmp):
    import yaml
    from pyxel.configuration import loads

    md = mode_docs(tmp)
    doc = {}
    for k in case["present"]:
        if k == "pipeline":
            doc[k] = {}
        elif k in md:
            doc[k] = md[k]
        elif k in DET_CLASS:
            doc[k] = section_doc(DET_CLASS[k])
        else:
            doc[k] = {"note": 1}
    r, cfg = outcome(loads, yaml.safe_dump(doc, sort_keys=False))
    if r != "ok":
        return {"err": r, "msg": cfg}
    mode = [k for k, c in MODE_CLASS.items() if type(cfg.running_mode).__name__ == c]
    det = [k for k, c in DET_CLASS.items() if type(cfg.detector).__name__ == c]
    return {"ok": [mode[0] if mode else "?", det[0] if det else "?"]}


def one_predicate(case, impl):
    pres = case["present"]
    nm = sum(1 for k in MODE_CLASS if k in pres)
    nd = sum(1 for k in DET_CLASS if k in pres)
    if "pipeline" not in pres:
        return None
    if nm != 1 or nd != 1:
        if "ok" in impl:
            return ("loader:accepts-%d-modes-%d-detectors" % (nm, nd),
                    "a document with %d running mode(s) and %d detector(s) (%s) was loaded as %s" % (nm, nd, pres, impl["ok"]))
        return None
    if "err" in impl:
        return "loader:rejects-one-mode-one-detector", "document %s refused: %s %s" % (pres, impl["err"], impl.get("msg"))
    m = [k for k in MODE_CLASS if k in pres][0]
    d = [k for k in DET_CLASS if k in pres][0]
    if impl["ok"] != [m, d]:
        return "loader:wrong-objects", "document %s loaded as %s" % (pres, impl["ok"])
    return None


# ------------------------------------------------------------------ whole documents
ARG_VALUES = [1, 0, -7, 2.5, 1e-9, "abc", "", True, False, None, [1, 2, [3, "x"]], [0.5], {"k": 1}, "data/img.fits"]
_FIXED_EXPR = [
    ("[1, 2, 4]", [1, 2, 4]), ("numpy.linspace(1, 4, 4)", [1.0, 2.0, 3.0, 4.0]), ("numpy.arange(1, 6, 2)", [1, 3, 5]),
    ("numpy.arange(0.5, 2.5, 0.5)", [0.5, 1.0, 1.5, 2.0]), ("range(1, 4)", [1, 2, 3]), ("numpy.logspace(0, 2, 3)", [1.0, 10.0, 100.0]),
    ("numpy.array([1, 5, 9]) / 2", [0.5, 2.5, 4.5]), ("(2, 3)", [2, 3]),
]
# expressions whose values need more than 12 decimals (tiny magnitudes, thirds, long mantissas, fractional steps):
# the numbers they denote are what numpy itself computes — evaluated by the harness, compared bit for bit
_NUMPY_EXPR = [
    "numpy.logspace(-14, -12, 3)", "numpy.linspace(1, 2, 4)", "numpy.linspace(1e-13, 4e-13, 4)", "numpy.arange(0.1, 0.75, 0.1)",
    "numpy.linspace(0.1, 0.9, 7)", "numpy.array([1, 2, 3]) / 7", "numpy.geomspace(1e-15, 1e-3, 5)", "numpy.linspace(1/3, 2/3, 3)",
    "numpy.arange(1, 2, 1/7)", "numpy.linspace(0.123456789012345, 0.987654321098765, 5)", "numpy.sqrt(numpy.arange(2, 6))",
    "numpy.arange(1e-9, 5e-9, 1.1e-9)", "numpy.cumsum(numpy.full(6, 0.1))", "numpy.logspace(-3, 0, 4) / 3",
]
_RANGE_CACHE = []


def denote_expr(expr):
    """the numbers a numpy expression denotes: numpy's own evaluation (floats stay floats, ints stay ints)"""
    import numpy

    arr = eval(expr, {"numpy": numpy}, {})  # noqa: S307
    return [float(v) for v in arr] if arr.dtype == float else [int(v) for v in arr]


def range_exprs():
    if not _RANGE_CACHE:
        _RANGE_CACHE.extend(_FIXED_EXPR)
        _RANGE_CACHE.extend((e, denote_expr(e)) for e in _NUMPY_EXPR)
    return _RANGE_CACHE


def gen_document(rng):
    kind = rng.choice(KINDS)
    det = section_doc(kind)
    # random in-range values for the validated fields, optional ones sometimes dropped
    det["geometry"].update(row=rng.choice([1, 2, 3, 5]), col=rng.choice([1, 2, 4]),
                           total_thickness=rng.choice([1, 40.0, 10000, 0.5]),
                           pixel_vert_size=rng.choice([1, 10.0, 1000.0]), pixel_horz_size=rng.choice([0.25, 18, 1000]))
    if rng.random() < 0.5:
        det["geometry"]["pixel_scale"] = rng.choice([0, 0.0, 1.5, 1000])
    for f in ("total_thickness", "pixel_vert_size", "pixel_horz_size"):
        if rng.random() < 0.15:
            del det["geometry"][f]
    det["environment"] = rng.choice([{"temperature": 77}, {"temperature": 1000.0}, {}, {"temperature": 1e-3, "wavelength": 550.0},
                                     {"temperature": 300, "wavelength": {"cut_on": 400.0, "cut_off": 800.0, "resolution": 100}}])
    ch = det["characteristics"]
    ch["quantum_efficiency"] = rng.choice([0, 1, 0.5, 1.0, 0.0])
    ch["full_well_capacity"] = rng.choice([0, 1, 10000000, 2500.5])
    ch["adc_bit_resolution"] = rng.choice([4, 8, 16, 32, 64])
    ch["adc_voltage_range"] = rng.choice([[0.0, 5.0], [-1, 1], [2.5, 0.5]])
    if kind != "APD":
        ch["charge_to_volt_conversion"] = rng.choice([0, 1e-6, 100, 3.0e-6])
        ch["pre_amplification"] = rng.choice([0, 1, 10000, 4.25])
        for f in list(ch):
            if rng.random() < 0.12:
                del ch[f]
    else:
        ch["avalanche_gain"] = rng.choice([1, 1.0, 2.0, 1000, 30.5])
    pipeline = {}
    import random as _r  # noqa: F401

    groups = ["photon_collection", "charge_generation", "charge_collection", "charge_measurement", "readout_electronics", "data_processing"]
    for g in rng.sample(groups, rng.choice([0, 1, 2, 3])):
        ms = []
        for i in range(rng.choice([1, 2])):
            args = {a: rng.choice(ARG_VALUES) for a in rng.sample(["level", "alpha", "option", "lst", "seed"], rng.choice([0, 1, 2, 3]))}
            m = {"name": "m%d_%s" % (i, g[:4]), "func": "probes.trace", "enabled": rng.random() < 0.75, "arguments": args}
            if rng.random() < 0.2:
                del m["enabled"]
            if not args and rng.random() < 0.5:
                del m["arguments"]
            ms.append(m)
        pipeline[g] = ms
    if rng.random() < 0.6:
        pipeline.setdefault("readout_electronics", []).append(
            {"name": "writer", "func": "probes.write_image", "enabled": True, "arguments": {"value": rng.choice([1, 7, 300])}})
    if rng.random() < 0.15:
        pipeline["phasing"] = None
    mode = rng.choice(["exposure", "exposure", "observation"])
    expr, expected_times = rng.choice(range_exprs())
    readout = rng.choice([None, {}, {"times": expected_times}, {"times": expr}, {"times": expr, "non_destructive": True},
                          {"times": expected_times, "start_time": 0.25 if min(expected_times) > 0.25 else 0.0}])
    if readout and "times" in readout:
        readout = dict(readout)
        readout["_expected"] = expected_times
    doc = {"kind": kind, "det": det, "pipeline": pipeline, "mode": mode, "readout": readout}
    if mode == "observation":
        pool = [(e, v) for e, v in range_exprs() if e != "(2, 3)" and "array([1, 5, 9])" not in e]
        # a range may name the same number twice: it denotes every value written, in order
        pool += [("[100, 200, 100]", [100, 200, 100]), ("numpy.array([1, 2, 2, 3]) / 4", [0.25, 0.5, 0.5, 0.75]),
                 ("[0.5, 1, 1.0, 0.5]", [0.5, 1, 1.0, 0.5]), ("numpy.linspace(1, 1, 3)", [1.0, 1.0, 1.0])] * 2
        e2, exp2 = rng.choice(pool)
        key = rng.choice(["detector.environment.temperature", "detector.characteristics.quantum_efficiency"])
        if key.endswith("quantum_efficiency"):
            qpool = [(e, v) for e, v in pool if all(0 <= x <= 1 for x in v)] + \
                    [("[0.25, 0.5]", [0.25, 0.5]), ("numpy.linspace(0, 1, 3)", [0.0, 0.5, 1.0]), ("numpy.linspace(0, 1, 7)", denote_expr("numpy.linspace(0, 1, 7)"))]
            e2, exp2 = rng.choice(qpool)
        doc["parameters"] = [{"key": key, "values": rng.choice([e2, exp2]), "_expected": exp2}]
        doc["obs_mode"] = rng.choice(["product", "sequential"])
    return doc


def strip_expected(d):
    if isinstance(d, dict):
        return {k: strip_expected(v) for k, v in d.items() if k != "_expected"}
    if isinstance(d, list):
        return [strip_expected(x) for x in d]
    return d


def yaml_of(doc):
    import yaml

    y = {}
    if doc["mode"] == "exposure":
        y["exposure"] = {} if doc["readout"] is None else {"readout": strip_expected(doc["readout"])}
    else:
        o = {"parameters": strip_expected(doc["parameters"]), "mode": doc["obs_mode"]}
        if doc["readout"] is not None:
            o["readout"] = strip_expected(doc["readout"])
        y["observation"] = o
    y[DET_KEY[doc["kind"]]] = doc["det"]
    y["pipeline"] = doc["pipeline"]
    return yaml.safe_dump(y, sort_keys=False)


def canon_any(v):
    import numpy as np

    if isinstance(v, (np.generic,)):
        v = v.item()
    if isinstance(v, np.ndarray):
        return ["nd"] + [canon_any(x) for x in v.tolist()]
    if isinstance(v, bool) or v is None or isinstance(v, str):
        return v
    if isinstance(v, int):
        return ["i", str(v)]
    if isinstance(v, float):
        return ["f", v.hex()]
    if isinstance(v, (list, tuple)):
        return [type(v).__name__] + [canon_any(x) for x in v]
    if isinstance(v, dict):
        return {str(k): canon_any(x) for k, x in sorted(v.items())}
    if hasattr(v, "to_dict"):
        return canon_any(v.to_dict())
    return "<%s>" % type(v).__name__


def num_eq(a, b):
    """written value vs loaded value: same number (YAML ints stay ints, floats stay floats)"""
    if isinstance(a, (list, tuple)) and isinstance(b, (list, tuple)):
        return len(a) == len(b) and all(num_eq(x, y) for x, y in zip(a, b))
    if isinstance(a, dict):
        return canon_any(a) == canon_any(b)
    if isinstance(a, bool) or isinstance(b, bool) or a is None or b is None or isinstance(a, str):
        return type(a) is type(b) and a == b
    return a == b and isinstance(a, float) == isinstance(b, float)


def run_document_impl(doc, loader=None):
    """load the YAML text; report every difference between the loaded objects and the document"""
    import numpy as np
    import probes
    import pyx
    from pyxel.configuration import loads
    from pyxel.detectors import WavelengthHandling  # noqa: F401

    text = yaml_of(doc)
    r, cfg = outcome(loader or loads, text)
    if r != "ok":
        return {"load": r, "msg": cfg}
    diffs = []
    det = cfg.detector
    if type(det).__name__ != doc["kind"]:
        diffs.append("detector type %s" % type(det).__name__)
    for sect in ("geometry", "environment", "characteristics"):
        loaded = getattr(det, sect).to_dict()
        written = doc["det"][sect]
        for f, v in written.items():
            lv = loaded.get(f, "<missing>")
            if f == "temperature":
                ok = lv == v  # stored as float(temperature)
            elif f == "wavelength" and isinstance(v, (int, float)):
                ok = lv == v
            else:
                ok = num_eq(v, lv)
            if not ok:
                diffs.append("detector.%s.%s written %r loaded %r" % (sect, f, v, lv))
        for f, lv in loaded.items():
            if f not in written and lv is not None and lv != {}:
                diffs.append("detector.%s.%s not written but loaded as %r" % (sect, f, lv))
    if diffs and type(det).__name__ != doc["kind"]:
        return {"load": "ok", "diffs": diffs}
    pipe = cfg.pipeline
    for g in pipe.model_group_names:
        grp = getattr(pipe, g)
        written = doc["pipeline"].get(g)
        if not written:
            if grp is not None:
                diffs.append("group %s not written but present" % g)
            continue
        if grp is None or len(grp.models) != len(written):
            diffs.append("group %s: %s models loaded, %d written" % (g, None if grp is None else len(grp.models), len(written)))
            continue
        for m, w in zip(grp.models, written):
            if m.name != w["name"] or not _same_func(m, w["func"]) or m.enabled is not w.get("enabled", True):
                diffs.append("model %s.%s header differs" % (g, w["name"]))
            if canon_any(dict(m.arguments)) != canon_any(w.get("arguments") or {}):
                diffs.append("model %s.%s arguments written %r loaded %r" % (g, w["name"], w.get("arguments"), dict(m.arguments)))
    mode = cfg.running_mode
    if type(mode).__name__ != MODE_CLASS[doc["mode"]]:
        diffs.append("running mode written %s loaded %s" % (doc["mode"], type(mode).__name__))
        return {"load": "ok", "diffs": diffs}
    ro = doc["readout"] or {}
    exp_times = ro.get("_expected", [1])
    if [float(t) for t in mode.readout.times] != [float(t) for t in exp_times]:
        diffs.append("readout times written %r loaded %r" % (ro.get("times"), list(mode.readout.times)))
    if mode.readout.non_destructive is not bool(ro.get("non_destructive", False)):
        diffs.append("non_destructive")
    if float(mode.readout.start_time) != float(ro.get("start_time", 0.0)):
        diffs.append("start_time")
    if doc["mode"] == "observation":
        steps = mode.parameter_mode.parameters
        for st, w in zip(steps, doc["parameters"]):
            if st.key != w["key"] or [x for x in st] != list(w["_expected"]) or \
                    [type(x).__name__ for x in st] != [type(x).__name__ for x in w["_expected"]]:
                diffs.append("parameter %s values written %r loaded %r" % (w["key"], w["values"], list(st)))
    out = {"load": "ok", "diffs": diffs}
    # same results as the same objects built in Python
    if doc["mode"] == "exposure" and doc.get("run"):
        probes.reset()
        r1, res1 = outcome(pyx.run, cfg.exposure, cfg.detector, cfg.pipeline)
        log1 = list(probes.LOG)
        probes.reset()
        r2, res2 = outcome(python_run, doc)
        log2 = list(probes.LOG)
        out["run"] = [r1, r2]
        if r1 == "ok" and r2 == "ok":
            out["same_calls"] = log1 == log2
            try:
                ds1, ds2 = res1.to_dataset(), res2.to_dataset()
                out["same_result"] = bool(ds1.identical(ds2.assign_attrs(ds1.attrs)) and list(ds1.data_vars) == list(ds2.data_vars))
            except Exception as e:  # noqa: BLE001
                out["same_result"] = "error %s" % e
        elif r1 != r2:
            out["same_result"] = False
    return out


def python_run(doc):
    """the same configuration built with the Python constructors (no YAML, no loader)"""
    import pyx
    from pyxel.detectors import (APD, CCD, CMOS, MKID, APDCharacteristics, Characteristics, Environment, WavelengthHandling)
    from pyxel.exposure import Exposure, Readout
    from pyxel.pipelines import DetectionPipeline, ModelFunction

    kind = doc["kind"]
    geo = geometry_class(kind)(**doc["det"]["geometry"])
    envd = dict(doc["det"]["environment"])
    if isinstance(envd.get("wavelength"), dict):
        envd["wavelength"] = WavelengthHandling(**envd["wavelength"])
    env = Environment(**envd)
    chd = dict(doc["det"]["characteristics"])
    if chd.get("adc_voltage_range") is not None:
        chd["adc_voltage_range"] = tuple(chd["adc_voltage_range"])
    ch = (APDCharacteristics if kind == "APD" else Characteristics)(**chd)
    det = {"CCD": CCD, "CMOS": CMOS, "MKID": MKID, "APD": APD}[kind](geometry=geo, environment=env, characteristics=ch)
    kw = {}
    for g, ms in doc["pipeline"].items():
        kw[g] = None if ms is None else [
            ModelFunction(func=m["func"], name=m["name"], arguments=json.loads(json.dumps(m.get("arguments") or {})),
                          enabled=m.get("enabled", True)) for m in ms]
    pipe = DetectionPipeline(**kw)
    ro = doc["readout"] or {}
    readout = Readout(times=ro.get("_expected") if "times" in ro else None, start_time=ro.get("start_time", 0.0),
                      non_destructive=ro.get("non_destructive", False))
    return pyx.run(Exposure(readout=readout), det, pipe)


def document_predicate(doc, impl):
    if impl["load"] != "ok":
        return "loader:rejects-valid-document", "a document with every value in range was refused: %s %s" % (impl["load"], impl.get("msg"))
    if impl["diffs"]:
        return "loader:setting-differs", "; ".join(impl["diffs"][:4])
    if impl.get("same_calls") is False:
        return "loader:yaml-vs-python-calls", "YAML-built and Python-built configurations executed different model calls"
    if impl.get("same_result") not in (None, True):
        return "loader:yaml-vs-python-results", "YAML-built and Python-built configurations gave different results (%s, runs %s)" % (
            impl.get("same_result"), impl.get("run"))
    return None


# ------------------------------------------------------------------ the field under test among its neighbours
ZERO_OK = {"total_thickness", "pixel_vert_size", "pixel_horz_size", "pixel_scale", "quantum_efficiency",
           "charge_to_volt_conversion", "pre_amplification", "full_well_capacity"}
REQUIRED = {"Geometry": {"row", "col"}, "Environment": set(), "Characteristics": set(),
            "APDCharacteristics": {"roic_gain", "avalanche_gain", "pixel_reset_voltage"}}
EXTRA_OPTIONAL = {"Geometry": {"pixel_scale": 1.5}, "Environment": {"wavelength": 550.0}, "Characteristics": {}, "APDCharacteristics": {}}


def contexts_for(cls, field, kind, rng, limit):
    """ways of writing the OTHER optional entries of the section: each present / absent / zero"""
    base = dict(section_doc(kind)[SECTION_OF[cls]])
    base.update(EXTRA_OPTIONAL[cls])
    others = [f for f in base if f != field and f not in REQUIRED[cls]]
    out = []
    n = len(others)
    masks = list(itertools.product(("present", "absent"), repeat=n))
    if len(masks) > limit:
        masks = [masks[0], masks[-1]] + rng.sample(masks[1:-1], limit - 2)
    for m in masks:
        out.append(dict(zip(others, m)))
    for _ in range(max(4, limit // 3)):
        ctx = {}
        for f in others:
            ctx[f] = rng.choice(["present", "absent", "zero"] if f in ZERO_OK else ["present", "absent"])
        out.append(ctx)
    for f in others:      # exactly one neighbour missing / zero
        for how in (("absent", "zero") if f in ZERO_OK else ("absent",)):
            ctx = {g: "present" for g in others}
            ctx[f] = how
            out.append(ctx)
    seen, res = set(), []
    for c in out:
        k = json.dumps(c, sort_keys=True)
        if k not in seen:
            seen.add(k)
            res.append(c)
    return res


def ctx_section(case):
    cls, field, kind = case["cls"], case["field"], case["kind"]
    base = dict(section_doc(kind)[SECTION_OF[cls]])
    base.update(EXTRA_OPTIONAL[cls])
    sec = {}
    for f, v in base.items():
        how = case["ctx"].get(f, "present")
        if f == field:
            continue
        if how == "present":
            sec[f] = v
        elif how == "zero":
            sec[f] = 0
    sec[field] = untag_num(case["x"])
    return sec


def run_ctx_impl(case):
    import yaml
    from pyxel.configuration import loads

    cls, kind = case["cls"], case["kind"]
    sect = SECTION_OF[cls]
    sec = ctx_section(case)
    kw = dict(sec)
    if kw.get("adc_voltage_range") is not None:
        kw["adc_voltage_range"] = tuple(kw["adc_voltage_range"])
    out = {}
    r, obj = outcome(make_section, kind, cls, kw)
    out["ctor"] = r
    if r == "ok":
        out["ctor_stored_ok"] = all(
            (stored(obj, f) == v if cls == "Environment" else (same_number(stored(obj, f), v) if isinstance(v, (int, float)) else True))
            for f, v in sec.items())
    doc = section_doc(kind)
    doc[sect] = sec
    ydoc = {"exposure": {}, DET_KEY[kind]: doc, "pipeline": {}}
    r, cfg = outcome(loads, yaml.safe_dump(ydoc, sort_keys=False))
    out["yaml"] = r
    return out


def ctx_predicate(case, impl):
    cf = (case["cls"], case["field"])
    x = untag_num(case["x"])
    inside = in_spec(cf, x)
    ctx = ", ".join("%s %s" % (f, h) for f, h in sorted(case["ctx"].items()) if h != "present") or "all other entries present"
    for path in ("ctor", "yaml"):
        acc = impl[path] == "ok"
        if inside and not acc:
            return ("%s.%s:%s:rejects-in-range" % (cf[0], cf[1], path),
                    "%s.%s = %r (in range; %s) was refused on the %s path (%s)" % (cf[0], cf[1], x, ctx, path, impl[path]))
        if not inside and acc:
            return ("%s.%s:%s:accepts-out-of-range" % (cf[0], cf[1], path),
                    "%s.%s = %r is outside the documented range %s but the %s path accepted it when %s"
                    % (cf[0], cf[1], x, fmt_range(SPEC[cf]), path, ctx))
    if impl.get("ctor_stored_ok") is False:
        return "%s.%s:ctor:stored-differs" % cf, "accepted section stores other values than written (%s)" % ctx
    return None


# ------------------------------------------------------------------ one path, rewritten and loaded again
def gen_version(rng, kind):
    """(document description, kind of version): a valid random document, or nonsense"""
    d = gen_document(rng)
    r = rng.random()
    if r < 0.55:
        return d, "valid"
    d["broken"] = rng.choice(["qe", "temperature", "bits", "two_modes", "no_mode", "two_detectors", "row"])
    return d, "invalid"


def version_text(d):
    import yaml

    text = yaml_of(d)
    b = d.get("broken")
    if not b:
        return text
    y = yaml.safe_load(text)
    dk = DET_KEY[d["kind"]]
    if b == "qe":
        y[dk]["characteristics"]["quantum_efficiency"] = 1.5
    elif b == "temperature":
        y[dk]["environment"]["temperature"] = -3.0
    elif b == "bits":
        y[dk]["characteristics"]["adc_bit_resolution"] = 70
    elif b == "row":
        y[dk]["geometry"]["row"] = 0
    elif b == "two_modes":
        y["exposure" if "observation" in y else "observation"] = (
            {} if "observation" in y else {"parameters": [{"key": "detector.environment.temperature", "values": [100, 200]}]})
    elif b == "no_mode":
        y.pop("exposure", None)
        y.pop("observation", None)
    elif b == "two_detectors":
        other = "cmos_detector" if dk != "cmos_detector" else "ccd_detector"
        y[other] = section_doc("CMOS" if other == "cmos_detector" else "CCD")
    return yaml.safe_dump(y, sort_keys=False)


def run_reload_impl(case, tmp):
    """write version after version to ONE path and `pyxel.configuration.load` it each time, in this process"""
    from pathlib import Path

    from pyxel.configuration import load, loads

    path = Path(tmp) / ("%s.yaml" % case["name"])
    out = []
    for d in case["versions"]:
        text = version_text(d)
        path.write_text(text)
        if d.get("broken"):
            r, _ = outcome(load, path)
            r2, _ = outcome(loads, text)
            out.append({"load": r, "loads": r2})
        else:
            res = run_document_impl(dict(d, run=False), loader=lambda _t: load(path))
            r2, _ = outcome(loads, text)
            res["loads"] = r2
            out.append(res)
    return out


def reload_predicate(case, impl):
    for n, (d, got) in enumerate(zip(case["versions"], impl)):
        if d.get("broken"):
            if got["load"] == "ok":
                return ("loader:reload-accepts-nonsense", "version %d written to the path is nonsense (%s) but load(path) accepted it "
                        "(earlier versions of the same path: %s)" % (n, d["broken"], [v.get("broken", "valid") for v in case["versions"][:n]]))
        else:
            why = document_predicate(d, got)
            if why is not None:
                return ("loader:reload-" + why[0].split(":", 1)[1], "version %d of the path (after %s): %s"
                        % (n, [v.get("broken", "valid") for v in case["versions"][:n]], why[1]))
    return None


# ------------------------------------------------------------------ mode-level settings (calibration, algorithm, exposure, observation, readout)
MODE_CLASSES = {
    "Algorithm": "pyxel/calibration/algorithm.py", "Calibration": "pyxel/calibration/calibration.py",
    "Readout": "pyxel/exposure/readout.py", "Exposure": "pyxel/exposure/exposure.py",
    "Observation": "pyxel/observation/observation.py",
}
MODE_SKIP = {"readout", "outputs", "parameters", "target_data_path", "fitness_function", "algorithm", "result_input_arguments",
             "weights_from_file", "working_directory", "from_file", "column_range", "times", "times_from_file", "local_optimizer",
             "nlopt_solver", "result_fit_range", "target_fit_range", "mode"}


def mode_params(mod):
    """constructor parameters of the mode-level classes, read off the source: (class, name, annotation text, default)"""
    import ast

    import extract

    out = []
    for cname, rel in MODE_CLASSES.items():
        cls = extract.find_class(extract.parse(rel), cname)
        init = extract.find_func(cls, "__init__") if cls is not None else None
        if init is None:
            continue
        args = init.args.args[1:]
        defaults = [None] * (len(args) - len(init.args.defaults)) + list(init.args.defaults)
        msgs = " ".join(n.value for n in ast.walk(cls) if isinstance(n, ast.Constant) and isinstance(n.value, str))
        for a, d in zip(args, defaults):
            if a.arg in MODE_SKIP or a.annotation is None:
                continue
            try:
                dv = ast.literal_eval(d) if d is not None else None
            except Exception:  # noqa: BLE001
                dv = None
            out.append({"cls": cname, "name": a.arg, "ann": ast.unparse(a.annotation), "default": dv, "messages": msgs})
    return out


def mode_candidates(p, table_consts):
    """boundary values, and in particular the falsy-but-legal ones (0, 0.0, False, [], ''), by declared type"""
    import re

    ann, d, name = p["ann"], p["default"], p["name"]
    bounds = set(table_consts.get((p["cls"], name), ()))
    m = re.search(r"'%s' must be between ([-0-9.e]+) and ([-0-9.e]+)" % re.escape(name), p["messages"])
    if m:
        try:
            bounds |= {Fraction(m.group(1).rstrip(".")), Fraction(m.group(2).rstrip("."))}
        except ValueError:
            pass
    vals = []
    if "Literal[" in ann:
        import ast

        try:
            lit = ast.parse(ann, mode="eval").body
            for n in ast.walk(lit):
                if isinstance(n, ast.Subscript) and getattr(n.value, "id", "") == "Literal":
                    elts = n.slice.elts if isinstance(n.slice, ast.Tuple) else [n.slice]
                    vals += [ast.literal_eval(e) for e in elts]
        except Exception:  # noqa: BLE001
            pass
    elif "bool" in ann:
        vals = [False, True]
    elif "Sequence[float]" in ann:
        vals = [[], [0.5]]
    elif "float" in ann:
        vals = [0.0, 0, 1.0, 0.5, 1e-9] + [float(b) + dx for b in bounds for dx in (-0.5, 0.0, 0.5)]
    elif "int" in ann:
        vals = [0, 1, 2] + [int(b) + dx for b in bounds for dx in (-1, 0, 1)]
    elif ann.startswith("str"):
        vals = ["all", "image", ""] if name == "result_type" else []
    if d is not None and not isinstance(d, (list, tuple, dict)):
        vals.append(d)
    seen, res = set(), []
    for v in vals:
        k = (type(v).__name__, repr(v))
        if k not in seen:
            seen.add(k)
            res.append(v)
    return res


def mode_build(cls, field, value, tmp):
    """the object built with the Python constructor, everything else valid"""
    from pyxel.calibration import Algorithm, Calibration
    from pyxel.exposure import Exposure, Readout
    from pyxel.observation import Observation, ParameterValues
    from pyxel.pipelines import FitnessFunction

    kw = {field: value}
    if cls == "Algorithm":
        return Algorithm(**kw)
    if cls == "Readout":
        return Readout(times=[1.0, 2.0], **kw)
    if cls == "Exposure":
        return Exposure(readout=Readout(), **kw)
    if cls == "Observation":
        return Observation(parameters=[ParameterValues(key="detector.environment.temperature", values=[100, 200])], **kw)
    return Calibration(
        target_data_path=[tmp + "/target.npy"], fitness_function=FitnessFunction(func="pyxel.calibration.fitness.sum_of_abs_residuals"),
        algorithm=Algorithm(type="sade", generations=2, population_size=8),
        parameters=[ParameterValues(key="detector.characteristics.quantum_efficiency", values="_", boundaries=(0.1, 0.9))],
        result_fit_range=[0, 3, 0, 4], target_fit_range=[0, 3, 0, 4], **kw)


def mode_yaml(cls, field, value, tmp):
    import yaml

    md = mode_docs(tmp)
    if cls in ("Algorithm", "Calibration"):
        doc = {"calibration": md["calibration"]}
        (doc["calibration"]["algorithm"] if cls == "Algorithm" else doc["calibration"])[field] = value
    elif cls == "Observation":
        doc = {"observation": dict(md["observation"], **{field: value})}
    elif cls == "Exposure":
        doc = {"exposure": {field: value}}
    else:
        doc = {"exposure": {"readout": {"times": [1.0, 2.0], field: value}}}
    doc["ccd_detector"] = section_doc("CCD")
    doc["pipeline"] = {}
    return yaml.safe_dump(doc, sort_keys=False)


def mode_object(cfg, cls):
    m = cfg.running_mode
    return m.algorithm if cls == "Algorithm" else (m.readout if cls == "Readout" else m)


def read_back(obj, field):
    import enum

    import numpy as np

    v = getattr(obj, field)
    if isinstance(v, enum.Enum):
        v = v.value
    if isinstance(v, np.generic):
        v = v.item()
    return v


def same_value(a, b):
    if isinstance(a, float) and isinstance(b, float):
        return same_number(a, b)
    return type(a) is type(b) and a == b


def run_mode_impl(case, tmp):
    from pyxel.configuration import loads

    cls, field, value = case["cls"], case["field"], case["value"]
    out = {}
    reads = []
    for _ in range(2):
        r, obj = outcome(mode_build, cls, field, value, tmp)
        out["ctor"] = r
        if r != "ok":
            out["ctor_msg"] = obj
            break
        if not hasattr(obj, field):
            out["no_attribute"] = True
            break
        reads.append(read_back(obj, field))
    out["ctor_reads"] = [repr(x) for x in reads]
    out["ctor_ok"] = all(same_value(x, value) for x in reads)
    text = mode_yaml(cls, field, value, tmp)
    reads = []
    for _ in range(2):
        r, cfg = outcome(loads, text)
        out["yaml"] = r
        if r != "ok":
            out["yaml_msg"] = cfg
            break
        o = mode_object(cfg, cls)
        if hasattr(o, field):
            reads.append(read_back(o, field))
    out["yaml_reads"] = [repr(x) for x in reads]
    out["yaml_ok"] = all(same_value(x, value) for x in reads)
    # the attribute setter, where there is one
    r, obj = outcome(mode_build, cls, field, case["valid"], tmp)
    if r == "ok" and isinstance(getattr(type(obj), field, None), property) and getattr(type(obj), field).fset is not None:
        r2, _ = outcome(setattr, obj, field, value)
        out["setter"] = r2
        if r2 == "ok":
            out["setter_ok"] = same_value(read_back(obj, field), value)
    return out


def mode_predicate(case, impl):
    cf = (case["cls"], case["field"])
    v = case["value"]
    name = "%s.%s" % cf
    if impl.get("no_attribute"):
        return None
    for path in ("ctor", "yaml", "setter"):
        if impl.get(path) == "ok" and impl.get(path + "_ok") is False:
            reads = impl.get(path + "_reads")
            return ("%s:%s:stored-differs" % (name, path), "%s = %r was accepted on the %s path but reads back %s"
                    % (name, v, path, reads if reads else "another value"))
    numeric = isinstance(v, (int, float)) and not isinstance(v, bool)
    if numeric and "setter" in impl and (impl["ctor"] == "ok") != (impl["setter"] == "ok"):
        return ("%s:constructor-vs-setter" % name, "%s = %r: the constructor says %s, the attribute setter says %s — not the same limits"
                % (name, v, impl["ctor"], impl["setter"]))
    if "yaml" in impl and (impl["ctor"] == "ok") != (impl["yaml"] == "ok"):
        return "%s:yaml-vs-constructor" % name, "%s = %r: constructor %s, YAML %s" % (name, v, impl["ctor"], impl["yaml"])
    if cf in SPEC and isinstance(v, (int, float)) and not isinstance(v, bool) and (cf not in MODE_INT or isinstance(v, int)):
        inside = in_spec(cf, v)
        for path in ("ctor", "yaml", "setter"):
            if path not in impl:
                continue
            acc = impl[path] == "ok"
            if inside and not acc:
                return "%s:%s:rejects-in-range" % (name, path), "%s = %r is inside the documented range but the %s path refused it (%s)" % (name, v, path, impl[path])
            if not inside and acc:
                return ("%s:%s:accepts-out-of-range" % (name, path), "%s = %r is outside the documented range %s but the %s path accepted it"
                        % (name, v, fmt_range(SPEC[cf]), path))
    return None


MODE_INT = {("Calibration", "pygmo_seed"), ("Calibration", "num_islands"), ("Calibration", "num_best_decisions"),
            ("Algorithm", "generations"), ("Algorithm", "population_size"), ("Algorithm", "variant"), ("Algorithm", "variant_adptv")}


# ------------------------------------------------------------------ APD: gain / pixel reset voltage / common voltage as relations
APD_GAINS = [None, 0.5, 1, 1.0, 2.0, 30.5, 1000, 1001, float("nan")]
APD_PRVS = [None, 2.0, 3.0, 5.0, 12.0, 3]
APD_BIAS = [-1.0, 0.0, 0.5, 0.999, 1.0, 1.0000000000000002, 1.5, 4.0, 9.5]


def gen_apd_cases(rng, quick):
    cases = []
    for prv in (2.0, 3.0, 5.0, 12.0, 3):
        for b in APD_BIAS:
            cases.append({"stream": "apd", "gain": None, "prv": prv, "cv": prv - b})
    for g in APD_GAINS[1:]:
        cases.append({"stream": "apd", "gain": g, "prv": rng.choice([2.0, 5.0]), "cv": None})
        cases.append({"stream": "apd", "gain": g, "prv": None, "cv": rng.choice([1.0, 2.5])})
        cases.append({"stream": "apd", "gain": g, "prv": 5.0, "cv": 1.0})
    cases += [{"stream": "apd", "gain": 2.0, "prv": None, "cv": None}, {"stream": "apd", "gain": None, "prv": 3.0, "cv": None},
              {"stream": "apd", "gain": None, "prv": None, "cv": 2.0}, {"stream": "apd", "gain": None, "prv": None, "cv": None}]
    for c in cases:
        for k in ("gain", "prv", "cv"):
            c[k] = None if c[k] is None else tag_num(c[k])
    return cases


def apd_inputs(case):
    return {k: (None if case[k] is None else untag_num(case[k])) for k in ("gain", "prv", "cv")}


def apd_spec(g, p, c):
    """the documented rule (independent copy of Model/C12.lean `apdSpec`)"""
    given = [x is not None for x in (g, p, c)]
    if sum(given) != 2:
        return False
    if g is not None:
        return (g == g) and 1 <= Fraction(g) <= 1000
    return Fraction(p) - Fraction(c) >= 1 if isinstance(p, int) and isinstance(c, int) else (p - c) >= 1.0


def run_apd_impl(case):
    import yaml
    import pyx
    from pyxel.configuration import loads
    from pyxel.detectors import APDCharacteristics
    from pyxel.pipelines import DetectionPipeline, Processor

    inp = apd_inputs(case)
    kw = {{"gain": "avalanche_gain", "prv": "pixel_reset_voltage", "cv": "common_voltage"}[k]: v for k, v in inp.items() if v is not None}
    out = {}
    r, obj = outcome(lambda: APDCharacteristics(roic_gain=0.8, quantum_efficiency=0.9, full_well_capacity=100000, adc_bit_resolution=16,
                                                adc_voltage_range=(0.0, 10.0), **kw))
    out["ctor"] = r
    if r == "ok":
        rel = abs((obj.pixel_reset_voltage - obj.common_voltage) - obj.avalanche_bias) <= 1e-9 * max(1.0, abs(obj.avalanche_bias))
        given_ok = all(same_number(getattr(obj, a), v) for a, v in kw.items())
        usable, _ = outcome(lambda: obj.charge_to_volt_conversion)
        out["ctor_consistent"] = bool(rel and given_ok and usable == "ok" and obj.avalanche_bias >= 1.0)
    doc = section_doc("APD")
    ch = {k: v for k, v in doc["characteristics"].items() if k not in ("avalanche_gain", "pixel_reset_voltage", "common_voltage")}
    ch.update(kw)
    doc["characteristics"] = ch
    r, cfg = outcome(loads, yaml.safe_dump({"exposure": {}, "apd_detector": doc, "pipeline": {}}, sort_keys=False))
    out["yaml"] = r
    # attribute / sweep on a valid detector (5 V reset, 2 V common): observed, see assumptions
    if inp["gain"] is None and inp["prv"] is not None and inp["cv"] is not None:
        for name, attr, val, fixed in (("setter_cv", "common_voltage", inp["cv"], inp["prv"]), ("setter_prv", "pixel_reset_voltage", inp["prv"], inp["cv"])):
            base = {"pixel_reset_voltage": fixed, "common_voltage": fixed - 3.0} if attr == "common_voltage" else \
                   {"pixel_reset_voltage": fixed + 3.0, "common_voltage": fixed}
            r0, o = outcome(lambda: APDCharacteristics(roic_gain=0.8, **base))
            if r0 == "ok":
                out[name] = outcome(setattr, o, attr, val)[0]
    return out


def apd_predicate(case, impl):
    inp = apd_inputs(case)
    ok = apd_spec(inp["gain"], inp["prv"], inp["cv"])
    desc = ", ".join("%s=%r" % (k, v) for k, v in inp.items() if v is not None) or "no bias input"
    for path in ("ctor", "yaml"):
        acc = impl[path] == "ok"
        if ok and not acc:
            return "APDCharacteristics.bias-inputs:%s:rejects-valid" % path, "APD given by %s is legal but the %s path refused it (%s)" % (desc, path, impl[path])
        if not ok and acc:
            why = "avalanche bias %s V < 1 V" % (inp["prv"] - inp["cv"]) if inp["gain"] is None and None not in (inp["prv"], inp["cv"]) else "inputs"
            return ("APDCharacteristics.bias-inputs:%s:accepts-invalid" % path,
                    "APD given by %s (%s) is outside the documented limits but the %s path accepted it" % (desc, why, path))
    if impl.get("ctor_consistent") is False:
        return "APDCharacteristics.bias-inputs:ctor:inconsistent", "APD given by %s was accepted but its bias / gain / voltages do not fit together" % desc
    return None


# ------------------------------------------------------------------ readout section: every subset of its settings
def gen_readout_cases():
    cases = []
    for times in (None, [1.0, 2.5], [3]):
        for st in (None, 0.0, 0.25, 0.75, 1.0, 1.5, 2.75, -0.5, 3):
            for nd in (None, True, False):
                cases.append({"stream": "readout", "times": times, "start_time": st, "non_destructive": nd})
    return cases


def readout_kwargs(case):
    return {k: case[k] for k in ("times", "start_time", "non_destructive") if case[k] is not None}


def readout_view(ro):
    return {"times": [float(t) for t in ro.times], "start_time": float(ro.start_time), "non_destructive": bool(ro.non_destructive),
            "steps": [float(sp) for _, sp in ro.time_step_it()]}


def run_readout_impl(case):
    import yaml
    from pyxel.configuration import loads
    from pyxel.exposure import Readout

    kw = readout_kwargs(case)
    out = {}
    r, ro = outcome(lambda: Readout(**kw))
    out["ctor"] = r
    if r == "ok":
        out["ctor_view"] = readout_view(ro)
    for mode in ("exposure", "observation"):
        md = {"readout": kw} if kw else {}
        if mode == "observation":
            md = dict(md, parameters=[{"key": "detector.environment.temperature", "values": [100, 200]}])
        r, cfg = outcome(loads, yaml.safe_dump({mode: md, "ccd_detector": section_doc("CCD"), "pipeline": {}}, sort_keys=False))
        out[mode] = r
        if r == "ok":
            out[mode + "_view"] = readout_view(cfg.running_mode.readout)
    return out


def readout_predicate(case, impl):
    times = [float(t) for t in (case["times"] or [1])]
    start = float(case["start_time"] if case["start_time"] is not None else 0.0)
    legal = start < times[0]
    want = {"times": times, "start_time": start, "non_destructive": bool(case["non_destructive"]),
            "steps": [b - a for a, b in zip([start] + times[:-1], times)]}
    desc = ", ".join("%s: %r" % kv for kv in readout_kwargs(case).items()) or "(empty)"
    for path in ("ctor", "exposure", "observation"):
        acc = impl[path] == "ok"
        if legal and not acc:
            return "Readout:%s:rejects-valid" % path, "readout section {%s} is legal but the %s path refused it (%s)" % (desc, path, impl[path])
        if not legal and acc:
            return ("Readout:%s:accepts-start-after-first-time" % path,
                    "readout section {%s}: the start time is not before the first readout time %r but the %s path accepted it" % (desc, times[0], path))
        if acc and impl[path + "_view"] != want:
            return ("Readout:%s:setting-differs" % path, "readout section {%s} loaded on the %s path as %s, written / denoted %s"
                    % (desc, path, impl[path + "_view"], want))
    return None


# ------------------------------------------------------------------ body
def yaml_safe(d):
    return {k: v for k, v in d.items() if k != "stream"}


def load_table():
    import extract

    mod = extract._load("C12")
    table, opaque = mod.extract()
    return mod, table, opaque


def body(ck: common.Check):
    import extract

    extract.generate("C12")
    ck.obligations(["PyxelModel.Props.C12"], ["PyxelModel.Drive.C12"])
    rng = ck.rng
    quick = ck.tier == "quick"
    mod, table, opaque = load_table()
    tmp = tempfile.mkdtemp(prefix="verif-c12-")
    try:
        import numpy as np

        np.save(tmp + "/target.npy", np.ones((3, 4)))
        # ---- stream 1: guards at boundary points harvested from the source
        all_consts = set()
        for e in table:
            all_consts |= set(mod.consts_of(e["ctor"])) | set(mod.consts_of(e["setter"]))
        guard_cases = []
        fields = {(e["cls"], e["field"]): e for e in table}
        for cf in sorted(c for c in set(fields) | set(SPEC) if c[0] in DETECTOR_CLASSES):
            e = fields.get(cf)
            consts = set()
            if e is not None:
                consts = set(mod.consts_of(e["ctor"])) | set(mod.consts_of(e["setter"]))
            lo, _, hi = SPEC.get(cf, (0, False, None))
            consts |= {Fraction(lo)} | ({Fraction(hi)} if hi is not None else set())
            if not quick:
                consts |= all_consts
            kinds = ["APD"] if cf[0] == "APDCharacteristics" else (["CCD", "CMOS", "MKID"] if cf[0] == "Characteristics" else KINDS)
            for x in points_for(consts, cf, rng, quick):
                ks = kinds if not quick else [rng.choice(kinds)]
                for kind in ks:
                    guard_cases.append({"stream": "guard", "cls": cf[0], "field": cf[1], "kind": kind, "x": tag_num(x)})
        # ---- stream 2: voltage ranges
        vr_cases = [{"stream": "vr", "kind": k, "value": v} for k in ("CCD", "APD") for v in VR_VALUES]
        # ---- stream 3: every combination of mode keys and detector keys (exhaustive), plus pipeline-less ones
        one_cases = []
        for nm in range(4):
            for ms in itertools.combinations(list(MODE_CLASS), nm):
                for nd in range(5):
                    for ds in itertools.combinations(list(DET_CLASS), nd):
                        pres = ["pipeline"] + list(ms) + list(ds)
                        if rng.random() < 0.3:
                            pres.append("comment")
                        rng.shuffle(pres)
                        one_cases.append({"stream": "one", "present": pres})
        one_cases += [{"stream": "one", "present": ["exposure", "ccd_detector"]}, {"stream": "one", "present": []}]
        # ---- stream 4: whole documents
        n_doc = 120 if quick else 1500
        doc_cases = []
        for i in range(n_doc):
            d = gen_document(rng)
            d["stream"] = "doc"
            d["run"] = d["mode"] == "exposure" and (i % 3 == 0)
            doc_cases.append(d)

        # ---- stream 5: the field under test with its neighbours present / absent / zero (constructor, YAML)
        ctx_cases = []
        for cf in sorted(c for c in SPEC if c[0] in DETECTOR_CLASSES):
            kinds = ["APD"] if cf[0] == "APDCharacteristics" else (["CCD", "CMOS", "MKID"] if cf[0] == "Characteristics" else KINDS)
            lo, strict, hi = SPEC[cf]
            pts = [lo - 1, (lo if not strict else lo + 1), (hi + 1 if hi is not None else lo + 5), (hi if hi is not None else lo + 2)]
            if cf not in INT_ONLY:
                pts += [float(lo) - 0.5, (float(hi) + 0.5) if hi is not None else float(lo) + 0.5, float("nan")]
                if hi is not None:
                    pts.append(float(hi) * 2.5 + 1)
            for x in pts:
                kind = rng.choice(kinds)
                for ctx in contexts_for(cf[0], cf[1], kind, rng, 8 if quick else 32):
                    ctx_cases.append({"stream": "ctx", "cls": cf[0], "field": cf[1], "kind": kind, "x": tag_num(x), "ctx": ctx})
        # ---- stream 6: one path rewritten and loaded again in this process
        reload_cases = []
        for i in range(30 if quick else 300):
            vs = []
            for _ in range(rng.choice([2, 3, 4])):
                d, _k = gen_version(rng, None)
                vs.append(d)
            if all(v.get("broken") for v in vs):
                vs[rng.randrange(len(vs))].pop("broken")
            reload_cases.append({"stream": "reload", "name": "cfg%d" % i, "versions": vs})

        # ---- stream 7: mode-level settings at their boundary / falsy-but-legal values (constructor, YAML twice, setter)
        table_consts = {(e["cls"], e["field"]): set(mod.consts_of(e["ctor"])) | set(mod.consts_of(e["setter"])) for e in table}
        mode_cases = []
        for prm in mode_params(mod):
            cands = mode_candidates(prm, table_consts)
            valid = prm["default"] if prm["default"] is not None else next((c for c in cands if c), None)
            if (prm["cls"], prm["name"]) in SPEC:
                lo, strict, _hi = SPEC[(prm["cls"], prm["name"])]
                valid = lo + 1 if prm["default"] is None else prm["default"]
            for v in cands:
                mode_cases.append({"stream": "mode", "cls": prm["cls"], "field": prm["name"], "value": v, "valid": valid})

        # ---- stream 8: the APD bias inputs as relations
        apd_cases = gen_apd_cases(rng, quick)

        reqs = []
        for c in guard_cases:
            reqs.append({"op": "guard", "cls": c["cls"], "field": c["field"], "x": num_json(untag_num(c["x"]))})
        for c in one_cases:
            reqs.append({"op": "build", "present": c["present"]})
        doc_reqs = []
        for d in doc_cases:
            for sect, cls in (("geometry", "Geometry"), ("environment", "Environment"),
                              ("characteristics", "APDCharacteristics" if d["kind"] == "APD" else "Characteristics")):
                kv = [[f, num_json(v)] for f, v in d["det"][sect].items()
                      if isinstance(v, (int, float)) and not isinstance(v, bool)]
                doc_reqs.append({"op": "load", "cls": cls, "kv": kv})
        mode_reqs = [{"op": "guard", "cls": c["cls"], "field": c["field"], "x": num_json(c["value"])} for c in mode_cases
                     if (c["cls"], c["field"]) in SPEC and isinstance(c["value"], (int, float)) and not isinstance(c["value"], bool)]
        ctx_reqs = []
        for c in ctx_cases:
            kv = [[f, num_json(v)] for f, v in ctx_section(c).items() if isinstance(v, (int, float)) and not isinstance(v, bool)]
            ctx_reqs.append({"op": "load", "cls": c["cls"], "kv": kv})
        def rat_or_none(t):
            if t is None:
                return None
            x = untag_num(t)
            if isinstance(x, float) and x != x:
                return "nan"
            q = Fraction(x)
            return [str(q.numerator), str(q.denominator)]
        apd_reqs = [{"op": "apd", "gain": rat_or_none(c["gain"]), "prv": rat_or_none(c["prv"]), "cv": rat_or_none(c["cv"])}
                    for c in apd_cases if rat_or_none(c["gain"]) != "nan"]
        answers = LeanDriver("C12").batch(reqs + doc_reqs + ctx_reqs + mode_reqs + apd_reqs)
        a_apd = iter(answers[len(reqs) + len(doc_reqs) + len(ctx_reqs) + len(mode_reqs):])
        for a in answers:
            if "bad" in a:
                raise common.InfraError(f"driver rejected a request: {a}")
        a_guard = answers[: len(guard_cases)]
        a_one = answers[len(guard_cases): len(guard_cases) + len(one_cases)]
        a_doc = answers[len(guard_cases) + len(one_cases): len(reqs) + len(doc_reqs)]
        a_ctx = answers[len(reqs) + len(doc_reqs): len(reqs) + len(doc_reqs) + len(ctx_reqs)]
        a_mode = iter(answers[len(reqs) + len(doc_reqs) + len(ctx_reqs): len(reqs) + len(doc_reqs) + len(ctx_reqs) + len(mode_reqs)])

        for c, ans in zip(guard_cases, a_guard):
            impl = run_guard_impl(c)
            x = untag_num(c["x"])
            cf = (c["cls"], c["field"])
            ck.case(c, nontrivial=True, stream="guard")
            ck.count("guard:%s" % ("in-range" if in_spec(cf, x) else "out-of-range"))
            for p in CTOR_PATHS + SETTER_PATHS:
                if p in impl:
                    ck.count("guard:%s=%s" % (p, impl[p]))
            why = guard_predicate(c, impl)
            if why is not None:
                ck.violation("C12:" + why[0], why[1], {"case": c, "impl": impl})
            if not ans.get("found"):
                ck.disagreement("guard", c, impl, "field not in the extracted table")
                continue
            if ans["in_range"] is not None and ans["in_range"] != in_spec(cf, x):
                raise common.InfraError("Lean specOf and the harness's copy of the statement's table differ on %s %r" % (cf, x))
            mv = {}
            iv = {}
            for p in CTOR_PATHS:
                if p in impl:
                    iv[p] = impl[p] != "ok"
                    mv[p] = ans["ctor_raises"]
            for p in SETTER_PATHS:
                if p in impl:
                    iv[p] = impl[p] != "ok"
                    mv[p] = ans["setter_raises"]
            if cf in INT_ONLY and not isinstance(x, int):
                continue
            if iv != mv:
                ck.disagreement("guard", c, {"raised": iv, "outcomes": impl}, {"raised": mv})

        for c in vr_cases:
            impl = run_vr_impl(c)
            ck.case(c, nontrivial=True, stream="vr")
            why = vr_predicate(c, impl)
            if why is not None:
                ck.violation("C12:" + why[0], why[1], {"case": c, "impl": impl})

        for c, ans in zip(one_cases, a_one):
            impl = run_one_impl(c, tmp)
            ck.case(c, nontrivial=True, stream="one")
            ck.count("one:" + ("ok" if "ok" in impl else impl["err"]))
            why = one_predicate(c, impl)
            if why is not None:
                ck.violation("C12:" + why[0], why[1], {"case": c, "impl": impl})
            iv = {"ok": impl["ok"]} if "ok" in impl else {"err": impl["err"]}
            mv = {k: ans[k] for k in ("ok", "err") if k in ans}
            if iv != mv:
                ck.disagreement("one", c, iv, mv)

        for i, d in enumerate(doc_cases):
            impl = run_document_impl(d)
            ck.case({k: v for k, v in d.items() if k != "stream"}, nontrivial=True, stream="doc")
            ck.count("doc:kind=%s" % d["kind"])
            ck.count("doc:mode=%s" % d["mode"])
            ck.count("doc:load=%s" % impl["load"])
            if "run" in impl:
                ck.count("doc:run=%s" % "/".join(impl["run"]))
            why = document_predicate(d, impl)
            if why is not None:
                ck.violation("C12:" + why[0], why[1], {"case": d, "impl": impl})
            model_ok = all("ok" in a for a in a_doc[3 * i: 3 * i + 3])
            if (impl["load"] == "ok") != model_ok:
                ck.disagreement("doc", d, impl["load"], a_doc[3 * i: 3 * i + 3])

        for c, ans in zip(ctx_cases, a_ctx):
            impl = run_ctx_impl(c)
            ck.case(c, nontrivial=any(h != "present" for h in c["ctx"].values()), stream="ctx")
            ck.count("ctx:absent=%d zero=%d" % (sum(1 for h in c["ctx"].values() if h == "absent"),
                                                 sum(1 for h in c["ctx"].values() if h == "zero")))
            ck.count("ctx:ctor=%s" % impl["ctor"])
            why = ctx_predicate(c, impl)
            if why is not None:
                ck.violation("C12:" + why[0], why[1], {"case": c, "impl": impl})
            x = untag_num(c["x"])
            model_raises = "err" in ans
            iv = {"ctor": impl["ctor"] != "ok", "yaml": impl["yaml"] != "ok"}
            if iv != {"ctor": model_raises, "yaml": model_raises}:
                ck.disagreement("ctx", c, {"raised": iv, "outcomes": impl}, {"raised": model_raises})

        for c in mode_cases:
            impl = run_mode_impl(c, tmp)
            ck.case(c, nontrivial=True, stream="mode")
            ck.count("mode:%s" % c["cls"])
            ck.count("mode:falsy" if not c["value"] else "mode:truthy")
            ck.count("mode:ctor=%s" % impl["ctor"])
            why = mode_predicate(c, impl)
            if why is not None:
                ck.violation("C12:" + why[0], why[1], {"case": c, "impl": impl})
            cf = (c["cls"], c["field"])
            if cf in SPEC and isinstance(c["value"], (int, float)) and not isinstance(c["value"], bool):
                ans = next(a_mode)
                if cf in MODE_INT and not isinstance(c["value"], int):
                    continue
                if not ans.get("found"):
                    ck.disagreement("mode", c, impl, "field not in the extracted table")
                    continue
                iv = {p_: impl[p_] != "ok" for p_ in ("ctor", "yaml", "setter") if p_ in impl}
                mv = {p_: (ans["setter_raises"] if p_ == "setter" else ans["ctor_raises"]) for p_ in iv}
                if iv != mv:
                    ck.disagreement("mode", c, {"raised": iv, "outcomes": impl}, {"raised": mv})

        for c in apd_cases:
            impl = run_apd_impl(c)
            ck.case(c, nontrivial=True, stream="apd")
            ck.count("apd:ctor=%s" % impl["ctor"])
            for k_ in ("setter_cv", "setter_prv"):
                if k_ in impl:
                    inp = apd_inputs(c)
                    ck.count("apd:%s bias%s1V=%s" % (k_, ">=" if inp["prv"] - inp["cv"] >= 1 else "<", impl[k_]))
            why = apd_predicate(c, impl)
            if why is not None:
                ck.violation("C12:" + why[0], why[1], {"case": c, "impl": impl})
            if rat_or_none(c["gain"]) != "nan":
                ans = next(a_apd)
                if ans["accepted"] != (impl["ctor"] == "ok") or ans["accepted"] != (impl["yaml"] == "ok"):
                    ck.disagreement("apd", c, impl, ans)

        for c in gen_readout_cases():
            impl = run_readout_impl(c)
            ck.case(c, nontrivial=True, stream="readout")
            ck.count("readout:ctor=%s" % impl["ctor"])
            why = readout_predicate(c, impl)
            if why is not None:
                ck.violation("C12:" + why[0], why[1], {"case": c, "impl": impl})

        for c in reload_cases:
            impl = run_reload_impl(c, tmp)
            ck.case({"versions": [yaml_safe(v) for v in c["versions"]]}, nontrivial=True, stream="reload")
            ck.count("reload:" + ">".join(v.get("broken", "valid") if v.get("broken") is None else "invalid" for v in c["versions"]))
            why = reload_predicate(c, impl)
            if why is not None:
                ck.violation("C12:" + why[0], why[1], {"case": c, "impl": impl})
            for n, g in enumerate(impl):
                if (g["load"] == "ok") != (g["loads"] == "ok"):
                    ck.disagreement("reload", {"name": c["name"], "version": n}, g["load"], g["loads"])
    finally:
        shutil.rmtree(tmp, ignore_errors=True)

    ck.extra["guard_table"] = [{"cls": e["cls"], "field": e["field"], "ctor": mod.cond_json(e["ctor"]), "setter": mod.cond_json(e["setter"])} for e in table]
    ck.extra["opaque_fields"] = opaque
    ck.rule = ("readout: every subset of the readout section's settings (times absent / two times / one time, start time absent or "
               "before / at / after the first time, non_destructive absent / true / false) through Readout(...) and an exposure / "
               "observation document: accepted iff the start is before the first time, times / start / steps / flag as written; "
               "apd: the three APD bias inputs as relations — every pair of (pixel reset voltage, common voltage) with a bias of -1, 0, "
               "0.5, 0.999, 1, 1+ulp, 1.5, 4, 9.5 V, gain with either voltage at 0.5/1/2/30.5/1000/1001/nan, all three, one, none — "
               "through the constructor and a YAML document, accepted objects checked for bias = reset - common, inputs stored, "
               "charge-to-volt usable (attribute setters observed and counted); mode: every constructor parameter of Calibration, Algorithm, Exposure, Observation and Readout (read off the source with "
               "its declared type) at boundary values of its guards / documented range and at the falsy-but-legal values (0, 0.0, "
               "False, [], first enumeration member, ''), through the Python constructor (twice), a YAML document (loaded twice) "
               "and the attribute setter, read back type-exactly; ctx: every validated field at in-range / boundary / out-of-range / nan values with the OTHER optional entries of its "
               "section present, absent or zero (all absent/present subsets up to a limit, random three-way ones, each single "
               "neighbour missing), through the constructor and a YAML document; reload: one path rewritten 2-4 times (valid "
               "documents with other values, out-of-range values, two / no running modes, two detectors) and loaded with "
               "load(path) after every rewrite in the same process; guard: every validated field of the extracted table x boundary points harvested from its guards and its documented "
               "range (k-1, k, k+1, k ± 1 ulp, k ± 0.5, midpoints, ±0, nan, ±inf, huge, a few random) x detector kind, each on five "
               "paths (constructor, property setter, Processor.set with the number, Processor.set with its text, YAML document); "
               "vr: 11 voltage-range shapes x 2 classes; one: all 128 combinations of running-mode and detector keys (+2 without "
               "pipeline), shuffled key order; doc: random whole documents (4 detector kinds, exposure/observation, optional fields "
               "dropped, boundary values, wavelength handling, pipelines with 0-4 groups and arbitrary argument values, readout "
               "times and sweep values as lists or numpy/range expressions), a third of the exposure ones also run and compared "
               "with the same objects built in Python; non-trivial = all; distinct by canonical JSON")
    ck.assumptions = [
        "documented ranges = the table `specOf` of Model/C12.lean (error messages / docstrings / the statement's examples); "
        "row/col are integers: non-integer and nan values are outside the quantifier for them",
        "`np.min(value)`/`np.max(value)` guards are modelled for scalars (array-valued quantum efficiencies are not generated)",
        "numpy integer scalars (not instances of `int`) are not generated as field values",
        "stored value compared through to_dict() (Environment stores float(temperature)); a 0 thickness/pixel size is stored "
        "but its getter reports 'not specified' — observed, not judged here",
        "APD voltages changed through the attribute setters / a sweep are not range-checked by the code (a bias < 1 V is accepted "
        "and only fails when charge_to_volt_conversion is read); the project's own tests assign common_voltage = 1000 through the "
        "setter and expect success, so this is recorded in the distribution (apd:setter_*), not judged",
        "range / readout-time expressions: the denotation is Python's own evaluation of the expression with numpy (not modelled in Lean)",
    ]
    ck.trusted_base.append("C12: PyYAML SafeLoader maps YAML scalars to the Python ints/floats/strings the harness dumped; "
                           "harness/gen/c12.py translates each guard test into Cond node by node")


def replay(rp):
    case = rp["replay"].get("case")
    if case is None:
        print("replay names a broken obligation/correspondence, no concrete input:", rp["what"])
        return 1
    st = case.get("stream")
    tmp = tempfile.mkdtemp(prefix="verif-c12-")
    try:
        if st == "guard":
            impl = run_guard_impl(case)
            why = guard_predicate(case, impl)
        elif st == "vr":
            impl = run_vr_impl(case)
            why = vr_predicate(case, impl)
        elif st == "one":
            import numpy as np

            np.save(tmp + "/target.npy", np.ones((3, 4)))
            impl = run_one_impl(case, tmp)
            why = one_predicate(case, impl)
        elif st == "ctx":
            impl = run_ctx_impl(case)
            why = ctx_predicate(case, impl)
        elif st == "readout":
            impl = run_readout_impl(case)
            why = readout_predicate(case, impl)
        elif st == "apd":
            impl = run_apd_impl(case)
            why = apd_predicate(case, impl)
        elif st == "mode":
            import numpy as np

            np.save(tmp + "/target.npy", np.ones((3, 4)))
            impl = run_mode_impl(case, tmp)
            why = mode_predicate(case, impl)
        elif st == "reload":
            impl = run_reload_impl(case, tmp)
            why = reload_predicate(case, impl)
        else:
            impl = run_document_impl(case)
            why = document_predicate(case, impl)
    finally:
        shutil.rmtree(tmp, ignore_errors=True)
    print("impl:", impl)
    print("REPRODUCED: %s — %s" % why if why else "not reproduced (property holds on this input)")
    return 1 if why else 0


if __name__ == "__main__":
    if len(sys.argv) > 2 and sys.argv[1] == "--replay":
        common.ensure_repo_on_path()
        sys.exit(replay(json.load(open(sys.argv[2]))))
    sys.exit(run_check("C12", body))
