"""Shared machinery of every check (see DESIGN.md section 3).

A check run is:  regenerate tables from /repo  ->  `lake build` the property's modules
(proof obligations)  ->  axiom / forbidden-token audit  ->  correspondence (real pyxel vs the
Lean model through the line-protocol driver)  ->  verdict + evidence.

Exit codes: 0 = property held on everything explored (known findings listed in
known_findings.jsonl print `KNOWN-FINDING:` and do not fail), 1 = violation (with a
`VIOLATION property=<id> replay=<path>` line), 2 = infrastructure problem / timeout.
"""

from __future__ import annotations

import fcntl
import hashlib
import json
import os
import random
import re
import subprocess
import sys
import time
import traceback
from pathlib import Path

VERIF = Path(__file__).resolve().parent.parent
LEAN = VERIF / "lean"
REPO = Path(os.environ.get("PYXEL_REPO", "/repo"))
# runs against a scratch copy (PYXEL_REPO=...: mutation trials) must never overwrite the committed evidence
_SCRATCH = REPO.resolve() != Path("/repo")
EVIDENCE = VERIF / ("evidence_scratch" if _SCRATCH else "evidence")
REPLAYS = VERIF / ("replays_scratch" if _SCRATCH else "replays")
CORPUS = VERIF / "corpus"
KNOWN = VERIF / "known_findings.jsonl"

ACCEPTED_AXIOMS = {"propext", "Classical.choice", "Quot.sound"}
FORBIDDEN = re.compile(
    r"\b(sorry|admit|native_decide|bv_decide|implemented_by|unsafe)\b|^\s*axiom\s|maxHeartbeats\s+0\b",
    re.M,
)

GLOBAL_TRUSTED_BASE = [
    "Lean 4.33.0 kernel; axioms propext, Classical.choice, Quot.sound only (audited per theorem on every run)",
    "harness/extract.py: the tables in lean/PyxelModel/Generated/*.lean are what /repo's working tree says",
    "correspondence harness + Lean driver JSON layer: canonicalisation is injective on what the property observes",
    "CPython 3.12, numpy, xarray, pandas, dask, numba, pygmo, asdf, astropy: modelled by contract, exercised by the correspondence",
]


def ensure_repo_on_path() -> None:
    """Make `import pyxel` resolve to /repo's working tree and the probes importable."""
    for p in (str(VERIF / "harness"), str(REPO)):
        if p in sys.path:
            sys.path.remove(p)
        sys.path.insert(0, p)
    os.environ["PYTHONPATH"] = os.pathsep.join(
        [str(REPO), str(VERIF / "harness")] + [p for p in os.environ.get("PYTHONPATH", "").split(os.pathsep) if p]
    )
    os.environ.setdefault("PYXEL_VERIF", "1")
    os.environ.setdefault("NUMBA_DISABLE_PERFORMANCE_WARNINGS", "1")


def strip_lean_comments(text: str) -> str:
    # block comments (possibly nested, incl. doc comments), then line comments
    out, depth, i = [], 0, 0
    while i < len(text):
        if text.startswith("/-", i):
            depth += 1
            i += 2
        elif text.startswith("-/", i) and depth:
            depth -= 1
            i += 2
        elif depth:
            if text[i] == "\n":
                out.append("\n")
            i += 1
        else:
            out.append(text[i])
            i += 1
    text = "".join(out)
    return re.sub(r"--.*", "", text)


class LakeLock:
    def __enter__(self):
        (LEAN / ".lake").mkdir(exist_ok=True)
        self.f = open(LEAN / ".lake" / "verif.lock", "w")
        fcntl.flock(self.f, fcntl.LOCK_EX)
        return self

    def __exit__(self, *a):
        fcntl.flock(self.f, fcntl.LOCK_UN)
        self.f.close()


def lake_build(targets: list[str], timeout: int = 1800) -> tuple[bool, str]:
    with LakeLock():
        p = subprocess.run(
            ["lake", "build", *targets], cwd=LEAN, capture_output=True, text=True, timeout=timeout
        )
    return p.returncode == 0, p.stdout + p.stderr


def theorem_names_in(path: Path) -> list[tuple[int, str]]:
    """(line, name) of each `theorem` in a Lean source file (comments stripped)."""
    text = strip_lean_comments(path.read_text())
    res = []
    for n, line in enumerate(text.split("\n"), 1):
        m = re.match(r"\s*(?:@\[[^\]]*\]\s*)?(?:private\s+|protected\s+)?theorem\s+([^\s:({\[]+)", line)
        if m:
            res.append((n, m.group(1)))
    return res


def import_closure(modules: list[str]) -> list[Path]:
    """source files of `modules` and of every PyxelModel module they (transitively) import"""
    seen: dict[str, Path] = {}
    todo = list(modules)
    while todo:
        m = todo.pop()
        if m in seen or not m.startswith("PyxelModel"):
            continue
        f = LEAN / (m.replace(".", "/") + ".lean")
        if not f.exists():
            continue
        seen[m] = f
        for imp in re.findall(r"^\s*(?:public\s+)?import\s+(PyxelModel[\w.]*)", f.read_text(), re.M):
            todo.append(imp)
    return [seen[k] for k in sorted(seen)]


class Obligations:
    """Result of building + auditing the property's theorem modules."""

    def __init__(self):
        self.theorems: dict[str, dict] = {}  # name -> {axioms, ok, why}
        self.build_ok = True
        self.build_log = ""
        self.forbidden: list[str] = []
        self.modules: list[str] = []
        self.leanchecker: dict | None = None

    @property
    def n(self):
        return len(self.theorems)

    @property
    def discharged(self):
        return sum(1 for t in self.theorems.values() if t["ok"])

    def failed(self):
        return [k for k, t in self.theorems.items() if not t["ok"]]


def check_obligations(pid: str, prop_modules: list[str], support_modules: list[str]) -> Obligations:
    """Build `support_modules` (models, generated tables, driver glue: must compile) and
    `prop_modules` (theorems: may fail when a regenerated table no longer satisfies them)."""
    ob = Obligations()
    ob.modules = prop_modules
    ok, log = lake_build(support_modules + ["PyxelModel.Audit"])
    if not ok:
        ob.build_ok = False
        ob.build_log = log
        raise InfraError("model/support modules do not build:\n" + log[-4000:])
    ok, log = lake_build(prop_modules)
    ob.build_log = log
    ob.build_ok = ok
    # forbidden tokens (comments stripped) in every library file the property's modules (transitively) import
    for f in import_closure(prop_modules + support_modules):
        txt = strip_lean_comments(f.read_text())
        if f.name == "Audit.lean":
            continue
        for m in FORBIDDEN.finditer(txt):
            ob.forbidden.append(f"{f.relative_to(LEAN)}: {m.group(0).strip()}")
    # per-module: names from source; errors from the log; axioms from the audit
    for mod in prop_modules:
        src = LEAN / (mod.replace(".", "/") + ".lean")
        names = theorem_names_in(src)
        err_lines = [
            int(m.group(1))
            for m in re.finditer(r"error: [^\n]*?" + re.escape(src.name) + r":(\d+):\d+", log)
        ]
        mod_failed = (not ok) and (
            bool(err_lines) or re.search(r"- " + re.escape(mod) + r"\b", log) is not None
        )
        bad_names = set()
        starts = [ln for ln, _ in names]
        for el in err_lines:
            # the enclosing theorem is the last one starting at or before the error line
            cands = [nm for ln, nm in names if ln <= el]
            if cands:
                bad_names.add(cands[-1])
        audited: dict[str, list[str]] = {}
        if not mod_failed:
            audit_src = f"import {mod}\nimport PyxelModel.Audit\n#audit_module {mod}\n"
            adir = LEAN / ".lake" / "audit"
            adir.mkdir(parents=True, exist_ok=True)
            af = adir / f"{mod}.lean"
            af.write_text(audit_src)
            p = subprocess.run(["lake", "env", "lean", str(af)], cwd=LEAN, capture_output=True, text=True, timeout=600)
            for m in re.finditer(r"AUDIT (\S+) : \[(.*?)\]", p.stdout + p.stderr):
                audited[m.group(1)] = [a.strip() for a in m.group(2).split(",") if a.strip()]
            if not audited and names:
                mod_failed = True
                ob.build_log += "\nAUDIT produced nothing:\n" + p.stdout + p.stderr
        for _, nm in names:
            full = [k for k in audited if k == nm or k.endswith("." + nm)]
            if mod_failed:
                if bad_names and nm not in bad_names:
                    ob.theorems[nm] = {"axioms": None, "ok": False, "why": "module failed to build (another theorem)"}
                else:
                    ob.theorems[nm] = {"axioms": None, "ok": False, "why": "does not check"}
            elif not full:
                ob.theorems[nm] = {"axioms": None, "ok": False, "why": "not found by audit"}
            else:
                axs = audited[full[0]]
                extra = [a for a in axs if a not in ACCEPTED_AXIOMS]
                ob.theorems[nm] = {"axioms": axs, "ok": not extra, "why": ("extra axioms " + ",".join(extra)) if extra else ""}
        if mod_failed and not names:
            ob.theorems[mod] = {"axioms": None, "ok": False, "why": "module failed to build"}
    # thorough tier: independent re-check of the compiled .olean files of the property modules
    if os.environ.get("VERIF_TIER") == "thorough" or (len(sys.argv) > 1 and sys.argv[1] == "thorough"):
        good = [m for m in prop_modules if not any(not t["ok"] for t in ob.theorems.values()) ]
        if good:
            with LakeLock():
                p = subprocess.run(["lake", "env", "leanchecker", *good], cwd=LEAN, capture_output=True, text=True, timeout=3600)
            ob.leanchecker = {"modules": good, "rc": p.returncode, "tail": (p.stdout + p.stderr)[-500:]}
            if p.returncode != 0:
                for t in ob.theorems.values():
                    t["ok"] = False
                    t["why"] = "leanchecker rejected the compiled module: " + (p.stdout + p.stderr)[-300:]
    if ob.forbidden:
        for t in ob.theorems.values():
            t["ok"] = False
            t["why"] = "forbidden token in library: " + "; ".join(ob.forbidden[:3])
    return ob


class InfraError(Exception):
    pass


class LeanDriver:
    """Batch line-protocol client: send all requests, read all answers (same order)."""

    def __init__(self, pid: str):
        self.pid = pid
        self.file = LEAN / "drivers" / f"{pid}.lean"

    def batch(self, requests: list[dict], timeout: int = 1800) -> list[dict]:
        if not requests:
            return []
        data = "".join(json.dumps(r, separators=(",", ":")) + "\n" for r in requests)
        p = subprocess.run(
            ["lake", "env", "lean", "--run", str(self.file)],
            cwd=LEAN, input=data, capture_output=True, text=True, timeout=timeout,
        )
        lines = [l for l in p.stdout.split("\n") if l.strip()]
        if p.returncode != 0 or len(lines) != len(requests):
            raise InfraError(
                f"Lean driver {self.pid}: rc={p.returncode}, {len(lines)} answers for {len(requests)} requests\n"
                + p.stderr[-3000:] + "\n" + p.stdout[-1000:]
            )
        return [json.loads(l) for l in lines]


def load_known() -> list[dict]:
    if not KNOWN.exists():
        return []
    out = []
    for line in KNOWN.read_text().splitlines():
        line = line.strip()
        if line and not line.startswith("#"):
            out.append(json.loads(line))
    return out


def canon(x):
    """Canonical JSON text (sorted keys) — the comparison form of both sides."""
    return json.dumps(x, sort_keys=True, separators=(",", ":"))


def canon_safe(x) -> str:
    return json.dumps(x, sort_keys=True, default=str)


_RUNLOCKS: dict = {}


class Check:
    """Bookkeeping for one run of one property's check."""

    def __init__(self, pid: str, tier: str, level: str = "proof"):
        self.pid = pid
        # one run per property at a time: a run regenerates lean/PyxelModel/Generated/<pid>.lean from ITS tree and its
        # driver loads the compiled result, so two runs of one property (different trees, tiers or seeds) take turns
        (LEAN / ".lake").mkdir(exist_ok=True)
        if pid not in _RUNLOCKS:
            _RUNLOCKS[pid] = open(LEAN / ".lake" / f"run-{pid}.lock", "w")
            fcntl.flock(_RUNLOCKS[pid], fcntl.LOCK_EX)
        self.tier = tier if tier in ("quick", "thorough") else "quick"
        self.seed = int(os.environ.get("VERIF_SEED", "0") or 0)
        self.rng = random.Random(f"{pid}-{self.seed}")
        self.level = level
        self.t0 = time.time()
        self.ob: Obligations | None = None
        self.evaluations = 0
        self.nontrivial: set[str] = set()
        self.samples: list = []
        self.distribution: dict[str, int] = {}
        self.rule = ""
        self.assumptions: list[str] = []
        self.trusted_base: list[str] = list(GLOBAL_TRUSTED_BASE)
        self.violations: list[dict] = []  # {key, what, replay(dict)}
        self.known_hits: list[dict] = []
        self.disagreements: list[dict] = []  # model != impl (not by itself a violation)
        self.extra: dict = {}
        self.streams: dict[str, int] = {}
        self.checker_cmd = ""

    # ---------------------------------------------------------------- obligations
    def obligations(self, prop_modules: list[str], support_modules: list[str]):
        self.ob = check_obligations(self.pid, prop_modules, support_modules)
        self.checker_cmd = "cd lean && lake build " + " ".join(prop_modules) + " && lake env lean .lake/audit/<module>.lean  (#audit_module: collectAxioms per theorem)"
        return self.ob

    # ---------------------------------------------------------------- coverage
    def count(self, key: str, n: int = 1):
        self.distribution[key] = self.distribution.get(key, 0) + n

    def case(self, case, nontrivial: bool = True, stream: str = "main"):
        """Register one explored case (already executed on the implementation)."""
        self.evaluations += 1
        self.streams[stream] = self.streams.get(stream, 0) + 1
        if nontrivial:
            self.nontrivial.add(hashlib.sha1(canon(case).encode()).hexdigest())
        if len(self.samples) < 4 or (len(self.samples) < 8 and self.rng.random() < 0.02):
            self.samples.append(case)

    # ---------------------------------------------------------------- findings
    def violation(self, key: str, what: str, replay: dict):
        """The implementation contradicts the property on the concrete input in `replay`."""
        self.violations.append({"key": key, "what": what, "replay": replay, "concrete": True})

    def unproved(self, what: str, detail: dict):
        """A proof obligation / correspondence no longer checks and no failing input was found."""
        self.violations.append({"key": "unproved:" + what, "what": what, "replay": detail, "concrete": False})

    def disagreement(self, stream: str, case, impl, model, key: str | None = None):
        """Model and implementation differ on `case`.  Not by itself a violation: the check's
        search decides; if nothing concrete is found, finish() reports it as unproved."""
        self.disagreements.append({"stream": stream, "case": case, "impl": impl, "model": model, "key": key})

    # ---------------------------------------------------------------- verdict
    def finish(self) -> int:
        known = [k for k in load_known() if k.get("kind") == "known" and k.get("property") == self.pid]
        known_keys = {k["key"]: k for k in known}
        real = []
        seen_keys = set()
        # for each key keep the smallest failing input (a cheap stand-in for shrinking)
        for v in sorted(self.violations, key=lambda v: len(canon_safe(v["replay"]))):
            if v["key"] in seen_keys:
                continue
            seen_keys.add(v["key"])
            if v["concrete"] and v["key"] in known_keys:
                self.known_hits.append(v)
            else:
                real.append(v)
        # a broken obligation / correspondence with no (unlisted) concrete failing input is still reported
        if not any(v["concrete"] for v in real):
            if self.ob is not None and self.ob.failed():
                bad = self.ob.failed()
                real.append({"key": "unproved:theorems", "concrete": False,
                             "what": "theorem(s) no longer check: " + ", ".join(bad[:8]),
                             "replay": {"theorems": {k: self.ob.theorems[k] for k in bad},
                                        "modules": self.ob.modules, "build_log_tail": self.ob.build_log[-3000:]}})
            dis = [d for d in self.disagreements if not (d.get("key") and d["key"] in known_keys)]
            if dis:
                streams = sorted({d["stream"] for d in dis})
                real.append({"key": "unproved:correspondence", "concrete": False,
                             "what": "model and implementation disagree on correspondence stream(s) " + ", ".join(streams)
                                     + f" ({len(dis)} case(s)); the property's own predicate did not fail on any explored input",
                             "replay": {"streams": streams, "first_disagreements": dis[:5]}})
        for v in self.known_hits:
            print(f"KNOWN-FINDING: property={self.pid} {v['key']} — {known_keys[v['key']].get('what', v['what'])}")
        rc = 0
        REPLAYS.mkdir(exist_ok=True)
        for n, v in enumerate(real):
            path = REPLAYS / f"{self.pid}-{self.seed}-{n}.json"
            payload = {
                "property": self.pid, "key": v["key"], "what": v["what"], "tier": self.tier, "seed": self.seed,
                "concrete_failing_input": v["concrete"], "replay": v["replay"],
            }
            path.write_text(json.dumps(payload, indent=1, sort_keys=True, default=str))
            tail = "" if v["concrete"] else " no-failing-input-found"
            print(f"VIOLATION property={self.pid} replay={path}{tail}")
            print(f"  {v['key']}: {v['what']}"[:600])
            rc = 1
        self.write_evidence(len(real))
        return rc

    def write_evidence(self, nviol: int):
        EVIDENCE.mkdir(exist_ok=True)
        ob = self.ob
        cov: dict = {
            "obligations": ob.n if ob else 0,
            "discharged": ob.discharged if ob else 0,
            "checker_cmd": self.checker_cmd,
            "trusted_base": self.trusted_base,
            "theorems": {k: (v["axioms"] if v["ok"] else "NOT DISCHARGED: " + v["why"]) for k, v in (ob.theorems.items() if ob else [])},
            "correspondence": {
                "evaluations": self.evaluations,
                "distinct_nontrivial": len(self.nontrivial),
                "rule": self.rule,
                "streams": self.streams,
                "distribution": dict(sorted(self.distribution.items())),
                "model_vs_impl_disagreements": len(self.disagreements),
            },
            "evaluations": self.evaluations,
            "distinct_nontrivial": len(self.nontrivial),
            "rule": self.rule,
            "samples": self.samples[:8] if self.samples else ["<none>"],
            "known_findings_hit": [v["key"] for v in self.known_hits],
            "leanchecker": (ob.leanchecker if ob else None),
        }
        cov.update(self.extra)
        ev = {
            "property_id": self.pid,
            "tier": self.tier,
            "seed": self.seed,
            "level": self.level,
            "coverage": cov,
            "assumptions": self.assumptions,
            "wall_s": round(time.time() - self.t0, 2),
            "violations": nviol,
        }
        tmp = EVIDENCE / f".{self.pid}.json.tmp"
        tmp.write_text(json.dumps(ev, indent=1, sort_keys=True, default=str))
        os.replace(tmp, EVIDENCE / f"{self.pid}.json")


def run_check(pid: str, body, level: str = "proof") -> int:
    """Entry point used by harness/cXX.py:  body(check) performs the run."""
    tier = os.environ.get("VERIF_TIER") or (sys.argv[1] if len(sys.argv) > 1 else "quick")
    ck = Check(pid, tier, level)
    try:
        ensure_repo_on_path()
        body(ck)
        return ck.finish()
    except subprocess.TimeoutExpired as e:
        print(f"TIMEOUT in check {pid}: {e}", file=sys.stderr)
        return 2
    except InfraError as e:
        print(f"INFRASTRUCTURE ERROR in check {pid}: {e}", file=sys.stderr)
        return 2
    except Exception:
        traceback.print_exc()
        print(f"INFRASTRUCTURE ERROR in check {pid} (uncaught exception above)", file=sys.stderr)
        return 2


# ---------------------------------------------------------------------- small utilities
def float_bits(x: float) -> str:
    import struct

    return str(struct.unpack("<Q", struct.pack("<d", float(x)))[0])


def bits_float(s) -> float:
    import struct

    return struct.unpack("<d", struct.pack("<Q", int(s)))[0]


def frac(x):
    """exact rational [num, den] of a Python float / int / Fraction"""
    from fractions import Fraction

    f = Fraction(x)
    return [f.numerator, f.denominator]


def err_kind(exc: BaseException) -> str:
    for k in ("ValueError", "TypeError", "KeyError", "AttributeError", "IndexError", "RuntimeError", "NotImplementedError", "FileNotFoundError", "FileExistsError", "OSError"):
        for c in type(exc).__mro__:
            if c.__name__ == k:
                return k
    return "Other:" + type(exc).__name__
