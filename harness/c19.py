"""C19 — output files are complete, correctly attributed and never clobbered.

obligations: lean/PyxelModel/Props/C19.lean (fresh directory for every folder content; termination
             of the retry loop; any number of concurrent starts under every interleaving; file-name
             injectivity; one reported file per combination holding that run's bucket; frame over
             everything outside the run's directory)
tie to code : Generated/C19.lean (mkdir flags, writer disciplines, name templates) + differential
             runs of `create_output_directory` / `Outputs.create_output_folder` (same-second starts,
             pre-populated colliding names, 2–8 concurrent threads and processes) and of
             `pyxel.run_mode` (exposure, sequential and dask observation; save lists over buckets ×
             formats) against the Lean model and against the statement evaluated on disk.
HDF5: h5py is not installed in this sandbox — the `hdf` format is not exercised.
"""

from __future__ import annotations

import datetime as _dt
import hashlib
import json
import multiprocessing as mp
import os
import shutil
import sys
import tempfile
import threading
from unittest import mock

import common
from common import LeanDriver, run_check

BUCKETS = ["photon", "charge", "pixel", "signal", "image"]
BASE = {"photon": 1000.0, "charge": 2000.0, "pixel": 3000.0, "signal": 4000.0, "image": 5000.0}
LOSSLESS = ["fits", "npy"]
STAMP = "20260102_030405"
ROWS, COLS = 8, 8


class FixedDT(_dt.datetime):
    @classmethod
    def now(cls, tz=None):
        return cls(2026, 1, 2, 3, 4, 5)


class _Patches:
    def __init__(self, patches):
        self.patches = patches

    def __enter__(self):
        for p in self.patches:
            p.start()
        return self

    def __exit__(self, *a):
        for p in reversed(self.patches):
            p.stop()


def patched_clock():
    """fix the clock of the output code wherever it took `datetime` from (the class or the module, under any local
    name, in any module of pyxel.outputs) — no assumption about private names or import style"""
    import types

    import pyxel.outputs  # noqa: F401  (loads the sub-modules)

    patches = []
    for name, mod in list(sys.modules.items()):
        if not name.startswith("pyxel.outputs") or mod is None:
            continue
        for attr, val in list(vars(mod).items()):
            if val is _dt.datetime:
                patches.append(mock.patch.object(mod, attr, FixedDT))
            elif val is _dt:
                fake = types.SimpleNamespace(**{k: getattr(_dt, k) for k in dir(_dt) if not k.startswith("__")})
                fake.datetime = FixedDT
                patches.append(mock.patch.object(mod, attr, fake))
    return _Patches(patches)


# ------------------------------------------------------------------ folder helpers
def populate(parent, pre):
    """pre: list of [name, kind] with kind 'dir' | 'file' | 'dirfile' (a directory holding old output files)"""
    if pre:
        os.makedirs(parent, exist_ok=True)
    for name, kind in pre:
        p = os.path.join(parent, name)
        if kind == "file":
            with open(p, "wb") as f:
                f.write(b"old file " + name.encode())
        else:
            os.makedirs(p, exist_ok=True)
            if kind == "dirfile":
                for fn in ("detector_image.fits", "detector_image.npy", "detector_image_array_1.npy", "detector_image_0.npy"):
                    with open(os.path.join(p, fn), "wb") as f:
                        f.write(b"old output " + fn.encode())


def snapshot(parent):
    """relative path -> sha1 (files) / 'dir' of everything under parent"""
    snap = {}
    for root, dirs, files in os.walk(parent):
        for d in dirs:
            snap[os.path.relpath(os.path.join(root, d), parent)] = "dir"
        for f in files:
            p = os.path.join(root, f)
            with open(p, "rb") as fh:
                snap[os.path.relpath(p, parent)] = hashlib.sha1(fh.read()).hexdigest()
    return snap


def check_preexisting(before, after, run_dirs):
    """`never overwrites or truncates a file that already exists` + writes stay in the run's own directory"""
    for path, h in before.items():
        if path not in after:
            return f"pre-existing '{path}' disappeared"
        if after[path] != h:
            return f"pre-existing file '{path}' was overwritten"
    for path in after:
        if path in before:
            continue
        top = path.split(os.sep)[0]
        if top not in run_dirs:
            return f"new entry '{path}' outside the directories created by the runs {sorted(run_dirs)}"
    return None


# ------------------------------------------------------------------ directory streams
def impl_dirs_sequential(case, parent):
    from pyxel.outputs import ExposureOutputs

    out = []
    with patched_clock():
        for pre in case["prefixes"]:
            o = ExposureOutputs(output_folder=parent, custom_dir_name=pre)
            o.create_output_folder()
            out.append(os.path.basename(str(o.current_output_folder)))
    return out


def impl_dirs_threads(case, parent):
    from pyxel.outputs import ExposureOutputs

    n = len(case["prefixes"])
    res = [None] * n
    barrier = threading.Barrier(n)

    def work(i):
        o = ExposureOutputs(output_folder=parent, custom_dir_name=case["prefixes"][i])
        barrier.wait()
        try:
            o.create_output_folder()
            res[i] = os.path.basename(str(o.current_output_folder))
        except Exception as e:  # noqa: BLE001
            res[i] = "ERR:" + common.err_kind(e)

    with patched_clock():
        ts = [threading.Thread(target=work, args=(i,)) for i in range(n)]
        for t in ts:
            t.start()
        for t in ts:
            t.join()
    return res


def _proc_dir(args):
    parent, pre = args
    common.ensure_repo_on_path()
    from pyxel.outputs import ExposureOutputs

    with patched_clock():
        try:
            o = ExposureOutputs(output_folder=parent, custom_dir_name=pre)
            o.create_output_folder()
            return os.path.basename(str(o.current_output_folder))
        except Exception as e:  # noqa: BLE001
            return "ERR:" + common.err_kind(e)


def impl_dirs_processes(case, parent, pool):
    return pool.map(_proc_dir, [(parent, pre) for pre in case["prefixes"]], chunksize=1)


def statement_dirs(case, before, after, dirs):
    """fresh, distinct, existing directories; pre-existing entries untouched"""
    if any(d is None or str(d).startswith("ERR:") for d in dirs):
        return f"a start failed: {dirs}"
    if len(set(dirs)) != len(dirs):
        return f"two starts share a directory: {dirs}"
    for d in dirs:
        if d in before:
            return f"directory '{d}' existed before the start"
        if after.get(d) != "dir":
            return f"directory '{d}' does not exist after the start"
    return check_preexisting(before, after, set(dirs))


def req_dirs(case, sequential):
    names = [n for n, _ in case["pre"]]
    starts = [[(p or "run_"), STAMP] for p in case["prefixes"]]
    n = len(starts)
    turns = len(names) + n + 2
    if sequential:
        sched = [i for i in range(n) for _ in range(turns)]
    else:
        sched = [i for _ in range(turns) for i in range(n)]
    return {"op": "dirs", "fs": names, "starts": starts, "sched": sched}


# ------------------------------------------------------------------ full runs
def expected_bucket(bucket, a, b, extra=0.0):
    import numpy as np

    idx = np.arange(ROWS * COLS, dtype=float).reshape(ROWS, COLS)
    off = 16.0 * float(a) + float(b) + float(extra)
    if bucket == "image":
        return np.asarray(5000.0 + off + idx, dtype=np.uint16)
    return BASE[bucket] + off + idx / 64.0


def build_mode(case, parent):
    import pyx
    from pyxel.exposure import Exposure, Readout
    from pyxel.observation import Observation, ParameterValues
    from pyxel.outputs import ExposureOutputs, ObservationOutputs

    save = [{f"detector.{b}.array": list(fmts)} for b, fmts in case["save"]]
    pipe = pyx.make_pipeline({"photon_collection": [{"name": "c19", "func": "probes.c19_fill",
                                                     "arguments": {"a": float(case["a"][0]), "b": float(case["b"][0]),
                                                                   "as_particles": bool(case.get("particles", False)),
                                                                   "count_scale": float(case.get("count_scale", 0.0)),
                                                                   "noise": float(case.get("noise", 0.0))}}]})
    if case.get("header_from_uint16_fits"):
        # a header propagated from a uint16 FITS input (BZERO = 32768, BSCALE = 1) travels with the detector into the
        # FITS files of the float buckets
        import numpy as np
        from astropy.io import fits

        src = os.path.join(os.path.dirname(os.path.dirname(parent)), "input_u16.fits")
        if not os.path.exists(src):
            os.makedirs(os.path.dirname(src), exist_ok=True)
            fits.writeto(src + f".{os.getpid()}.tmp", (np.arange(ROWS * COLS).reshape(ROWS, COLS) + 40000).astype("uint16"), overwrite=True)
            os.replace(src + f".{os.getpid()}.tmp", src)
        pipe = pyx.make_pipeline({"photon_collection": [
            {"name": "input", "func": "pyxel.models.photon_collection.load_image", "arguments": {"image_file": src, "include_header": True}},
            {"name": "c19", "func": "probes.c19_fill",
             "arguments": {"a": float(case["a"][0]), "b": float(case["b"][0]), "as_particles": bool(case.get("particles", False)),
                           "count_scale": float(case.get("count_scale", 0.0))}}]})
    det = pyx.make_detector("CCD", ROWS, COLS)
    times = [1.0] if case["readouts"] == 1 else [1.0, 2.5]
    if case.get("yaml") and case["mode"] != "deprecated-exposure":
        return build_mode_yaml(case, parent, save, times)
    if case["mode"] == "deprecated-exposure":
        out = ExposureOutputs(output_folder=parent, save_data_to_file=save,
                              **({"custom_dir_name": case["prefix"]} if case["prefix"] else {}))
        mode = Exposure(readout=Readout(times=[float(i + 1) for i in range(case["readouts"])]), outputs=out)
        return mode, det, pipe, out
    kw = {"custom_dir_name": case["prefix"]} if case["prefix"] else {}
    if case["mode"] == "exposure":
        out = ExposureOutputs(output_folder=parent, save_data_to_file=save, **kw)
        mode = Exposure(readout=Readout(times=times), outputs=out)
    else:
        out = ObservationOutputs(output_folder=parent, save_data_to_file=save, **kw)
        mode = Observation(
            parameters=[ParameterValues(key="pipeline.photon_collection.c19.arguments.a", values=[float(x) for x in case["a"]]),
                        ParameterValues(key="pipeline.photon_collection.c19.arguments.b", values=[float(x) for x in case["b"]])],
            outputs=out, readout=Readout(times=times), with_dask=(case["mode"] == "parallel"))
    return mode, det, pipe, out


def build_mode_yaml(case, parent, save, times):
    """the same simulation described by a YAML document and built by `pyxel.loads` — with every combination of the
    current (`save_data_to_file`) and the deprecated (`save_observation_data` / `save_exposure_data`) output keys"""
    import pyxel
    import yaml

    outputs = {"output_folder": parent}
    if case["prefix"]:
        outputs["custom_dir_name"] = case["prefix"]
    y = case["yaml"]
    if y.get("current", True):
        outputs["save_data_to_file"] = save
    dep_key = "save_exposure_data" if case["mode"] == "exposure" else "save_observation_data"
    if y["deprecated"] == "empty":
        outputs[dep_key] = []
    elif y["deprecated"] == "null":
        outputs[dep_key] = None
    elif y["deprecated"] == "value" and case["mode"] != "exposure":
        outputs[dep_key] = [{"dataset": ["nc"]}]
    if y.get("key_order") == "deprecated-first":
        outputs = dict(reversed(list(outputs.items())))
    readout = {"readout": {"times": times}}
    if case["mode"] == "exposure":
        mode_doc = {"exposure": {**readout, "outputs": outputs}}
    else:
        mode_doc = {"observation": {
            "mode": "product", "with_dask": case["mode"] == "parallel", **readout, "outputs": outputs,
            "parameters": [{"key": "pipeline.photon_collection.c19.arguments.a", "values": [float(x) for x in case["a"]]},
                           {"key": "pipeline.photon_collection.c19.arguments.b", "values": [float(x) for x in case["b"]]}]}}
    doc = {
        **mode_doc,
        "ccd_detector": {
            "geometry": {"row": ROWS, "col": COLS, "total_thickness": 40.0, "pixel_vert_size": 10.0, "pixel_horz_size": 10.0},
            "environment": {"temperature": 200.0},
            "characteristics": {"quantum_efficiency": 0.9, "charge_to_volt_conversion": 1e-6, "pre_amplification": 100.0,
                                "full_well_capacity": 100000, "adc_bit_resolution": 16, "adc_voltage_range": [0.0, 10.0]}},
        "pipeline": {"photon_collection": [{"name": "c19", "func": "probes.c19_fill", "enabled": True,
                                            "arguments": {"a": float(case["a"][0]), "b": float(case["b"][0]),
                                                          "as_particles": bool(case.get("particles", False)), "count_scale": 0.0}}]},
    }
    cfg = pyxel.loads(yaml.safe_dump(doc, sort_keys=False))
    mode = cfg.running_mode
    return mode, cfg.detector, cfg.pipeline, mode.outputs


def current_dir(out):
    """the directory of the latest start, through the public property only (None before any start)"""
    try:
        return str(out.current_output_folder)
    except Exception:  # noqa: BLE001  (RuntimeError: not defined yet)
        return None


def extract_reported(case, res):
    """[run, bucket, fmt, name, a, b] for every entry of the result's /output node"""
    import numpy as np

    reported = []
    node = res["output"]
    nb = len(case["b"])
    for bucket in node.children:
        fn = node[bucket]["filename"]
        fmt_dim = "extension" if "extension" in fn.dims else "data_format"
        for fmt in sorted({str(x) for x in fn[fmt_dim].values}):
            sel = fn.sel({fmt_dim: fmt})
            if case["mode"] == "exposure":
                for name in np.atleast_1d(sel.values).ravel().tolist():
                    reported.append([0, bucket, fmt, str(name), case["a"][0], case["b"][0]])
            else:
                a_order = [float(x) for x in (fn["a"].values if case["mode"] == "parallel" else case["a"])]
                b_order = [float(x) for x in (fn["b"].values if case["mode"] == "parallel" else case["b"])]
                for av in case["a"]:
                    for bv in case["b"]:
                        v = sel.sel(a=float(av), b=float(bv)).values
                        r = a_order.index(float(av)) * nb + b_order.index(float(bv))
                        for name in np.atleast_1d(v).ravel().tolist():
                            reported.append([r, bucket, fmt, str(name), av, bv])
    return reported


def run_plan(case, parent):
    """ONE mode object started several times in one process (case["plan"]): each start may carry another save
    list (set by attribute assignment or through `override_dct`); dask starts may all be made before any lazy
    result is computed (`lazy`: start, start, …, compute in the given order).  Returns one record per start."""
    import pyxel

    plan = case["plan"]
    mode, det, pipe, out = build_mode({**case, "save": plan["saves"][0]}, parent)
    key = ("exposure" if case["mode"] == "exposure" else "observation") + ".outputs.save_data_to_file"
    started = []  # (save, lazy result, directory)
    records: list = [None] * len(plan["saves"])

    def finish(k):
        save, lazy, run_dir = started[k]
        sub = {**case, "save": save}
        try:
            res = lazy.compute() if case["mode"] == "parallel" else lazy
            records[k] = {"dir": os.path.basename(run_dir), "run_dir": run_dir, "reported": extract_reported(sub, res),
                          "planted": [], "overwrite": None, "save": save}
        except Exception as e:  # noqa: BLE001
            kind = "NotImplementedError" if isinstance(e, NotImplementedError) else common.err_kind(e)
            records[k] = {"error": kind, "msg": str(e)[:200], "dir": os.path.basename(run_dir), "save": save}

    for k, save in enumerate(plan["saves"]):
        save_cfg = [{f"detector.{b}.array": list(fmts)} for b, fmts in save]
        kw = {}
        if k > 0:
            if plan["via"] == "override":
                kw["override_dct"] = {key: save_cfg}
            else:
                mode.outputs.save_data_to_file = save_cfg
        try:
            with patched_clock():
                lazy = pyxel.run_mode(mode=mode, detector=det, pipeline=pipe, **kw)
        except Exception as e:  # noqa: BLE001
            kind = "NotImplementedError" if isinstance(e, NotImplementedError) else common.err_kind(e)
            d = current_dir(mode.outputs)
            records[k] = {"error": kind, "msg": str(e)[:200], "dir": os.path.basename(d) if d else None, "save": save}
            started.append(None)
            continue
        started.append((save, lazy, current_dir(mode.outputs)))
        if not plan.get("lazy"):
            finish(k)
    if plan.get("lazy"):
        for k in plan["order"]:
            if started[k] is not None:
                finish(k)
    return records


def one_run(case, parent):
    """start one simulation; returns {"dir", "reported": {(run, bucket, fmt): [names]}, …} or {"error"}"""
    import numpy as np
    import pyxel

    mode, det, pipe, out = build_mode(case, parent)
    overwrite_why = None
    planted: list = []
    try:
        with patched_clock():
            lazy = res = pyxel.run_mode(mode=mode, detector=det, pipeline=pipe)
            if case["mode"] == "parallel":
                # the dask path writes its files when the lazy result is computed: files may appear in the run's
                # directory before that, and the result may be computed more than once
                run_dir0 = str(out.current_output_folder)
                for name in case.get("plant", []):
                    with open(os.path.join(run_dir0, name), "wb") as f:
                        f.write(b"planted before compute: " + name.encode())
                    planted.append(name)
                for n in range(case.get("computes", 1)):
                    before = stat_snapshot(run_dir0)
                    res = lazy.compute()
                    after = stat_snapshot(run_dir0)
                    for name, st in before.items():
                        if name not in after:
                            overwrite_why = overwrite_why or f"compute {n + 1}: existing file '{name}' disappeared"
                        elif after[name][0] != st[0]:
                            overwrite_why = overwrite_why or (f"compute {n + 1} of the lazy result overwrote the existing file '{name}'"
                                                              + (" (planted before the first compute)" if name in planted else " (written by the previous compute)"))
                        elif after[name][1:] != st[1:]:
                            overwrite_why = overwrite_why or f"compute {n + 1} of the lazy result rewrote the existing file '{name}' (same bytes, new mtime / inode)"
    except Exception as e:  # noqa: BLE001
        d = current_dir(out)
        d = os.path.basename(d) if d else None
        kind = "NotImplementedError" if isinstance(e, NotImplementedError) else common.err_kind(e)
        return {"error": kind, "msg": str(e)[:200], "dir": d}
    run_dir = str(out.current_output_folder)
    reported = []  # [run, bucket, fmt, name]
    node = res["output"]
    na, nb = len(case["a"]), len(case["b"])
    for bucket in node.children:
        fn = node[bucket]["filename"]
        fmt_dim = "extension" if "extension" in fn.dims else "data_format"
        for fmt in sorted({str(x) for x in fn[fmt_dim].values}):
            sel = fn.sel({fmt_dim: fmt})
            if case["mode"] == "exposure":
                for name in np.atleast_1d(sel.values).ravel().tolist():  # a format requested twice is listed twice
                    reported.append([0, bucket, fmt, str(name), case["a"][0], case["b"][0]])
            else:
                # run index: position in the given value lists (sequential path numbers its runs in product
                # order of the lists as given); the dask path numbers by position in the result's coordinates
                a_order = [float(x) for x in (fn["a"].values if case["mode"] == "parallel" else case["a"])]
                b_order = [float(x) for x in (fn["b"].values if case["mode"] == "parallel" else case["b"])]
                for av in case["a"]:
                    for bv in case["b"]:
                        v = sel.sel(a=float(av), b=float(bv)).values
                        r = a_order.index(float(av)) * nb + b_order.index(float(bv))
                        for name in np.atleast_1d(v).ravel().tolist():
                            reported.append([r, bucket, fmt, str(name), av, bv])
    computed = {}
    if case.get("noise") and case["mode"] == "parallel":
        # a stochastic, unseeded pipeline: the file of a run must hold the bucket the RESULT reports for that run
        nb = len(case["b"])
        for r, bucket, fmt, name, av, bv in reported:
            try:
                da = res["bucket"][bucket].sel(a=float(av), b=float(bv))
                arr = np.asarray(da.values)
                computed[f"{r}:{bucket}"] = arr[-1] if arr.ndim == 3 else arr
            except Exception:  # noqa: BLE001
                pass
    return {"dir": os.path.basename(run_dir), "run_dir": run_dir, "reported": reported, "planted": planted,
            "overwrite": overwrite_why, "_computed": computed}


def stat_snapshot(folder):
    """file name -> (sha1, mtime_ns, inode, size) of every file in the folder"""
    snap = {}
    for name in sorted(os.listdir(folder)):
        p = os.path.join(folder, name)
        if os.path.isfile(p):
            st = os.stat(p)
            with open(p, "rb") as fh:
                snap[name] = (hashlib.sha1(fh.read()).hexdigest(), st.st_mtime_ns, st.st_ino, st.st_size)
    return snap


def read_back(path, fmt):
    import numpy as np

    if fmt == "npy":
        return np.load(path)
    if fmt == "fits":
        from astropy.io import fits

        return np.asarray(fits.getdata(path))
    from PIL import Image

    return np.asarray(Image.open(path))


def statement_run(case, impl):
    """every requested (bucket, format, run) has exactly one reported file, which exists and holds that
    run's bucket (bit-identical for npy / fits); returns None if it holds"""
    import numpy as np

    combos = [(b, f) for b, fmts in case["save"] for f in fmts]
    if len(set(combos)) != len(combos):
        return None  # the same (bucket, format) requested twice: degenerate request, outside the statement (recorded)
    if "error" in impl:
        if impl["error"] == "NotImplementedError":
            return None  # the mode refuses this format loudly: outside the statement (counted in the evidence)
        return f"run failed with {impl['error']}: {impl['msg']}"
    if impl.get("overwrite"):
        return impl["overwrite"]
    nruns = 1 if case["mode"] == "exposure" else len(case["a"]) * len(case["b"])
    want = {(r, b, f) for r in range(nruns) for b, fmts in case["save"] for f in fmts}
    got: dict = {}
    attributed = {}
    for r, b, f, name, av, bv in impl["reported"]:
        got.setdefault((r, b, f), []).append(name)
        attributed[(r, b, f)] = (av, bv)
    if len({v for v in attributed.values()}) != nruns:
        return f"the reported files are attributed to {len(set(attributed.values()))} parameter combinations, {nruns} were run"
    for k in sorted(want):
        if k not in got:
            return f"no reported file for run {k[0]}, bucket {k[1]}, format {k[2]}"
        if len(got[k]) != 1:
            return f"{len(got[k])} reported files for run {k[0]}, bucket {k[1]}, format {k[2]}"
    extra = set(got) - want
    if extra:
        return f"reported files for combinations that were not requested: {sorted(extra)[:3]}"
    names = [os.path.basename(v[0]) for v in got.values()]
    if len(set(names)) != len(names):
        return "two combinations share one reported file name"
    nb = len(case["b"])
    for (r, b, f), (name,) in sorted(got.items()):
        path = name if os.path.isabs(name) else os.path.join(impl["run_dir"], name)
        if os.path.dirname(os.path.abspath(path)) != os.path.abspath(impl["run_dir"]):
            return f"reported file '{name}' is not in the run's directory"
        if not os.path.isfile(path):
            return f"reported file '{name}' does not exist on disk"
        if os.path.basename(name) in impl.get("planted", []):
            continue  # a foreign file that was in the way is left alone (never overwritten): not this run's data
        av, bv = attributed[(r, b, f)]
        exp = expected_bucket(b, av, bv)
        if case.get("noise") and b == "pixel" and f"{r}:{b}" in impl.get("_computed", {}):
            exp = impl["_computed"][f"{r}:{b}"]
        try:
            data = read_back(path, f)
        except Exception as e:  # noqa: BLE001
            return f"reported file '{name}' cannot be read back: {type(e).__name__}"
        if f in LOSSLESS:
            if data.shape != exp.shape or data.dtype.newbyteorder("=") != exp.dtype or not np.array_equal(data, exp):
                return (f"file '{os.path.basename(name)}' attributed to run {r} (a={av}, b={bv}) bucket {b} does not hold "
                        f"that bucket bit-identically (dtype {data.dtype}, first value {data.flat[0]!r}, expected {exp.flat[0]!r})")
        else:
            if data.shape[:2] != exp.shape:
                return f"picture '{name}' has shape {data.shape}"
    return None


def req_names(case):
    nruns = 1 if case["mode"] == "exposure" else len(case["a"]) * len(case["b"])
    combos = [[b, f] for b, fmts in case["save"] for f in fmts]
    return {"op": "names", "mode": case["mode"], "combos": combos, "runs": nruns}


def canon_run(case, impl):
    """comparison form of a run for the Lean `names` answer"""
    if "error" in impl:
        return impl["error"] if impl["error"] != "OSError" else "FileExistsError"
    order = {(b, f): k for k, (b, f) in enumerate((b, f) for b, fmts in case["save"] for f in fmts)}
    rep = sorted(impl["reported"], key=lambda x: (x[0], order.get((x[1], x[2]), 99)))
    return {"reported": [os.path.basename(x[3]) for x in rep],
            "present": sorted(os.listdir(impl["run_dir"])),
            "holds": [[os.path.basename(x[3]), x[0], x[1]] for x in rep]}


def canon_model(ans):
    m = ans["model"]
    if isinstance(m, str):
        return m
    return {"reported": m["reported"], "present": sorted(m["present"]), "holds": m["holds"]}


def _proc_run(args):
    case, parent = args
    common.ensure_repo_on_path()
    impl = one_run(case, parent)
    why = statement_run(case, impl)
    return impl, why


# ------------------------------------------------------------------ generators
def gen_pre(rng, prefixes):
    """colliding names already in the parent folder"""
    pre = []
    bases = sorted({(p or "run_") + STAMP for p in prefixes})
    for base in bases:
        k = rng.choice([0, 0, 1, 2, 3])
        cand = [base] + [f"{base}_{i}" for i in range(1, 6)]
        for name in rng.sample(cand, k):
            pre.append([name, rng.choice(["dir", "file", "dirfile"])])
    if rng.random() < 0.5:
        pre.append(["unrelated.txt", "file"])
    if rng.random() < 0.3:
        pre.append(["run_19990101_000000", "dirfile"])
    return pre


def gen_dirs(rng, n, kind):
    cases = []
    for i in range(n):
        k = rng.choice([1, 2, 3, 4]) if kind == "sequential" else rng.choice([2, 3, 4, 6, 8])
        if rng.random() < 0.7:
            prefixes = [""] * k
        else:
            prefixes = [rng.choice(["", "", "foo_", "run_"]) for _ in range(k)]
        cases.append({"stream": f"dirs-{kind}", "id": i, "prefixes": prefixes, "pre": gen_pre(rng, prefixes)})
    return cases


def gen_save(rng, mode, allow_both_jpegs=True):
    nb = rng.choice([1, 1, 2, 3, 5])
    save = []
    for b in rng.sample(BUCKETS, nb):
        fmts = rng.sample(LOSSLESS, rng.choice([1, 1, 2]))
        if b == "image" and rng.random() < 0.35:
            extra = rng.choice([["jpg"], ["jpeg"], ["jpg", "jpeg"] if allow_both_jpegs else ["jpg"]])
            fmts = fmts + extra
        save.append([b, fmts])
    if rng.random() < 0.4:
        if len(save) == 1:  # a second bucket, so that the repeated entries can be separated
            other_b = rng.choice([x for x in BUCKETS if x != save[0][0]])
            save.append([other_b, rng.sample(LOSSLESS, rng.choice([1, 2]))])
        # the same bucket requested by several entries of the save list (each format still once per bucket):
        # split the formats of some buckets over two or three entries, adjacent or separated by other buckets
        split = []
        for b, fmts in save:
            if len(fmts) >= 2 and rng.random() < 0.8:
                k = rng.randrange(1, len(fmts))
                split.append([[b, fmts[:k]], [b, fmts[k:]]])
            else:
                split.append([[b, fmts]])
        if all(len(x) == 1 for x in split):  # make sure at least one bucket is repeated
            b, fmts = split[0][0]
            other = [f for f in LOSSLESS if f not in fmts] or None
            if other:
                split[0].append([b, other])
        first = [x[0] for x in split]
        later = [e for x in split for e in x[1:]]
        if rng.random() < 0.35:
            save = [e for x in split for e in x]  # adjacent
        else:
            rng.shuffle(later)
            save = first + later  # non-adjacent as soon as there are two buckets
            if rng.random() < 0.5:
                rng.shuffle(save)
    return save


def gen_runs(rng, n, mode):
    cases = []
    for i in range(n):
        if mode == "exposure":
            a, b = [rng.randrange(0, 4)], [rng.randrange(0, 8)]
        else:
            a = rng.sample(range(0, 5), rng.choice([1, 2, 2, 3]))
            b = rng.sample(range(0, 9), rng.choice([1, 2, 3]))
        prefix = rng.choice(["", "", "", "foo_"])
        save = gen_save(rng, mode)
        extra = {}
        if mode == "parallel" and rng.random() < 0.35 and any(bk == "pixel" for bk, _ in save):
            extra["noise"] = 4.0  # an unseeded stochastic model: computed once, files judged against the computed result
        elif mode == "parallel":
            extra["computes"] = rng.choice([1, 2, 2])
            if rng.random() < 0.5:
                # colliding names planted inside the fresh directory between run_mode and the first compute
                cand = [f"detector_{bk}_{r}.{f}" for bk, fmts in save for f in fmts for r in range(len(a) * len(b))]
                extra["plant"] = sorted(set(rng.sample(cand, min(len(cand), rng.choice([1, 2])))))
        if any(bk == "charge" for bk, _ in save):
            # the charge bucket is (partly) held as charge clusters (costly: every read of the bucket re-bins the clusters)
            extra["particles"] = rng.random() < (0.5 if mode != "sequential" else 0.25)
        if any(f == "fits" for _, fmts in save for f in fmts) and rng.random() < 0.4:
            extra["header_from_uint16_fits"] = True
        elif rng.random() < 0.35:
            # the YAML route, with the deprecated output key absent / empty / null / set, before or after the current one
            extra["yaml"] = {"deprecated": rng.choice(["absent", "empty", "null", "value"]),
                             "key_order": rng.choice(["current-first", "deprecated-first"])}
        case = {"stream": f"run-{mode}", "id": i, "mode": mode, "save": save, **extra, "a": a, "b": b,
                "readouts": rng.choice([1, 1, 2]), "prefix": prefix,
                "starts": rng.choice([1, 1, 2, 3]) if mode != "parallel" else (1 if (extra.get("plant") or extra.get("noise")) else rng.choice([1, 2])),
                "pre": gen_pre(rng, [prefix])}
        cases.append(case)
    return cases


def gen_deprecated(rng, n):
    """`pyxel.exposure_mode` (deprecated, still exported): one save per readout with automatic numbering"""
    cases = []
    for i in range(n):
        nread = [12, 3, 11, 15, 10, 23][i % 6]
        nb = rng.choice([1, 2])
        save = [[bk, rng.sample(["npy", "fits", "txt"], rng.choice([1, 2]))] for bk in rng.sample(BUCKETS, nb)]
        cases.append({"stream": "run-deprecated", "id": i, "mode": "deprecated-exposure", "save": save, "a": [rng.randrange(0, 4)],
                      "b": [rng.randrange(0, 8)], "readouts": nread, "prefix": rng.choice(["", "foo_"]), "starts": 1,
                      "count_scale": 100.0, "particles": nread <= 3 and any(bk == "charge" for bk, _ in save), "pre": gen_pre(rng, [""])})
    return cases


def run_deprecated(case, parent):
    import numpy as np
    import pyxel

    mode, det, pipe, out = build_mode(case, parent)
    try:
        with patched_clock():
            pyxel.exposure_mode(exposure=mode, detector=det, pipeline=pipe)
    except Exception as e:  # noqa: BLE001
        d = current_dir(out)
        return {"error": common.err_kind(e), "msg": str(e)[:200], "dir": os.path.basename(d) if d else None,
                "present": sorted(os.listdir(d)) if d else []}
    run_dir = current_dir(out)
    return {"dir": os.path.basename(run_dir), "run_dir": run_dir, "present": sorted(os.listdir(run_dir))}


def statement_deprecated(case, impl):
    """one file per (bucket, format, readout), numbered 1..N, each holding the bucket of its readout; nothing overwritten"""
    import numpy as np

    if "error" in impl:
        return f"run failed with {impl['error']}: {impl['msg']} (files present: {len(impl.get('present', []))})"
    n = case["readouts"]
    want = {f"detector_{b}_array_{k}.{f}": (b, f, k) for b, fmts in case["save"] for f in fmts for k in range(1, n + 1)}
    present = set(impl["present"])
    missing = sorted(set(want) - present, key=lambda x: (len(x), x))
    if missing:
        return f"{n} readouts were saved but {len(missing)} file(s) are missing, e.g. '{missing[0]}' ({len(present)} files present)"
    extra = sorted(present - set(want))
    if extra:
        return f"unexpected file(s) in the run directory: {extra[:3]}"
    for name, (b, f, k) in sorted(want.items(), key=lambda kv: (kv[1][0], kv[1][1], kv[1][2])):
        exp = expected_bucket(b, case["a"][0], case["b"][0], extra=case["count_scale"] * (k - 1))
        path = os.path.join(impl["run_dir"], name)
        if f == "txt":
            data = np.atleast_2d(np.genfromtxt(path, delimiter="|"))
            ok = data.shape == exp.shape and np.allclose(data, exp.astype(float), rtol=1e-7, atol=0)
        else:
            data = read_back(path, f)
            ok = data.shape == exp.shape and np.array_equal(data, exp)
        if not ok:
            return (f"file '{name}' does not hold the '{b}' bucket of readout {k} "
                    f"(first value {np.asarray(data).flat[0]!r}, expected {exp.flat[0]!r})")
    return None


def gen_plans(rng, n):
    """the deprecated pyxel.exposure_mode with 3-23 readouts (one automatically numbered save per readout, npy / fits / txt); "
               "the charge bucket held partly as charge clusters in 60 % of the runs that save it; "
               "35 % of the runs described by a YAML document (pyxel.loads) with the deprecated output key absent / empty / null / set, "
               "before or after save_data_to_file; one mode object started 2-3 times in one process"""
    cases = []
    for i in range(n):
        mode = ["exposure", "parallel", "sequential", "parallel"][i % 4]
        base = gen_runs(rng, 1, mode)[0]
        for k in ("plant", "computes", "noise"):  # several starts: every start is judged on the deterministic expectation
            base.pop(k, None)
        nstart = rng.choice([2, 2, 3])
        if rng.random() < 0.7:
            saves = []
            while len(saves) < nstart:
                sv = gen_save(rng, mode, allow_both_jpegs=False)
                if not saves or json.dumps(sv) != json.dumps(saves[-1]):
                    saves.append(sv)
        else:
            saves = [base["save"]] * nstart
        lazy = mode == "parallel" and rng.random() < 0.7
        order = list(range(nstart))
        if lazy and rng.random() < 0.5:
            rng.shuffle(order)
        base.update({"stream": f"run-{mode}", "id": f"plan{i}", "starts": nstart, "save": saves[0],
                     "plan": {"saves": saves, "via": rng.choice(["attr", "override"]), "lazy": lazy, "order": order}})
        cases.append(base)
    return cases


def directed_runs():
    """inputs named in the design: jpg + jpeg together in every mode; unsupported formats"""
    out = []
    for mode in ("exposure", "sequential", "parallel"):
        out.append({"stream": f"run-{mode}", "id": f"jpgjpeg-{mode}", "mode": mode, "save": [["image", ["jpg", "jpeg", "npy"]]],
                    "a": [1] if mode == "exposure" else [1, 2], "b": [3], "readouts": 1, "prefix": "", "starts": 1, "pre": []})
    out.append({"stream": "run-parallel", "id": "double-compute", "mode": "parallel", "save": [["image", ["fits", "npy"]], ["pixel", ["npy"]]],
                "a": [1, 2], "b": [3], "readouts": 1, "prefix": "", "starts": 1, "pre": [], "computes": 2})
    out.append({"stream": "run-parallel", "id": "planted-collision", "mode": "parallel", "save": [["image", ["fits", "npy"]], ["pixel", ["npy"]]],
                "a": [1, 2], "b": [3], "readouts": 1, "prefix": "", "starts": 1, "pre": [], "computes": 2,
                "plant": ["detector_image_0.fits", "detector_pixel_1.npy"]})
    for mode in ("exposure", "sequential", "parallel"):
        for dep in ("absent", "empty", "null", "value"):
            out.append({"stream": f"run-{mode}", "id": f"yaml-{dep}-{mode}", "mode": mode, "save": [["pixel", ["npy"]], ["image", ["npy", "fits"]]],
                        "a": [1] if mode == "exposure" else [1, 2], "b": [3], "readouts": 1, "prefix": "", "starts": 1, "pre": [],
                        "yaml": {"deprecated": dep, "key_order": "deprecated-first" if dep == "value" else "current-first"}})
    out.append({"stream": "run-parallel", "id": "stochastic-unseeded", "mode": "parallel", "save": [["pixel", ["npy", "fits"]], ["image", ["npy"]]],
                "a": [1, 2], "b": [3, 0], "readouts": 1, "prefix": "", "starts": 1, "pre": [], "noise": 4.0})
    for mode in ("exposure", "sequential", "parallel"):
        out.append({"stream": f"run-{mode}", "id": f"uint16-header-{mode}", "mode": mode,
                    "save": [["pixel", ["fits"]], ["photon", ["fits", "npy"]], ["image", ["fits"]], ["signal", ["fits"]]],
                    "a": [1] if mode == "exposure" else [1, 2], "b": [3], "readouts": 1, "prefix": "", "starts": 1, "pre": [],
                    "header_from_uint16_fits": True})
    for mode in ("exposure", "sequential", "parallel"):
        out.append({"stream": f"run-{mode}", "id": f"charge-as-clusters-{mode}", "mode": mode, "save": [["charge", ["npy", "fits"]], ["pixel", ["npy"]]],
                    "a": [1] if mode == "exposure" else [1, 2], "b": [3], "readouts": 1, "prefix": "", "starts": 1, "pre": [], "particles": True})
    two = [[["image", ["npy"]]], [["pixel", ["npy"]], ["image", ["fits"]]]]
    for mode in ("exposure", "sequential", "parallel"):
        for via in ("attr", "override"):
            out.append({"stream": f"run-{mode}", "id": f"restart-other-save-list-{via}-{mode}", "mode": mode, "save": two[0],
                        "a": [1] if mode == "exposure" else [1, 2], "b": [3], "readouts": 1, "prefix": "", "starts": 2, "pre": [],
                        "plan": {"saves": two, "via": via, "lazy": False, "order": [0, 1]}})
    same = [["image", ["fits", "npy"]], ["pixel", ["npy"]]]
    for order in ([0, 1], [1, 0]):
        out.append({"stream": "run-parallel", "id": f"lazy-double-start-{order[0]}", "mode": "parallel", "save": same,
                    "a": [1, 2], "b": [3, 0], "readouts": 1, "prefix": "", "starts": 2, "pre": [],
                    "plan": {"saves": [same, same], "via": "attr", "lazy": True, "order": order}})
    repeated = {"nonadjacent": [["image", ["fits"]], ["pixel", ["npy"]], ["image", ["npy"]]],
                "adjacent": [["image", ["fits"]], ["image", ["npy"]], ["pixel", ["npy"]]],
                "three-entries": [["photon", ["npy"]], ["image", ["npy"]], ["photon", ["fits"]], ["signal", ["fits", "npy"]], ["image", ["fits", "jpg"]]]}
    for nm, save in repeated.items():
        for mode in ("exposure", "sequential", "parallel"):
            out.append({"stream": f"run-{mode}", "id": f"repeated-{nm}-{mode}", "mode": mode, "save": save,
                        "a": [1] if mode == "exposure" else [1, 2], "b": [3] if mode == "exposure" else [3, 0], "readouts": 1,
                        "prefix": "", "starts": 1, "pre": []})
    # the same (bucket, format) requested twice: a degenerate request, recorded but not judged
    for mode in ("exposure", "sequential", "parallel"):
        out.append({"stream": "run-degenerate", "id": f"duplicate-{mode}", "mode": mode,
                    "save": [["image", ["npy"]], ["pixel", ["npy"]], ["image", ["npy"]]],
                    "a": [1] if mode == "exposure" else [1, 2], "b": [3], "readouts": 1, "prefix": "", "starts": 1, "pre": []})
    for fmt in ("txt", "csv", "png"):
        for mode in ("exposure", "sequential", "parallel"):
            out.append({"stream": "run-unsupported", "id": f"{fmt}-{mode}", "mode": mode, "save": [["image", [fmt]]],
                        "a": [1], "b": [3], "readouts": 1, "prefix": "", "starts": 1, "pre": []})
    return out


# ------------------------------------------------------------------ evaluation of one case (body + replay)
def evaluate(case, tmp, pool=None):
    """returns (impl, why)"""
    s = case["stream"]
    parent = os.path.join(tmp, f"{s}-{case['id']}", "nested", "out") if s.startswith("run") else os.path.join(tmp, f"{s}-{case['id']}")
    populate(parent, case["pre"])
    before = snapshot(parent)
    if s.startswith("dirs"):
        if s == "dirs-sequential":
            dirs = impl_dirs_sequential(case, parent)
        elif s == "dirs-threads":
            dirs = impl_dirs_threads(case, parent)
        else:
            own = pool is None
            if own:
                pool = mp.get_context("fork").Pool(len(case["prefixes"]))
            try:
                dirs = impl_dirs_processes(case, parent, pool)
            finally:
                if own:
                    pool.close()
                    pool.join()
        after = snapshot(parent)
        listing = sorted(os.listdir(parent)) if os.path.isdir(parent) else []
        return {"dirs": dirs, "listing": listing}, statement_dirs(case, before, after, dirs)
    # full runs: `starts` simulations into the same parent within the same second
    impls, why = [], None
    if s == "run-processes":
        own = pool is None
        if own:
            pool = mp.get_context("fork").Pool(case["starts"])
        try:
            results = pool.map(_proc_run, [(case, parent)] * case["starts"], chunksize=1)
        finally:
            if own:
                pool.close()
                pool.join()
        for impl, w in results:
            impls.append(impl)
            why = why or w
    elif s == "run-deprecated":
        impl = run_deprecated(case, parent)
        impls.append(impl)
        why = statement_deprecated(case, impl)
    elif "plan" in case:
        for impl in run_plan(case, parent):
            impls.append(impl)
            w = statement_run({**case, "save": impl["save"]}, impl)
            why = why or (w and f"start {len(impls)} of the same mode object: {w}")
    else:
        for _ in range(case["starts"]):
            impl = one_run(case, parent)
            impls.append(impl)
            why = why or statement_run(case, impl)
    after = snapshot(parent)
    run_dirs = [i.get("dir") for i in impls if i.get("dir")]
    if why is None:
        if len(set(run_dirs)) != len(run_dirs):
            why = f"two starts share the directory: {run_dirs}"
        for d in run_dirs:
            if d in before:
                why = why or f"run wrote into '{d}', which existed before"
    why = why or check_preexisting(before, after, set(run_dirs))
    return {"runs": impls}, why


def violation_key(case, why):
    s = case["stream"]
    if s.startswith("dirs"):
        return "C19:create_output_directory:" + ("overwrite" if "overwritten" in why else "fresh-distinct")
    if "FileExistsError" in why and any("jpg" in f and "jpeg" in f for _, f in case["save"]) and case["mode"] == "sequential":
        return "C19:sequential:jpg-jpeg-same-file"
    if "overwritten" in why or "disappeared" in why or "overwrote" in why or "rewrote" in why:
        return f"C19:{case['mode']}:overwrite"
    if "not in the run's directory" in why:
        return f"C19:{case['mode']}:wrong-directory"
    if "plan" in case and len({json.dumps(x) for x in case["plan"]["saves"]}) > 1 and ("no reported file" in why or "not requested" in why):
        return f"C19:{case['mode']}:restart-keeps-old-save-list"
    buckets = [b for b, _ in case["save"]]
    if "no reported file" in why and len(set(buckets)) != len(buckets):
        return f"C19:{case['mode']}:repeated-bucket-unreported"
    if "share" in why or "existed before" in why:
        return f"C19:{case['mode']}:fresh-distinct"
    if "does not hold" in why:
        return f"C19:{case['mode']}:attribution"
    return f"C19:{case['mode']}:completeness"


def body(ck: common.Check):
    import extract

    extract.generate("C19")
    ck.obligations(["PyxelModel.Props.C19"], ["PyxelModel.Drive.C19"])
    rng = ck.rng
    quick = ck.tier == "quick"
    cases = []
    cases += gen_dirs(rng, 12 if quick else 120, "processes")
    proc_runs = gen_runs(rng, 6 if quick else 30, "exposure")
    for c in proc_runs:
        c["stream"], c["starts"] = "run-processes", rng.choice([2, 4, 8] if not quick else [2, 4])
    cases += proc_runs
    cases += gen_dirs(rng, 150 if quick else 1500, "sequential")
    cases += gen_dirs(rng, 60 if quick else 500, "threads")
    cases += directed_runs()
    cases += gen_runs(rng, 45 if quick else 500, "exposure")
    cases += gen_runs(rng, 18 if quick else 200, "sequential")
    cases += gen_runs(rng, 8 if quick else 80, "parallel")
    cases += gen_plans(rng, 8 if quick else 80)
    cases += gen_deprecated(rng, 6 if quick else 36)

    reqs, extra_slots = [], {}
    for c in cases:
        if c["stream"].startswith("dirs"):
            reqs.append(req_dirs(c, sequential=(c["stream"] == "dirs-sequential")))
        elif c["stream"] == "run-deprecated":
            reqs.append({"op": "autonames", "combos": [[b, f] for b, fmts in c["save"] for f in fmts], "saves": c["readouts"]})
        else:
            reqs.append(req_names(c))
    for n, c in enumerate(cases):  # one more model answer per further start of a plan (each start has its own save list)
        if "plan" in c:
            extra_slots[n] = []
            for sv in c["plan"]["saves"]:
                extra_slots[n].append(len(reqs))
                reqs.append(req_names({**c, "save": sv}))
    all_answers = LeanDriver("C19").batch(reqs)
    answers = all_answers[: len(cases)]

    tmp = tempfile.mkdtemp(prefix="verif-c19-")
    pool = mp.get_context("fork").Pool(8)  # forked before any dask graph is computed in this process
    try:
        for ncase, (case, ans) in enumerate(zip(cases, answers)):
            if "bad" in ans:
                raise common.InfraError(f"driver rejected request: {ans}")
            s = case["stream"]
            impl, why = evaluate(case, tmp, pool if s in ("dirs-processes", "run-processes") else None)
            if s.startswith("dirs"):
                ck.case(case, nontrivial=len(case["prefixes"]) >= 2 or bool(case["pre"]), stream=s)
                ck.count(f"{s}:starts={len(case['prefixes'])}")
                ck.count(f"{s}:colliding-preexisting={sum(1 for n, _ in case['pre'] if STAMP in n)}")
                ck.count(f"{s}:retries", sum(1 for d in impl["dirs"] if d and d.rsplit('_', 1)[-1].isdigit() and len(d.rsplit('_', 1)[-1]) < 3))
                model_dirs = ans["dirs"]
                if s == "dirs-sequential":
                    if impl["dirs"] != model_dirs:
                        ck.disagreement(s, case, impl["dirs"], model_dirs)
                else:  # the interleaving is not controlled: the *set* of directories is schedule-independent
                    if sorted(map(str, impl["dirs"])) != sorted(map(str, model_dirs)):
                        ck.disagreement(s, case, sorted(map(str, impl["dirs"])), sorted(map(str, model_dirs)))
                if sorted(impl["listing"]) != sorted(ans["fs"]):
                    ck.disagreement(s, case, sorted(impl["listing"]), sorted(ans["fs"]))
            else:
                if s == "run-deprecated":
                    ck.case(case, nontrivial=True, stream=s)
                    ck.count(f"run-deprecated:readouts={case['readouts']}")
                    ck.count("run-deprecated:outcome=" + (impl["runs"][0].get("error") or "ok"))
                    mine = sorted(impl["runs"][0].get("present", []))
                    model = sorted(ans["model"]["present"])
                    if mine != model:
                        ck.disagreement(s, case, mine, model)
                    if why is not None:
                        ck.violation("C19:deprecated-exposure:automatic-numbering" if ("missing" in why or "does not hold" in why or "failed" in why)
                                     else violation_key({**case, "mode": "deprecated-exposure"}, why), why, {"case": case, "impl": impl})
                    continue
                nruns = 1 if case["mode"] == "exposure" else len(case["a"]) * len(case["b"])
                ncombo = sum(len(f) for _, f in case["save"])
                ck.case(case, nontrivial=nruns * ncombo >= 2 or case["starts"] >= 2, stream=s)
                ck.count(f"{s}:starts={case['starts']}")
                ck.count(f"{s}:files", nruns * ncombo * case["starts"])
                bl = [b for b, _ in case["save"]]
                if len(set(bl)) != len(bl):
                    adjacent = all(bl[i] == bl[i + 1] or bl[i] not in bl[i + 1:] for i in range(len(bl) - 1))
                    ck.count(f"{s}:bucket-in-several-entries:" + ("adjacent" if adjacent else "non-adjacent"))
                for _, fmts in case["save"]:
                    for f in fmts:
                        ck.count(f"format={f}")
                if case.get("noise"):
                    ck.count(f"{s}:stochastic-unseeded-pipeline")
                if case.get("header_from_uint16_fits"):
                    ck.count(f"{s}:header-propagated-from-uint16-FITS-input")
                if case.get("yaml"):
                    ck.count(f"{s}:built-from-YAML:deprecated-output-key={case['yaml']['deprecated']}")
                if case.get("particles") and any(bk == "charge" for bk, _ in case["save"]):
                    ck.count(f"{s}:charge-bucket-held-as-clusters")
                if case["mode"] == "parallel":
                    ck.count(f"run-parallel:computes={case.get('computes', 1)}:planted={len(case.get('plant', []))}")
                if "plan" in case:
                    pl = case["plan"]
                    ck.count(f"{s}:same-mode-object:starts={len(pl['saves'])}:" + ("lazy-starts-before-compute" if pl.get("lazy") else "eager")
                             + (":save-list-changed-by-" + pl["via"] if len({json.dumps(x) for x in pl["saves"]}) > 1 else ":same-save-list"))
                for krun, impl_run in enumerate(impl["runs"]):
                    ck.count(f"{s}:outcome=" + (impl_run.get("error") or "ok"))
                    if s == "run-degenerate":
                        continue
                    sub = {**case, "save": impl_run["save"]} if "plan" in case else case
                    mine = canon_run(sub, impl_run)
                    model = canon_model(all_answers[extra_slots[ncase][krun]] if "plan" in case else ans)
                    if mine != model:
                        if isinstance(mine, str) and mine == "NotImplementedError":
                            continue  # formats refused by the mode are outside the model
                        ck.disagreement(s, case, mine, model,
                                        key="C19:sequential:jpg-jpeg-same-file" if mine == "FileExistsError" else None)
            if why is not None:
                ck.violation(violation_key(case, why), why, {"case": case, "impl": impl})
    finally:
        pool.close()
        pool.join()
        shutil.rmtree(tmp, ignore_errors=True)

    ck.rule = ("create_output_directory / Outputs.create_output_folder with the clock fixed (all starts in one second): 1-4 sequential "
               "starts, 2-8 simultaneous threads, 2-8 simultaneous processes, into folders pre-populated with 0-3 of the colliding names "
               "(as directories, directories with old output files, plain files), default and custom prefixes; pyxel.run_mode for "
               "exposure (1-2 readouts), sequential and dask product observation (1-3 × 1-3 parameter values) with save lists over "
               "1-5 buckets × {fits, npy, jpg, jpeg} (40 % of the lists request a bucket in several entries, adjacent or not, each "
               "format once), 1-3 same-second starts per case and 2-8 concurrent processes; every reported file "
               "read back and compared with the bucket of the run it is attributed to; txt/csv/png recorded as refused "
               "(NotImplementedError); hdf not exercised (h5py missing). non-trivial = ≥ 2 starts or ≥ 2 files or colliding names")
    ck.assumptions = [
        "6b: `never overwrites` = every file that existed under the parent folder before run_mode has the same bytes afterwards",
        "formats that a mode refuses with NotImplementedError (txt, csv, png, hdf through save_to_files) are outside the statement",
        "the unreported detector_<bucket>.<ext> copy written by run 0 of a sequential observation is not a reported file: it is "
        "modelled (opsSequential) and compared, but does not contradict any clause of the statement",
        "thread and process interleavings are observed, not controlled; the model proves all interleavings",
        "a foreign file planted under a name the run is about to write must survive unchanged (never overwritten); the reported "
        "name then designates that foreign file, which is not judged for attribution (the two clauses conflict there)",
        "a save list asking twice for the same (bucket, format) is a degenerate request: recorded (stream run-degenerate), not judged",
    ]
    ck.trusted_base.append("C19: Path.mkdir(exist_ok=False) is an atomic test-and-set on the parent folder (POSIX mkdir); "
                           "np.save/np.load, astropy FITS write/read are lossless; dask computes every element of the filename array")
    ck.extra["not_exercised"] = ["hdf format (h5py not installed)"]


def replay(path):
    common.ensure_repo_on_path()
    rp = json.load(open(path))
    case = rp["replay"].get("case")
    if case is None:
        print("replay names a broken obligation/correspondence, no concrete input:", rp["what"])
        return 1
    tmp = tempfile.mkdtemp(prefix="verif-c19-replay-")
    try:
        impl, why = evaluate(case, tmp)
    finally:
        shutil.rmtree(tmp, ignore_errors=True)
    print("impl:", str(impl)[:1500])
    print("REPRODUCED: " + why if why else "not reproduced (property holds on this input)")
    return 1 if why else 0


if __name__ == "__main__":
    if len(sys.argv) > 2 and sys.argv[1] == "--replay":
        sys.exit(replay(sys.argv[2]))
    sys.exit(run_check("C19", body))
