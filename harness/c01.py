"""C01 — enabled models run once per readout, in the fixed physical group order.

obligations: lean/PyxelModel/Props/C01.lean (all pipelines, all step counts)
tie to code : Generated/C01.lean (MODEL_GROUPS tuple, constructor wiring) + differential run of the
              real scheduler (exposure / observation / calibration; YAML and Python construction;
              debug on/off) against the Lean model (`model`) and the statement's order (`spec`).
"""

from __future__ import annotations

import copy
import itertools
import json
import sys

import common
from common import LeanDriver, run_check

GROUPS = [
    "scene_generation", "photon_collection", "phasing", "charge_generation", "charge_collection",
    "charge_transfer", "charge_measurement", "signal_transfer", "readout_electronics", "data_processing",
]


# ------------------------------------------------------------------ generator
def gen_args(rng, ident):
    n = rng.choice([0, 0, 1, 2, 3])
    pool = [1, 0, -7, 2.5, 0.1, 1e-9, "abc", "", True, False, None, [1, 2, [3, "x"]], [0.5], {"k": 1}]
    args = {"_id": ident}
    for i in range(n):
        args[rng.choice(["alpha", "beta", "gamma", "level", "x"]) + str(i)] = rng.choice(pool)
    return args


def gen_case(rng, groups_subset=None, force_enabled=None):
    if groups_subset is None:
        k = rng.choice([1, 2, 2, 3, 3, 4, 5, 7, 10])
        groups_subset = rng.sample(GROUPS, k)
    user_order = list(groups_subset)
    rng.shuffle(user_order)
    groups = []
    for g in user_order:
        style = rng.random()
        if style < 0.08:
            groups.append([g, None])  # YAML `group: null` / keyword None
            continue
        if style < 0.16:
            groups.append([g, []])  # empty list
            continue
        nm = rng.choice([1, 1, 2, 3, 4])
        ms = []
        for i in range(nm):
            en = rng.random() < 0.7 if force_enabled is None else force_enabled
            ms.append({"name": f"m{i}_{g[:3]}{rng.randrange(100)}", "enabled": en, "args": gen_args(rng, f"{g}#{i}")})
        # unique names inside a group
        seen = set()
        for i, m in enumerate(ms):
            while m["name"] in seen:
                m["name"] += "x"
            seen.add(m["name"])
        groups.append([g, ms])
    case = {
        "groups": groups,
        "steps": rng.choice([1, 1, 2, 3, 4]),
        "debug": rng.random() < 0.4,
        "construction": rng.choice(["python", "yaml"]),
        "mode": rng.choice(["exposure"] * 6 + ["observation-seq", "observation-dask", "calibration"]),
        "nd": rng.random() < 0.3,
    }
    # flags changed AFTER the pipeline object exists (attribute assignment / run_mode(override_dct=...)):
    # "enabled" means enabled when the readout step runs
    toggles = []
    for g, ms in groups:
        for i, m in enumerate(ms or []):
            if rng.random() < 0.15:
                toggles.append([g, i, m["name"], not m["enabled"], rng.choice(["attr", "override", "override-text"])])
    case["toggles"] = toggles
    # the same model NAME in two different groups (legal): keys must address the model of THEIR group
    populated2 = [(g, ms) for g, ms in groups if ms]
    if len(populated2) >= 2 and rng.random() < 0.35:
        (ga, msa), (gb, msb) = rng.sample(populated2, 2)
        msb[rng.randrange(len(msb))]["name"] = msa[rng.randrange(len(msa))]["name"]
        seen = set()
        for m in msb:  # keep names unique inside the group
            while m["name"] in seen:
                m["name"] += "y"
            seen.add(m["name"])
        for t in toggles:  # toggles recorded before the renaming carry the old name
            if t[0] == gb:
                t[2] = msb[t[1]]["name"]
        # make sure a key-based change lands on one of the two
        for i, m in enumerate(msb):
            if any(m["name"] == ma["name"] for ma in msa) and not any(t[0] == gb and t[1] == i for t in toggles):
                toggles.append([gb, i, m["name"], not m["enabled"], "override"])
        case["toggles"] = toggles
    # history: a copy-based run (observation) changes ONE ENTRY of a dict-valued argument by key, then the configured
    # pipeline objects are run again — they must still carry exactly the configured arguments
    case["pre_sweep"] = None
    if case["mode"] == "exposure" and case["construction"] == "python" and populated2 and rng.random() < 0.25:
        g, ms = rng.choice(populated2)
        i = rng.randrange(len(ms))
        ms[i]["args"]["opts"] = {"level": 1, "kind": "flat"}
        case["pre_sweep"] = [g, i, ms[i]["name"], "opts", "level", [10, 20, 30]]
    # YAML anchors/aliases: ONE model entry object used in two groups (`- &m {...}` … `- *m`)
    case["aliases"] = []
    populated = [(g, ms) for g, ms in groups if ms]
    if case["construction"] == "yaml" and case["mode"] == "exposure" and populated and rng.random() < 0.35:
        g, ms = rng.choice(populated)
        i = rng.randrange(len(ms))
        others = [g2 for g2 in GROUPS if g2 != g]
        g2 = rng.choice(others)
        case["aliases"].append([g, i, g2])
    # a model that fails (after having been called): it must still have executed exactly once
    case["fail"] = None
    enabled_now = [(g, i) for g, ms in groups for i, m in enumerate(ms or []) if m["enabled"] and not any(t[0] == g and t[1] == i for t in toggles)]
    if case["mode"] == "exposure" and enabled_now and not case["aliases"] and rng.random() < 0.12:
        g, i = rng.choice(enabled_now)
        case["fail"] = [g, i, rng.randrange(case["steps"]), rng.choice(["TypeError", "TypeError", "ValueError", "KeyError", "AttributeError"])]
        for gg, ms in groups:
            if gg == g:
                ms[i]["args"]["_raise_step"] = case["fail"][2]
                ms[i]["args"]["_raise_cls"] = case["fail"][3]
    if case["mode"] != "exposure":
        case["debug"] = False  # debug capture exists for exposure only
        case["construction"] = "python"
    if case["mode"] == "calibration":
        case["steps"] = 1  # a multi-readout calibration needs a 3-D target cube; one step suffices here
    return case


# ------------------------------------------------------------------ implementation side
def pipeline_dict(case):
    d = {}
    objs = {}
    for g, ms in case["groups"]:
        if ms is None:
            d[g] = None
        else:
            d[g] = []
            for i, m in enumerate(ms):
                # deep copy: the objects handed to pyxel must share NOTHING with the case description
                # (a defect that mutates a nested argument value would otherwise rewrite the expectation too)
                o = {"name": m["name"], "func": "probes.trace", "enabled": m["enabled"], "arguments": copy.deepcopy(m["args"])}
                objs[(g, i)] = o
                d[g].append(o)
    for g, i, g2 in case.get("aliases", []):
        if d.get(g2) is None:
            d[g2] = []
        d[g2].append(objs[(g, i)])  # the SAME object: yaml.safe_dump writes an anchor and an alias
    return d


def build(case):
    import pyx

    times = [float(i + 1) for i in range((case.get("retime") or {}).get("initial", case["steps"]))]
    if case["construction"] == "yaml":
        import yaml
        from pyxel.configuration import loads

        doc = {
            "exposure": {"readout": {"times": times, "non_destructive": case["nd"]}},
            "ccd_detector": {
                "geometry": {"row": 3, "col": 4, "total_thickness": 10.0, "pixel_vert_size": 10.0, "pixel_horz_size": 10.0},
                "environment": {"temperature": 100.0},
                "characteristics": {"quantum_efficiency": 0.5, "charge_to_volt_conversion": 1e-6, "pre_amplification": 10.0,
                                    "adc_bit_resolution": 16, "adc_voltage_range": [0.0, 5.0], "full_well_capacity": 1000},
            },
            "pipeline": pipeline_dict(case),
        }
        cfg = loads(yaml.safe_dump(doc, sort_keys=False))
        return cfg.exposure, cfg.detector, cfg.pipeline
    from pyxel.pipelines import DetectionPipeline, ModelFunction

    kw = {}
    for g, ms in pipeline_dict(case).items():
        kw[g] = None if ms is None else [ModelFunction(func=m["func"], name=m["name"], arguments=m["arguments"], enabled=m["enabled"]) for m in ms]
    return pyx.make_exposure(times=times, non_destructive=case["nd"]), pyx.make_detector("CCD", 3, 4), DetectionPipeline(**kw)


def _segments(case, log):
    """split a multi-run log into per-run traces: records carry the thread id and the swept temperature"""
    by = {}
    for rec in log:
        _, step, name, kw, _det, temp, tid = rec
        ident = json.loads(kw).get("_id", "?#-1")
        g, _, idx = ident.partition("#")
        by.setdefault((tid, temp) if case["mode"] != "calibration" else (tid,), []).append([step, g, int(idx), name, kw])
    return by


def run_impl(case):
    """returns {"trace": [[step, group, idx, name, args]...], "debug_nodes": [...]} or {"error": kind};
    for multi-run modes additionally "runs": number of complete executions observed"""
    import probes
    import pyx

    probes.reset()
    td = None
    raised = None
    try:
        mode, det, pipe = build(case)
        mode_kind = case["mode"]
        overrides = {}
        for g, i, name, new, route in case.get("toggles", []):
            if route == "attr":
                getattr(pipe, g).models[i].enabled = new
            elif route == "override-text":  # what `pyxel run --override key=False` hands over: the TEXT of the value
                overrides[f"pipeline.{g}.{name}.enabled"] = "True" if new else "False"
            else:
                overrides[f"pipeline.{g}.{name}.enabled"] = new
        okw = {"override_dct": overrides} if overrides else {}
        if case.get("pre_sweep"):
            from pyxel.observation import Observation, ParameterValues

            g, i, name, arg, entry, values = case["pre_sweep"]
            pre = Observation(parameters=[ParameterValues(key=f"pipeline.{g}.{name}.arguments.{arg}.{entry}", values=values)], readout=mode.readout)
            try:
                pyx.run(pre, det, pipe, with_inherited_coords=True)
            except Exception:  # noqa: BLE001  (a disabled model cannot be swept: the history then has no first act)
                pass
            probes.reset()
        if mode_kind == "exposure":
            res = pyx.run(mode, det, pipe, debug=case["debug"], **okw)
        elif mode_kind in ("observation-seq", "observation-dask"):
            import dask
            from pyxel.observation import Observation, ParameterValues

            obs = Observation(parameters=[ParameterValues(key="detector.environment.temperature", values=[101.0, 102.0, 103.0])],
                              readout=mode.readout, with_dask=(mode_kind == "observation-dask"))
            if mode_kind == "observation-dask":
                with dask.config.set(scheduler="threads", num_workers=3):
                    res = pyx.run(obs, det, pipe, with_inherited_coords=True, **okw).load()
            else:
                res = pyx.run(obs, det, pipe, with_inherited_coords=True, **okw)
        elif mode_kind == "calibration":
            import os
            import tempfile

            import numpy as np

            td = tempfile.mkdtemp(prefix="c01-")
            tf = os.path.join(td, "t.npy")
            np.save(tf, np.zeros((3, 4)))
            cal = pyx.make_calibration([tf], [{"key": "detector.environment.temperature", "values": "_", "boundaries": (100.0, 200.0)},
                                             {"key": "detector.characteristics.quantum_efficiency", "values": "_", "boundaries": (0.1, 0.9)}],
                                       result_fit_range=(0, 3, 0, 4), target_fit_range=(0, 3, 0, 4), result_type="pixel",
                                       population_size=8, generations=1)
            res = pyx.run(cal, det, pipe, **okw)
        else:
            raise ValueError(mode_kind)
    except Exception as e:  # noqa: BLE001
        if not case.get("fail"):
            return {"error": common.err_kind(e), "msg": str(e)[:300]}
        raised = common.err_kind(e)
    finally:
        if td:
            import shutil

            shutil.rmtree(td, ignore_errors=True)
    if mode_kind != "exposure":
        segs = _segments(case, list(probes.LOG))
        return {"segments": [v for _, v in sorted(segs.items(), key=lambda kv: str(kv[0]))]}
    trace = []
    for rec in probes.LOG:
        _, step, name, kw, _det, _temp, _tid = rec
        ident = json.loads(kw).get("_id", "?#-1")
        g, _, idx = ident.partition("#")
        trace.append([step, g, int(idx), name, kw])
    out = {"trace": trace}
    if case.get("fail"):
        out["raised"] = raised
        return out
    if case["debug"] and mode_kind == "exposure":
        nodes = []
        inter = res["intermediate"]
        for tkey in inter.children:
            if not tkey.startswith("time_idx_"):
                continue
            for g in inter[tkey].children:
                for m in inter[tkey][g].children:
                    nodes.append([int(tkey[len("time_idx_"):]), g, m])
        out["debug_nodes"] = sorted(nodes)
    return out


def whole_copies(seg, expected):
    """is `seg` a concatenation of k >= 0 complete copies of `expected`?  returns k or None"""
    if not expected:
        return 0 if not seg else None
    n = len(expected)
    if len(seg) % n:
        return None
    for i in range(0, len(seg), n):
        if seg[i:i + n] != expected:
            return None
    return len(seg) // n


def effective_groups(case):
    """groups with aliased entries appended to their second group (same name / flag / arguments)"""
    groups = [[g, (None if ms is None else list(ms))] for g, ms in case["groups"]]
    for g, i, g2 in case.get("aliases", []):
        src = next(ms for gg, ms in groups if gg == g)[i]
        tgt = next((x for x in groups if x[0] == g2), None)
        if tgt is None:
            groups.append([g2, [src]])
        elif tgt[1] is None:
            tgt[1] = [src]
        else:
            tgt[1] = tgt[1] + [src]
    return groups


def final_enabled(case, g, i, m):
    for tg, ti, _name, new, _route in case.get("toggles", []):
        if tg == g and ti == i:
            return new
    return m["enabled"]


def lean_request(case):
    from probes import canon_kwargs

    groups = []
    for g, ms in effective_groups(case):
        groups.append([g, [[m["name"], m["enabled"], canon_kwargs(m["args"])] for i, m in enumerate(ms or [])]])
    # changes made after construction are applied BY THE MODEL (setIdx / setKey of Model/C01Keys.lean: by position
    # for the attribute route, first model of that name in that group for the dotted-key route)
    toggles = [[g, i, name, bool(new), route] for g, i, name, new, route in case.get("toggles", [])]
    return {"groups": groups, "toggles": toggles, "steps": case["steps"], "debug": case["debug"]}


def property_predicate(case, impl):
    """The statement itself, evaluated on the implementation's trace (independent of the model):
    returns None if it holds, else a description."""
    if "error" in impl:
        return f"run failed: {impl['error']} {impl.get('msg','')}"
    from probes import canon_kwargs

    expected = []
    cfg = {g: ms for g, ms in effective_groups(case) if ms}
    for step in range(case["steps"]):
        for g in GROUPS:
            for i, m in enumerate(cfg.get(g, [])):
                if final_enabled(case, g, i, m):
                    expected.append([step, g, i, m["name"], canon_kwargs(m["args"])])
    if "segments" in impl:
        total = 0
        for seg in impl["segments"]:
            k = whole_copies(seg, expected)
            if k is None:
                return "a run/evaluation of mode %s did not execute the statement's schedule" % case["mode"]
            total += k
        want = {"observation-seq": 3, "observation-dask": 3, "calibration": 1}[case["mode"]]
        if expected and total < want:
            return f"mode {case['mode']}: only {total} complete executions observed (expected at least {want})"
        return None
    if case.get("fail"):
        fg, fi, fstep, fcls = case["fail"]
        cut = next((k for k, c in enumerate(expected) if c[0] == fstep and c[1] == fg and c[2] == fi), None)
        expected = expected[: cut + 1] if cut is not None else expected
        if impl.get("raised") is None:
            return "a model raised but the run returned normally"
    got = impl["trace"]
    if case.get("aliases"):
        # an aliased entry carries the `_id` of its first occurrence: judge (step, name, arguments) in order
        got = [[c[0], c[3], c[4]] for c in got]
        expected_p = [[c[0], c[3], c[4]] for c in expected]
        if got != expected_p:
            return "trace differs from the statement's schedule (pipeline with a YAML alias)"
        return None
    if got != expected:
        return "trace differs from the statement's schedule" + (" (a failing model must still have executed exactly once)" if case.get("fail") else "")
    if "debug_nodes" in impl:
        exp_nodes = sorted({(s, g, n) for s, g, _, n, _ in expected})
        if [tuple(x) for x in impl["debug_nodes"]] != exp_nodes:
            return "debug nodes differ from executed models"
    return None


# ------------------------------------------------------------------ stream: keyed (changes per run / after construction)
def gen_keyed_case(rng):
    """a sequential observation over pipeline keys (`….enabled` and `….arguments.lvl`, values including the falsy ones
    False and 0), optionally with the readout times replaced after construction (setter or override)"""
    while True:
        c = gen_case(rng, groups_subset=rng.sample(GROUPS, rng.choice([2, 3, 4])))
        if sum(len(ms or []) for _, ms in c["groups"]) >= 2:
            break
    c["toggles"], c["aliases"], c["fail"], c["pre_sweep"], c["debug"] = [], [], None, None, False
    names = set()
    for g, ms in c["groups"]:
        for m in (ms or []):
            m["args"].pop("_raise_step", None), m["args"].pop("_raise_cls", None)
            while m["name"] in names:  # unique across the pipeline (keys are judged in C08; here the schedule)
                m["name"] += "y"
            names.add(m["name"])
    models = [(g, i, m) for g, ms in c["groups"] for i, m in enumerate(ms or [])]
    seq = []
    for g, i, m in rng.sample(models, min(len(models), rng.choice([1, 2, 2, 3]))):
        if m["enabled"] and rng.random() < 0.5:
            m["args"]["lvl"] = rng.choice([7, 2.5, 1])
            seq.append({"kind": "arg", "g": g, "i": i, "name": m["name"], "values": rng.choice([[0, 5], [0], [0.0, 3.5], [4, 0, 9]])})
        else:
            seq.append({"kind": "enabled", "g": g, "i": i, "name": m["name"], "values": rng.choice([[False], [False, True], [True, False], [True]])})
    c["seq"] = seq
    c["mode"] = rng.choice(["keyed-exposure", "keyed-sequential", "keyed-sequential"]) if seq else "keyed-exposure"
    c["steps"] = rng.choice([1, 2, 3, 4])
    c["retime"] = None
    if rng.random() < 0.5:
        c["retime"] = {"initial": rng.choice([k for k in (1, 2, 3, 5) if k != c["steps"]]), "via": rng.choice(["setter", "override"] if c["mode"] == "keyed-exposure" else ["setter"])}
    return c


def keyed_runs(case):
    """the runs of the case, in execution order: [(toggles, argsets)]"""
    from probes import canon_kwargs

    if case["mode"] == "keyed-exposure":
        return [([], [])]
    runs = []
    for p in case["seq"]:
        for v in p["values"]:
            if p["kind"] == "enabled":
                runs.append(([[p["g"], p["i"], p["name"], bool(v), "override"]], []))
            else:
                m = dict(next(ms for g, ms in case["groups"] if g == p["g"])[p["i"]]["args"])
                m["lvl"] = v
                runs.append(([], [[p["g"], p["name"], canon_kwargs(m)]]))
    return runs


def keyed_expected(case, toggles, argsets):
    """the statement, for one run: enabled models (after this run's change), group order, list order, this run's arguments"""
    from probes import canon_kwargs

    out = []
    cfg = {g: ms for g, ms in case["groups"] if ms}
    for step in range(case["steps"]):
        for g in GROUPS:
            for i, m in enumerate(cfg.get(g, [])):
                en = m["enabled"]
                for tg, ti, _n, new, _r in toggles:
                    if tg == g and ti == i:
                        en = new
                args = canon_kwargs(m["args"])
                for ag, an, aj in argsets:
                    if ag == g and an == m["name"]:
                        args = aj
                if en:
                    out.append([step, g, i, m["name"], args])
    return out


def run_keyed_impl(case):
    import probes
    import pyx
    from pyxel.observation import Observation, ParameterValues

    probes.reset()
    try:
        mode, det, pipe = build(case)
        final_times = [float(i + 1) for i in range(case["steps"])]
        okw = {}
        if case.get("retime"):
            if case["retime"]["via"] == "setter":
                mode.readout.times = final_times
            else:
                okw = {"override_dct": {"exposure.readout.times": final_times}}
        if case["mode"] == "keyed-exposure":
            pyx.run(mode, det, pipe, **okw)
        else:
            pars = []
            for p in case["seq"]:
                key = f"pipeline.{p['g']}.{p['name']}." + ("enabled" if p["kind"] == "enabled" else "arguments.lvl")
                pars.append(ParameterValues(key=key, values=list(p["values"])))
            obs = Observation(mode="sequential", parameters=pars, readout=mode.readout, with_dask=False)
            pyx.run(obs, det, pipe, with_inherited_coords=True)
    except Exception as e:  # noqa: BLE001
        return {"error": common.err_kind(e), "msg": str(e)[:300]}
    trace = []
    for rec in probes.LOG:
        _, step, name, kw, _det, _temp, _tid = rec
        ident = json.loads(kw).get("_id", "?#-1")
        g, _, idx = ident.partition("#")
        trace.append([step, g, int(idx), name, kw])
    return {"trace": trace}


def check_keyed(ck: common.Check, rng, n):
    cases = [gen_keyed_case(rng) for _ in range(n)]
    # directed: a falsy value for a numeric argument and for an enabled flag; more readout times set after construction
    reqs, index = [], []
    for ci, c in enumerate(cases):
        for ri, (tg, ar) in enumerate(keyed_runs(c)):
            from probes import canon_kwargs

            groups = [[g, [[m["name"], m["enabled"], canon_kwargs(m["args"])] for m in (ms or [])]] for g, ms in c["groups"]]
            reqs.append({"groups": groups, "toggles": tg, "argsets": ar, "steps": c["steps"], "debug": False})
            index.append((ci, ri))
    answers = LeanDriver("C01").batch(reqs)
    per_case = {}
    for (ci, ri), ans in zip(index, answers):
        if "bad" in ans:
            raise common.InfraError(f"driver rejected keyed request: {ans}")
        per_case.setdefault(ci, []).append(ans)
    for ci, c in enumerate(cases):
        runs = keyed_runs(c)
        impl = run_keyed_impl(c)
        ck.case(c, nontrivial=len(runs) >= 2 or bool(c.get("retime")), stream="keyed")
        ck.count(f"keyed:{c['mode']}")
        ck.count("keyed:retime:" + (c["retime"]["via"] if c.get("retime") else "none"))
        ck.count("keyed:falsy-values", sum(1 for p in c["seq"] for v in p["values"] if not v) if c["mode"] != "keyed-exposure" else 0)
        if "error" in impl:
            ck.violation("C01:schedule:keyed-run-failed", f"a valid configuration changed through keys failed to run: {impl['error']} {impl.get('msg', '')}", {"case": c, "impl": impl})
            continue
        expected = [x for tg, ar in runs for x in keyed_expected(c, tg, ar)]
        model = [x for a in per_case.get(ci, []) for x in a["model"]]
        if impl["trace"] != expected:
            what = "runs of a sequential observation over pipeline keys did not execute the statement's schedule with that run's values" if c["mode"] != "keyed-exposure" else \
                   "exposure whose readout times were replaced after construction did not execute once per configured readout step"
            ck.violation("C01:schedule:keyed", what + f" (calls observed {len(impl['trace'])}, expected {len(expected)})", {"case": c, "impl": impl["trace"][:60], "expected": expected[:60]})
        if impl["trace"] != model:
            ck.disagreement("keyed", c, impl["trace"][:60], model[:60])
        if model != expected:
            raise common.InfraError("python predicate and Lean model disagree on a keyed case — harness bug")


def body(ck: common.Check):
    import extract

    extract.generate("C01")
    ck.obligations(["PyxelModel.Props.C01", "PyxelModel.Props.C01Keys"], ["PyxelModel.Drive.C01"])
    rng = ck.rng
    n_random = 150 if ck.tier == "quick" else 2500
    cases = []
    # exhaustive sub-enumeration: every ordered pair of groups, both populated & enabled (45 pairs × 2 user orders)
    for a, b in itertools.permutations(GROUPS, 2):
        if ck.tier == "quick" and GROUPS.index(a) > GROUPS.index(b):
            continue
        c = gen_case(rng, groups_subset=[a, b], force_enabled=True)
        c["groups"] = [x for x in c["groups"]]
        c["steps"], c["debug"], c["mode"], c["construction"] = 1, False, "exposure", rng.choice(["python", "yaml"])
        c["toggles"] = []
        c["aliases"], c["fail"], c["pre_sweep"] = [], None, None
        for _g, _ms in c["groups"]:
            for _m in (_ms or []):
                _m["args"].pop("_raise_step", None), _m["args"].pop("_raise_cls", None)
        cases.append(("pairs", c))
    for _ in range(n_random):
        cases.append(("random", gen_case(rng)))
    reqs = [lean_request(c) for _, c in cases]
    answers = LeanDriver("C01").batch(reqs)
    for (stream, case), ans in zip(cases, answers):
        impl = run_impl(case)
        enabled_calls = sum(1 for g, ms in case["groups"] for i, m in enumerate(ms or []) if final_enabled(case, g, i, m))
        ck.count("toggled_after_construction", len(case.get("toggles", [])))
        ck.case(case, nontrivial=enabled_calls >= 2, stream=stream)
        ck.count(f"construction={case['construction']}")
        ck.count(f"debug={case['debug']}")
        ck.count(f"steps={case['steps']}")
        ck.count("groups_null", sum(1 for g, ms in case["groups"] if ms is None))
        ck.count("groups_empty", sum(1 for g, ms in case["groups"] if ms == []))
        ck.count("models_disabled", sum(1 for g, ms in case["groups"] for m in (ms or []) if not m["enabled"]))
        if "bad" in ans:
            raise common.InfraError(f"driver rejected request: {ans}")
        why = property_predicate(case, impl)
        if why is not None:
            ck.violation("C01:schedule", why, {"case": case, "impl": impl, "spec": ans["spec"]})
        ck.count(f"mode={case['mode']}")
        model_trace = ans["model"]
        impl_trace = impl.get("trace")
        if case.get("fail") and impl_trace is not None:
            fg, fi, fstep, _ = case["fail"]
            cut = next((k for k, c in enumerate(model_trace) if c[0] == fstep and c[1] == fg and c[2] == fi), None)
            model_trace = model_trace[: cut + 1] if cut is not None else model_trace
        if case.get("aliases") and impl_trace is not None:
            model_trace = [[c[0], c[3], c[4]] for c in model_trace]
            impl_trace = [[c[0], c[3], c[4]] for c in impl_trace]
        ck.count("yaml_alias", len(case.get("aliases", [])))
        ck.count("planned_failure", 1 if case.get("fail") else 0)
        ck.count("pre_sweep_history", 1 if case.get("pre_sweep") else 0)
        names = [m["name"] for g, ms in case["groups"] for m in (ms or [])]
        ck.count("same_name_in_two_groups", 1 if len(names) != len(set(names)) else 0)
        if impl_trace is not None and impl_trace != model_trace:
            ck.disagreement(stream, case, impl_trace, model_trace)
        if "segments" in impl:
            for seg in impl["segments"]:
                if whole_copies(seg, ans["model"]) is None:
                    ck.disagreement(stream, case, seg, ans["model"])
                    break
        if "trace" in impl and not case.get("fail") and not case.get("aliases") and impl["trace"] != ans["spec"] and why is None:
            raise common.InfraError("python predicate and Lean spec disagree — harness bug")
    check_keyed(ck, rng, 40 if ck.tier == "quick" else 500)
    ck.rule = ("pipelines over random subsets of the 10 groups (user order shuffled, null/empty groups, 1-4 models, "
               "enabled flags, argument dicts), 1-4 steps, YAML vs Python construction, debug on/off; plus every ordered "
               "pair of groups populated; keyed: sequential observations over `….enabled` / `….arguments.lvl` keys with falsy values, "
               "readout times replaced after construction (setter / override); non-trivial = at least two enabled models; distinct by canonical JSON")
    ck.assumptions = ["probe `probes.trace` identifies the configured model through an `_id` argument it was configured with",
                      "the debug capture's node names are the scheduler's own view of (group, model)"]
    ck.trusted_base.append("C01: ModelFunction.__call__ → func(detector, **arguments) observed through a probe function")


if __name__ == "__main__":
    if len(sys.argv) > 2 and sys.argv[1] == "--replay":
        common.ensure_repo_on_path()
        rp = json.load(open(sys.argv[2]))
        case = rp["replay"].get("case")
        if case is None:
            print("replay names a broken obligation/correspondence, no concrete input:", rp["what"])
            sys.exit(1)
        if str(case.get("mode", "")).startswith("keyed"):
            impl = run_keyed_impl(case)
            expected = [x for tg, ar in keyed_runs(case) for x in keyed_expected(case, tg, ar)]
            why = None if impl.get("trace") == expected else f"keyed case: observed {impl.get('trace', impl)} expected {expected}"
            print("REPRODUCED: " + why[:600] if why else "not reproduced (property holds on this input)")
            sys.exit(1 if why else 0)
        impl = run_impl(case)
        why = property_predicate(case, impl)
        print("impl:", impl)
        print("REPRODUCED: " + why if why else "not reproduced (property holds on this input)")
        sys.exit(1 if why else 0)
    sys.exit(run_check("C01", body))
