"""C16 — digitised images are bounded, monotone, saturating and never wrap.

obligations: lean/PyxelModel/Props/C16.lean  (all resolutions, ranges, voltages incl. ±inf; any rounding
             with the `IsRounding` laws; `rn53` = binary64 proved to be one)
tie to code : Generated/C16.lean (`get_dtype` evaluated on 0..70) + bit-for-bit differential run of the real
              `simple_adc` / `sar_adc` / `sar_adc_with_noise` on real detectors against the Lean models
              (`q` = ℚ + rn53, `f` = hardware Float) and the statement evaluated directly on the images.
"""

from __future__ import annotations

import json
import math
import sys
import warnings
from fractions import Fraction

import common
from common import LeanDriver, bits_float, float_bits, run_check

INF = float("inf")

# voltage ranges appearing in /repo's tests and examples (source-harvested boundary candidates)
HARVESTED = [(0.0, 10.0), (0.0, 5.0), (0.0, 6.0), (1.0, 7.0), (-1.0, 5.0), (0.0, 15.0), (0.0, 3.3), (-5.0, 5.0)]


# ------------------------------------------------------------------ generators
def ulps(x: float, n: int) -> float:
    for _ in range(abs(n)):
        x = math.nextafter(x, INF if n > 0 else -INF)
    return x


def gen_range(rng):
    k = rng.random()
    if k < 0.25:
        return rng.choice(HARVESTED)
    if k < 0.55:  # decimal, not dyadic: (D*K)/D rounds
        lo = round(rng.uniform(-5, 5), rng.choice([1, 2, 3]))
        return lo, lo + round(rng.uniform(0.05, 12), rng.choice([1, 2, 3]))
    if k < 0.7:  # arbitrary doubles
        lo = rng.uniform(-100, 100)
        return lo, lo + rng.uniform(1e-6, 1000)
    if k < 0.8:  # dyadic
        lo = rng.randrange(-64, 64) / 16
        return lo, lo + rng.randrange(1, 256) / 16
    if k < 0.88:  # tiny width: a few ulps
        lo = rng.uniform(-3, 3)
        return lo, ulps(lo, rng.choice([1, 2, 3, 17]))
    if k < 0.94:  # subnormal neighbourhood
        lo = rng.choice([0.0, -5e-324, 5e-324, 2.2250738585072014e-308])
        return lo, ulps(lo, rng.choice([1, 2, 5, 1000]))
    lo = rng.uniform(-1, 1) * 10 ** rng.randrange(-30, 100)
    return lo, lo + abs(lo) * rng.uniform(0.001, 10) + 10 ** rng.randrange(-30, 100)


def transition(vmin: float, vmax: float, n_full: int, k: int) -> float:
    """the double nearest to the exact voltage at which code k starts"""
    return float(Fraction(vmin) + Fraction(k) * (Fraction(vmax) - Fraction(vmin)) / n_full)


def around(v: float):
    return [ulps(v, -2), ulps(v, -1), v, ulps(v, 1), ulps(v, 2)]


def gen_voltages_simple(rng, bits, vmin, vmax, n):
    n_full = 2**bits - 1
    vs = [vmin, vmax, ulps(vmin, -1), ulps(vmin, 1), ulps(vmax, -1), ulps(vmax, 1), INF, -INF, 0.0, -0.0,
          vmin - 1e30, vmax + 1e30, vmin - abs(vmax - vmin), vmax + abs(vmax - vmin)]
    ks = [1, 2, n_full - 1, n_full // 2, n_full // 2 + 1] + [rng.randrange(0, n_full + 1) for _ in range(6)]
    for k in ks:
        vs += around(transition(vmin, vmax, n_full, max(0, min(n_full, k))))
    while len(vs) < n:
        vs.append(rng.uniform(vmin, vmax) if rng.random() < 0.8 else rng.uniform(vmin - 1, vmax + 1))
    vs = [v for v in vs if not math.isnan(v)]
    rng.shuffle(vs)
    return vs[:n] if len(vs) > n else vs


def gen_voltages_sar(rng, bits, vmax, n):
    vs = [0.0, -0.0, vmax, ulps(vmax, -1), ulps(vmax, 1), vmax / 2, ulps(vmax / 2, -1), INF, -INF, -1.0, vmax * 2, vmax + 1e30, -1e30]
    ks = [1, 2, 3, 2**bits - 1, 2**bits - 2, 2 ** (bits - 1), 2 ** (bits - 1) + 1] + [rng.randrange(0, 2**bits + 1) for _ in range(6)]
    for k in ks:
        vs += around(float(Fraction(vmax) * k / 2**bits))
    while len(vs) < n:
        vs.append(rng.uniform(0, vmax) if rng.random() < 0.85 else rng.uniform(-abs(vmax), 2 * abs(vmax)))
    rng.shuffle(vs)
    return vs[:n] if len(vs) > n else vs


def shape_for(n):
    rows = 4 if n >= 8 else 1
    cols = -(-n // rows)
    return [rows, cols]


def pixel_indices(case):
    """large frames are tiled from a small palette of voltages (`case["vs"]`): palette index of every pixel, row-major"""
    rows, cols = case["shape"]
    t = case["tile"]
    n = len(case["vs"])
    idx = [(i * t["stride"] + t["offset"]) % n for i in range(rows * cols)]
    idx[-1] = t["last"]  # the very last pixel always holds a voltage at/above the range maximum
    idx[-cols] = t["last"]  # … and so does the first pixel of the last row
    idx[cols - 1] = t["last"]  # … and the last pixel of the first row
    return idx


def voltage_bits(case):
    """bit patterns of the voltages of every pixel of the frame, row-major"""
    if "tile" in case:
        return [case["vs"][i] for i in pixel_indices(case)]
    return case["vs"]


def mk_tiled(rng, kind, bits, vmin, vmax, palette, rows, cols, **extra):
    top = INF if kind != "simple" else vmax
    palette = [top] + [v for v in palette if not math.isnan(v)]
    n = len(palette)
    stride = rng.choice([s for s in (1, 3, 5, 7, 11, 13) if math.gcd(s, n) == 1] or [1])
    c = {"kind": kind, "bits": bits, "vmin": float_bits(vmin), "vmax": float_bits(vmax),
         "vs": [float_bits(v) for v in palette], "shape": [rows, cols],
         "tile": {"stride": stride, "offset": rng.randrange(n), "last": 0},
         "_readable": {"vmin": repr(vmin), "vmax": repr(vmax)}}
    c.update(extra)
    return c


def mk_case(kind, bits, vmin, vmax, vs, **extra):
    rows, cols = shape_for(len(vs))
    pad = rows * cols - len(vs)
    vs = list(vs) + [vmin] * pad
    c = {"kind": kind, "bits": bits, "vmin": float_bits(vmin), "vmax": float_bits(vmax),
         "vs": [float_bits(v) for v in vs], "shape": [rows, cols],
         "_readable": {"vmin": repr(vmin), "vmax": repr(vmax)}}
    c.update(extra)
    return c


# ------------------------------------------------------------------ implementation side
def default_width(bits):
    from pyxel.util import get_dtype
    import numpy as np

    return int(np.dtype(get_dtype(bits)).itemsize * 8)


def run_impl(case):
    """run the real converter model on a real detector; → {"codes": [...], "dtype": str} | {"error": kind}"""
    import numpy as np
    import pyx

    kind = case["kind"]
    if kind == "dtype":
        from pyxel.util import get_dtype

        try:
            dt = np.dtype(get_dtype(case["bits"]))
            return {"width": int(dt.itemsize * 8), "unsigned": dt.kind == "u"}
        except ValueError:
            return {"width": None}
        except Exception as e:  # noqa: BLE001
            return {"error": common.err_kind(e), "msg": str(e)[:200]}
    if kind == "history":
        return run_history(case)
    if kind == "sweep":
        return run_sweep(case)
    if kind == "exposure":
        return run_exposure(case)
    vmin, vmax = bits_float(case["vmin"]), bits_float(case["vmax"])
    rows, cols = case["shape"]
    try:
        det = pyx.make_detector("CCD", rows, cols, characteristics={"adc_bit_resolution": case["bits"], "adc_voltage_range": (vmin, vmax)})
        return convert_on(det, case)
    except common.InfraError:
        raise
    except Exception as e:  # noqa: BLE001
        return {"error": common.err_kind(e), "msg": f"{type(e).__name__}: {e}"[:300]}


def convert_on(det, case, detector_kind="CCD"):
    """one conversion of `case`'s frame on the detector object `det` (whatever it held before);
    → {"codes", "dtype", "shape"} (+ "plain" for the noisy SAR) | {"error"}"""
    import numpy as np
    import pyx

    kind = case["kind"]
    vmin, vmax = bits_float(case["vmin"]), bits_float(case["vmax"])
    rows, cols = case["shape"]
    frame = np.array([bits_float(b) for b in voltage_bits(case)], dtype=np.float64).reshape(rows, cols)
    if kind == "simple32":
        frame = frame.astype(np.float32)
    try:
        det.signal.array = frame.copy()
        with warnings.catch_warnings(), np.errstate(all="ignore"):
            warnings.simplefilter("ignore")
            if kind in ("simple", "simple32"):
                from pyxel.models.readout_electronics import simple_adc

                simple_adc(det, data_type=case.get("data_type"))
            elif kind == "sar":
                from pyxel.models.readout_electronics import sar_adc

                sar_adc(det)
            elif kind == "sar_noise":
                from pyxel.models.readout_electronics import sar_adc, sar_adc_with_noise

                strengths = tuple(bits_float(b) for b in case["strengths"])
                sar_adc_with_noise(det, strengths=strengths, noises=tuple(0.0 for _ in strengths))
            else:
                raise common.InfraError("unknown case kind " + kind)
        img = det.image.array
        out = {"codes": [int(x) for x in img.reshape(-1)], "dtype": str(img.dtype), "shape": list(img.shape)}
        if kind == "sar_noise":
            # the statement compares with the plain SAR on the same frame (fresh detector)
            det2 = pyx.make_detector(detector_kind, rows, cols, characteristics={"adc_bit_resolution": case["bits"], "adc_voltage_range": (vmin, vmax)})
            det2.signal.array = frame.copy()
            with warnings.catch_warnings(), np.errstate(all="ignore"):
                warnings.simplefilter("ignore")
                sar_adc(det2)
            out["plain"] = [int(x) for x in det2.image.array.reshape(-1)]
            out["plain_dtype"] = str(det2.image.array.dtype)
        if not np.array_equal(det.signal.array, frame, equal_nan=True):
            out["signal_changed"] = True
        return out
    except common.InfraError:
        raise
    except Exception as e:  # noqa: BLE001
        return {"error": common.err_kind(e), "msg": f"{type(e).__name__}: {e}"[:300]}


REFUSED_BITS = [3, 2, 0, -1, 65, 100]          # outside 4..64: every characteristics class refuses them
REFUSED_RANGE = [[1.0, 2.0, 3.0], [1.0], 5.0]   # not a pair


def attempt_refused(det, r):
    """try to change a converter setting to a value that must be refused; → True when it was refused (raised)"""
    key = "adc_bit_resolution" if r["what"] == "bits" else "adc_voltage_range"
    value = r["value"]
    try:
        if r["via"] == "processor":
            from pyxel.pipelines import DetectionPipeline, Processor

            Processor(detector=det, pipeline=DetectionPipeline()).set("detector.characteristics." + key, value, convert_value=False)
        else:
            setattr(det.characteristics, key, tuple(value) if isinstance(value, list) else value)
    except Exception:  # noqa: BLE001
        return True
    return False


def run_history(case):
    """2–4 conversions on ONE detector object (CCD / CMOS / MKID / APD): settings changed through the public setters
    of `detector.characteristics` (or kept), refused changes attempted in between (setter or Processor.set), the
    image bucket emptied or not; → {"steps": [impl per conversion (+ "refused": [bool …])]}"""
    import pyx

    ops = case["ops"]
    rows, cols = case["shape"]
    first = ops[0]
    try:
        det = pyx.make_detector(case.get("detector", "CCD"), rows, cols, characteristics={
            "adc_bit_resolution": first["bits"], "adc_voltage_range": (bits_float(first["vmin"]), bits_float(first["vmax"]))})
    except Exception as e:  # noqa: BLE001
        return {"error": common.err_kind(e), "msg": f"{type(e).__name__}: {e}"[:300]}
    steps = []
    for op in ops:
        refused = [attempt_refused(det, r) for r in op.get("refused", [])]
        try:
            if not op.get("keep"):  # `keep`: the settings in force stay the last accepted ones, nothing is set again
                det.characteristics.adc_bit_resolution = op["bits"]
                det.characteristics.adc_voltage_range = (bits_float(op["vmin"]), bits_float(op["vmax"]))
            if op.get("empty_before"):
                det.image.empty()
        except Exception as e:  # noqa: BLE001
            steps.append({"error": common.err_kind(e), "msg": f"setting up the conversion: {type(e).__name__}: {e}"[:300], "refused": refused})
            continue
        st = convert_on(det, op, detector_kind=case.get("detector", "CCD"))
        st["refused"] = refused
        steps.append(st)
    return {"steps": steps}


def sweep_pipeline(case):
    import pyx

    conv = {"simple": "simple_adc", "sar": "sar_adc"}[case["conv"]]
    return pyx.make_pipeline({
        "charge_measurement": [{"name": "frame", "func": "probes.c16_signal", "arguments": {"patterns": list(case["vs"]), "shape": list(case["shape"])}}],
        "readout_electronics": [{"name": conv, "func": "pyxel.models.readout_electronics." + conv}]})


def run_sweep(case):
    """the converter run through `pyxel.run_mode` by an Observation sweeping adc_bit_resolution (sequential or dask);
    → {"runs": [impl of the image of each swept resolution, in sweep order]}"""
    import dask
    import numpy as np
    import pyx
    import pyxel
    from pyxel.observation import Observation, ParameterValues

    rows, cols = case["shape"]
    try:
        det = pyx.make_detector(case.get("detector", "CCD"), rows, cols, characteristics={
            "adc_bit_resolution": case["initial_bits"], "adc_voltage_range": (bits_float(case["vmin"]), bits_float(case["vmax"]))})
        obs = Observation(parameters=[ParameterValues(key="detector.characteristics.adc_bit_resolution", values=list(case["bits_list"]))],
                          mode="product", with_dask=case["with_dask"])
        with warnings.catch_warnings(), np.errstate(all="ignore"), dask.config.set(scheduler="synchronous"):
            warnings.simplefilter("ignore")
            dt = pyxel.run_mode(mode=obs, detector=det, pipeline=sweep_pipeline(case))
            image = None
            for node in dt.subtree:
                if "image" in node.data_vars:
                    image = node.to_dataset()["image"].compute()
                    break
        if image is None:
            return {"error": "Other:no-image", "msg": "the result holds no image bucket"}
        pdims = [d for d in image.dims if d not in ("time", "y", "x")]
        if len(pdims) != 1:
            return {"error": "Other:dims", "msg": f"unexpected dimensions {image.dims}"}
        # the coordinate labelling the runs with the swept value
        labels = None
        for c in image.coords.values():
            if tuple(c.dims) == (pdims[0],) and sorted(int(v) for v in np.asarray(c.values).tolist()) == sorted(case["bits_list"]):
                labels = [int(v) for v in np.asarray(c.values).tolist()]
        if labels is None:
            return {"error": "Other:labels", "msg": "no coordinate carries the swept resolutions"}
        runs = []
        for b in case["bits_list"]:
            sl = image.isel({pdims[0]: labels.index(b)})
            if "time" in sl.dims:
                sl = sl.isel(time=-1)
            arr = np.asarray(sl.values)
            runs.append({"codes": [int(x) for x in arr.reshape(-1)], "dtype": str(image.dtype), "shape": list(arr.shape)})
        return {"runs": runs}
    except common.InfraError:
        raise
    except Exception as e:  # noqa: BLE001
        return {"error": common.err_kind(e), "msg": f"{type(e).__name__}: {e}"[:300]}


# ------------------------------------------------------------------ model side
def lean_request(case):
    kind = case["kind"]
    if kind == "dtype":
        return {"op": "dtype", "bits": case["bits"]}
    if kind == "rn":
        return {"op": "rn", "x": case["x"]}
    if kind == "simple":
        return {"op": "simple", "bits": case["bits"], "w": case["w"], "vmin": case["vmin"], "vmax": case["vmax"], "vs": case["vs"]}
    if kind == "sar":
        return {"op": "sar", "bits": case["bits"], "w": case["w"], "vmax": case["vmax"], "vs": case["vs"]}
    if kind == "sar_noise":
        return {"op": "sar_noise", "bits": case["bits"], "w": case["w"], "vmax": case["vmax"], "vs": case["vs"], "draws": case["strengths"]}
    return None


# ------------------------------------------------------------------ the statement, evaluated on the image
def width_of(dtype: str):
    return {"uint8": 8, "uint16": 16, "uint32": 32, "uint64": 64}.get(dtype)


def property_predicate(case, impl):
    """list of (clause, description, indices of the voltages involved); [] = the statement holds"""
    kind = case["kind"]
    out = []
    if kind == "dtype":
        b = case["bits"]
        if "error" in impl:
            return [("dtype", f"get_dtype({b}) raised {impl['error']}", [])]
        if 4 <= b <= 64:
            if impl["width"] is None:
                out.append(("dtype", f"get_dtype({b}) refuses an allowed resolution", []))
            elif not impl["unsigned"] or 2**b - 1 >= 2 ** impl["width"]:
                out.append(("dtype", f"get_dtype({b}) is {'unsigned' if impl['unsigned'] else 'not unsigned'} {impl['width']} bits wide: full scale {2**b-1} does not fit", []))
        return out
    name = {"simple": "simple_adc", "simple32": "simple_adc", "sar": "sar_adc", "sar_noise": "sar_adc_with_noise"}[kind]
    if "error" in impl:
        return [("error", f"{name} raised on an allowed setting: {impl.get('msg', impl['error'])}", [])]
    bits = case["bits"]
    n_full = 2**bits - 1
    vmin, vmax = bits_float(case["vmin"]), bits_float(case["vmax"])
    vs = [bits_float(b) for b in voltage_bits(case)]
    codes = impl["codes"]
    if len(codes) != len(vs) or impl["shape"] != case["shape"]:
        return [("shape", f"image shape {impl['shape']} differs from the signal frame's {case['shape']}", [])]
    w = width_of(impl["dtype"])
    if w is None or n_full >= 2**w:
        out.append(("dtype", f"image stored as {impl['dtype']}: not an unsigned type wide enough for full scale 2^{bits}-1", []))
    if impl.get("signal_changed"):
        out.append(("signal", "the converter changed the signal bucket", []))
    strengths_zero = kind != "sar_noise" or all(bits_float(b) == 0.0 for b in case["strengths"])
    bad_bound = [i for i, c in enumerate(codes) if not (0 <= c <= n_full)]
    if bad_bound:
        i = bad_bound[0]
        out.append(("bound", f"voltage {vs[i]!r} → code {codes[i]} outside 0..2^{bits}-1 (range [{vmin!r}, {vmax!r}])", [i]))
    if kind in ("simple", "simple32"):
        lo = [i for i, v in enumerate(vs) if v <= vmin and codes[i] != 0]
        if lo:
            i = lo[0]
            out.append(("floor", f"voltage {vs[i]!r} ≤ range minimum {vmin!r} → code {codes[i]}, not 0 ({bits} bits)", [i]))
        hi = [i for i, v in enumerate(vs) if v >= vmax and codes[i] != n_full]
        if hi:
            i = hi[0]
            out.append(("ceil", f"voltage {vs[i]!r} ≥ range maximum {vmax!r} → code {codes[i]}, not full scale {n_full} ({bits} bits)", [i]))
    if strengths_zero:  # with non-zero reference offsets the noisy SAR is a different (still bounded) converter
        order = sorted(range(len(vs)), key=lambda i: vs[i])
        for a, b in zip(order, order[1:]):
            if codes[a] > codes[b] and vs[a] <= vs[b]:
                out.append(("mono", f"voltage {vs[a]!r} → {codes[a]} but higher voltage {vs[b]!r} → {codes[b]} ({bits} bits, range [{vmin!r}, {vmax!r}])", [a, b]))
                break
    if kind == "sar_noise" and strengths_zero:
        if impl.get("plain_dtype") != impl["dtype"]:
            out.append(("noise0", f"zero-noise SAR image is {impl['dtype']}, plain SAR image is {impl.get('plain_dtype')}", []))
        diff = [i for i, (a, b) in enumerate(zip(codes, impl["plain"])) if a != b]
        if diff:
            i = diff[0]
            out.append(("noise0", f"zero-noise SAR gives {codes[i]} but plain SAR gives {impl['plain'][i]} for voltage {vs[i]!r} ({bits} bits)", [i]))
    return out


def reduce_case(case, idx):
    """smaller case with only the voltages involved (kept only if it still fails)"""
    if not idx:
        return None
    c = dict(case)
    full = voltage_bits(case)
    c["vs"] = [full[i] for i in idx]
    c.pop("tile", None)
    c["shape"] = [1, len(idx)]
    return c


def report(ck, case, impl, findings, extra=None):
    name = {"simple": "simple_adc", "simple32": "simple_adc", "sar": "sar_adc", "sar_noise": "sar_adc_with_noise", "dtype": "get_dtype"}[case["kind"]]
    for clause, why, idx in findings:
        rc, rimpl = case, impl
        small = reduce_case(case, idx)
        if small is not None:
            simpl = run_impl(small)
            if any(cl == clause for cl, _, _ in property_predicate(small, simpl)):
                rc, rimpl = small, simpl
        replay = {"case": rc, "impl": rimpl}
        if extra:
            replay.update(extra)
        ck.violation(f"C16:{name}:{clause}", why, replay)


def op_name(op):
    return {"simple": "simple_adc", "sar": "sar_adc", "sar_noise": "sar_adc_with_noise"}[op["kind"]]


def unjudged_ops(case, impl):
    """conversions made while a change that should have been refused was ACCEPTED instead (the setting in force is
    then not an allowed one: that is C12's subject, and nothing can be asked of the conversion)"""
    out, tainted = set(), False
    for k, (op, st) in enumerate(zip(case["ops"], impl.get("steps", []))):
        if op.get("keep"):
            tainted = tainted or not all(st.get("refused", []))
        else:
            tainted = False  # bits and range are set again after the attempts
        if tainted:
            out.add(k)
    return out


def describe_op(o):
    ref = "".join(f", refused {r['what']}={r['value']!r} via {r['via']}" for r in o.get("refused", []))
    return (f"{op_name(o)}[{o['bits']} bit{', data_type=' + o['data_type'] if o.get('data_type') else ''}"
            f"{', image emptied' if o.get('empty_before') else ''}{', settings kept' if o.get('keep') else ''}{ref}]")


def history_findings(case, impl):
    """every conversion of a history judged on its own against the statement: [(k, clause, why)]"""
    if "error" in impl:
        return [(0, "error", f"could not build the detector: {impl.get('msg', impl['error'])}")]
    out = []
    skip = unjudged_ops(case, impl)
    for k, (op, st) in enumerate(zip(case["ops"], impl["steps"])):
        if op.get("narrow") or k in skip:
            continue  # an explicit data_type narrower than get_dtype(bits) is outside the statement
        for clause, why, _ in property_predicate(op, st):
            hist = " → ".join(describe_op(o) for o in case["ops"][: k + 1])
            out.append((k, clause, f"conversion {k} of the history {hist} on one {case.get('detector', 'CCD')} detector: {why}"))
    return out


def run_exposure(case):
    """the converter run through `pyxel.run_mode` by an Exposure with several readout times;
    → {"runs": [impl of the image RETURNED for every readout time]}"""
    import numpy as np
    import pyx
    import pyxel

    rows, cols = case["shape"]
    try:
        det = pyx.make_detector(case.get("detector", "CCD"), rows, cols, characteristics={
            "adc_bit_resolution": case["bits"], "adc_voltage_range": (bits_float(case["vmin"]), bits_float(case["vmax"]))})
        mode = pyx.make_exposure(times=[float(t) for t in case["times"]], non_destructive=bool(case.get("non_destructive")))
        with warnings.catch_warnings(), np.errstate(all="ignore"):
            warnings.simplefilter("ignore")
            dt = pyxel.run_mode(mode=mode, detector=det, pipeline=sweep_pipeline(case))
            image = None
            for node in dt.subtree:
                if "image" in node.data_vars:
                    image = node.to_dataset()["image"].compute()
                    break
        if image is None:
            return {"error": "Other:no-image", "msg": "the result holds no image bucket"}
        if "time" not in image.dims or image.sizes["time"] != len(case["times"]):
            return {"error": "Other:dims", "msg": f"unexpected dimensions {dict(image.sizes)}"}
        runs = []
        for k in range(len(case["times"])):
            arr = np.asarray(image.isel(time=k).values)
            runs.append({"codes": [int(x) for x in arr.reshape(-1)], "dtype": str(image.dtype), "shape": list(arr.shape)})
        last = det.image.array
        return {"runs": runs, "detector_image": [int(x) for x in last.reshape(-1)], "detector_dtype": str(last.dtype)}
    except common.InfraError:
        raise
    except Exception as e:  # noqa: BLE001
        return {"error": common.err_kind(e), "msg": f"{type(e).__name__}: {e}"[:300]}


def exposure_runs(case):
    sub = {"kind": case["conv"], "bits": case["bits"], "vmin": case["vmin"], "vmax": case["vmax"], "vs": case["vs"],
           "shape": case["shape"], "w": None}
    if case["conv"] == "simple":
        sub["data_type"] = None
    return [dict(sub) for _ in case["times"]]


def exposure_findings(case, impl):
    if "error" in impl:
        return [(0, "error", f"exposure with readout times {case['times']} at {case['bits']} bit failed: {impl.get('msg', impl['error'])}")]
    out = []
    for k, (sub, st) in enumerate(zip(case["_runs"], impl["runs"])):
        for clause, why, _ in property_predicate(sub, st):
            out.append((k, clause, f"exposure with readout times {case['times']} ({op_name(sub)}, {case['bits']} bit, {case.get('detector', 'CCD')}), "
                                   f"image returned for readout {k}: {why}"))
    return out


def gen_exposure(rng, bits):
    conv = rng.choice(["simple", "simple", "sar"])
    vmin, vmax = rng.choice(HARVESTED)
    if conv == "sar":
        vmin, vmax = 0.0, abs(vmax)
    vs = [vmax, ulps(vmax, 1), vmax * 2 + 1, vmin, vmin - 1.0, ulps(vmax, -1)] + [rng.uniform(vmin, vmax) for _ in range(6)]
    rng.shuffle(vs)
    return {"kind": "exposure", "conv": conv, "bits": bits, "times": list(range(1, rng.choice([2, 3, 4]) + 1)),
            "non_destructive": rng.random() < 0.3, "vmin": float_bits(vmin), "vmax": float_bits(vmax),
            "vs": [float_bits(v) for v in vs], "shape": [3, 4], "detector": rng.choice(["CCD", "CCD", "CMOS", "MKID", "APD"])}


def sweep_runs(case):
    """the single conversions a resolution sweep consists of (one per swept value, same frame and range)"""
    runs = []
    for b in case["bits_list"]:
        sub = {"kind": case["conv"], "bits": b, "vmin": case["vmin"], "vmax": case["vmax"], "vs": case["vs"],
               "shape": case["shape"], "w": None}
        if case["conv"] == "simple":
            sub["data_type"] = None
        runs.append(sub)
    return runs


def sweep_findings(case, impl):
    if "error" in impl:
        return [(0, "error", f"observation sweeping adc_bit_resolution over {case['bits_list']} failed: {impl.get('msg', impl['error'])}")]
    out = []
    how = "dask" if case["with_dask"] else "sequential"
    for k, (sub, st) in enumerate(zip(case["_runs"], impl["runs"])):
        for clause, why, _ in property_predicate(sub, st):
            out.append((k, clause, f"{how} observation sweeping adc_bit_resolution over {case['bits_list']} ({op_name(sub)}, "
                                   f"{case.get('detector', 'CCD')}), image returned for {sub['bits']} bit: {why}"))
    return out


def gen_sweep(rng, with_dask, order):
    pool = [4, 8, 9, 12, 16, 17, 24, 32, 33, 40]
    n = rng.choice([2, 3, 3, 4])
    bl = sorted(rng.sample(pool, n))
    if bl[0] > 8 and rng.random() < 0.6:
        bl[0] = rng.choice([4, 6, 8])  # the narrowest type first / last
    if rng.random() < 0.35:
        bl[-1] = rng.choice([54, 60, 64])  # codes that a float cannot hold
    if order == "decreasing":
        bl = bl[::-1]
    elif order == "mixed":
        while n > 2 and (bl == sorted(bl) or bl == sorted(bl, reverse=True)):
            rng.shuffle(bl)
    conv = rng.choice(["simple", "simple", "sar"])
    vmin, vmax = rng.choice(HARVESTED + [(0.0, 10.0)])
    if conv == "sar":
        vmin, vmax = 0.0, abs(vmax)
    vs = [vmax, ulps(vmax, 1), vmax * 2 + 1, vmin, vmin - 1.0, ulps(vmax, -1)] + [rng.uniform(vmin, vmax) for _ in range(6)]
    rng.shuffle(vs)
    return {"kind": "sweep", "conv": conv, "bits_list": bl, "order": order, "with_dask": with_dask, "initial_bits": rng.choice([16, 8, 32]),
            "vmin": float_bits(vmin), "vmax": float_bits(vmax), "vs": [float_bits(v) for v in vs], "shape": [3, 4],
            "detector": rng.choice(["CCD", "CCD", "CMOS", "MKID", "APD"])}


def gen_history(rng, nv=16):
    n = rng.choice([2, 2, 3, 4])
    ops = []
    # resolutions chosen so that consecutive conversions often cross a type boundary, in both directions
    pool = [4, 8, 9, 12, 16, 17, 24, 32, 33, 48, 64]
    detector = rng.choice(["CCD", "CCD", "CMOS", "MKID", "APD", "APD"])
    with_refusals = rng.random() < 0.5
    for k in range(n):
        refused, keep = [], False
        if with_refusals and rng.random() < 0.7:
            for _ in range(rng.choice([1, 1, 2])):
                if rng.random() < 0.75:
                    refused.append({"what": "bits", "value": rng.choice(REFUSED_BITS), "via": rng.choice(["setter", "setter", "processor"])})
                else:
                    refused.append({"what": "range", "value": rng.choice(REFUSED_RANGE), "via": "setter"})
            keep = rng.random() < 0.75  # the setting in force stays the last accepted one: nothing is set again
        bits = rng.choice(pool) if rng.random() < 0.8 else rng.randrange(4, 65)
        vmin, vmax = gen_range(rng)
        while not (vmin < vmax) or math.isinf(vmax - vmin):
            vmin, vmax = gen_range(rng)
        kind = rng.choice(["simple", "simple", "simple", "sar", "sar_noise"])
        if keep and k > 0:
            prev = ops[-1]
            bits, vmin, vmax = prev["bits"], bits_float(prev["vmin"]), bits_float(prev["vmax"])
        extra = {"w": None}
        if kind == "simple":
            r = rng.random()
            dt = None
            if r < 0.35:
                dt = rng.choice(["uint8", "uint16", "uint32", "uint64"])
            extra["data_type"] = dt
            if dt is not None:
                extra["w"] = width_of(dt)
            vs = gen_voltages_simple(rng, bits, vmin, vmax, nv)
        else:
            if rng.random() < 0.7 and not (keep and k > 0):
                vmin, vmax = 0.0, abs(vmax) if vmax != 0 else 1.0
            vs = gen_voltages_sar(rng, bits, vmax, nv)
            if kind == "sar_noise":
                extra["strengths"] = [float_bits(0.0)] * bits
        vs = (vs + [vmin] * nv)[:nv]
        # the statement's extremes are always present
        vs[0], vs[1] = (vmax, ulps(vmax, 1)) if kind == "simple" else (vmax * 2 if vmax > 0 else 1.0, INF)
        op = mk_case(kind, bits, vmin, vmax, vs, **extra)
        op["empty_before"] = k > 0 and rng.random() < 0.3
        op["refused"], op["keep"] = refused, keep
        ops.append(op)
    return {"kind": "history", "shape": ops[0]["shape"], "ops": ops, "detector": detector}


# ------------------------------------------------------------------ the check
def pick_bits(rng, i):
    return 4 + i % 61


def body(ck: common.Check):
    import extract

    extract.generate("C16")
    ck.obligations(["PyxelModel.Props.C16"], ["PyxelModel.Drive.C16"])
    rng = ck.rng
    quick = ck.tier == "quick"
    cases = []
    # complete table
    for b in range(0, 71):
        cases.append({"kind": "dtype", "bits": b})
    # rn53 is binary64 rounding (trusted-base item made testable): random rationals vs CPython's correctly rounded int/int
    for _ in range(300 if quick else 5000):
        k = rng.randrange(4)
        if k == 0:
            x = Fraction(rng.randrange(-10**9, 10**9), rng.randrange(1, 10**9))
        elif k == 1:
            x = Fraction(rng.randrange(1, 2**70), 2 ** rng.randrange(0, 1150)) * rng.choice([1, -1])
        elif k == 2:
            x = Fraction(rng.randrange(1, 2**55), 2 ** rng.randrange(1060, 1080))
        else:
            x = Fraction(bits_float(rng.randrange(0, 0x7FD0000000000000))) * Fraction(rng.randrange(1, 1000), rng.randrange(1, 1000))
        try:
            f = float(x)
        except OverflowError:
            continue
        if math.isinf(f):
            continue
        cases.append({"kind": "rn", "x": [x.numerator, x.denominator], "expect": common.frac(f)})
    rounds = 3 if quick else 30
    nv = 64 if quick else 128
    for r in range(rounds):
        for i in range(61):
            bits = pick_bits(rng, i)
            vmin, vmax = gen_range(rng)
            if not (vmin < vmax) or math.isinf(vmax - vmin):
                continue
            dt = None
            w = None
            if rng.random() < 0.15:  # explicit data_type at least as wide as the default one
                dt = rng.choice([d for d in ("uint8", "uint16", "uint32", "uint64") if width_of(d) >= bits])
                w = width_of(dt)
            cases.append(mk_case("simple", bits, vmin, vmax, gen_voltages_simple(rng, bits, vmin, vmax, nv), data_type=dt, w=w))
    for r in range(max(1, rounds * 2 // 3)):
        for i in range(61):
            bits = pick_bits(rng, i)
            vmin, vmax = gen_range(rng)
            if not (vmin < vmax):
                continue
            if rng.random() < 0.7:
                vmin, vmax = 0.0, abs(vmax) if vmax != 0 else 1.0
            cases.append(mk_case("sar", bits, vmin, vmax, gen_voltages_sar(rng, bits, vmax, nv), w=None))
            zero = rng.random() < 0.6
            st = [0.0] * bits if zero else [rng.choice([0.0, 0.0, 0.0, vmax / 2**j * rng.choice([0.01, -0.02, 0.25]) if j < 40 else 0.0]) for j in range(bits)]
            vs = [v for v in gen_voltages_sar(rng, bits, vmax, nv)]
            cases.append(mk_case("sar_noise", bits, vmin, vmax, vs, w=None, strengths=[float_bits(s) for s in st]))
    # float32 frames (allowed by the Signal container): statement only, no model
    for i in range(30 if quick else 300):
        bits = pick_bits(rng, rng.randrange(61))
        lo = rng.randrange(-64, 64) / 16
        hi = lo + rng.randrange(1, 256) / 16
        import numpy as np

        vs = [float(np.float32(v)) for v in gen_voltages_simple(rng, bits, lo, hi, 32) if abs(v) < 1e30 or math.isinf(v)]
        cases.append(mk_case("simple32", bits, lo, hi, vs, data_type=None, w=None))
    # exhaustive: every code transition ±1 ulp for resolutions ≤ 12 bits (thorough), ≤ 7 bits (quick)
    for bits in range(4, 8 if quick else 13):
        for vmin, vmax in ([rng.choice(HARVESTED), gen_range(rng)] if quick else HARVESTED[:4] + [gen_range(rng) for _ in range(4)]):
            if not (vmin < vmax) or math.isinf(vmax - vmin):
                continue
            n_full = 2**bits - 1
            vs = []
            for k in range(n_full + 1):
                t = transition(vmin, vmax, n_full, k)
                vs += [ulps(t, -1), t, ulps(t, 1)]
            cases.append(mk_case("simple", bits, vmin, vmax, vs, data_type=None, w=None, exhaustive=True))
    # tall and wide frames (block-wise / chunked conversions must cover every row and column): tiled from a small palette
    dims = [1023, 1024, 1025, 1100, 2049, 2500]
    combos = []
    for d in dims:
        for kind in ("simple", "sar", "sar_noise"):
            for tall in (True, False):
                combos.append((d, kind, tall))
    if quick:  # every dimension × every converter tall, plus simple_adc wide
        combos = [cb for cb in combos if cb[2] or cb[1] == "simple"]
    for d, kind, tall in combos:
        small = rng.choice([1, 2, 3, 4])
        rows, cols = (d, small) if tall else (small, d)
        bits = rng.choice([4, 8, 12, 16, 24, 32, 53, 54, 64])
        vmin, vmax = gen_range(rng)
        while not (vmin < vmax) or math.isinf(vmax - vmin):
            vmin, vmax = gen_range(rng)
        extra = {"w": None}
        if kind == "simple":
            extra["data_type"] = None
            pal = gen_voltages_simple(rng, bits, vmin, vmax, 31)
        else:
            vmin, vmax = 0.0, abs(vmax) if vmax != 0 else 1.0
            pal = gen_voltages_sar(rng, bits, vmax, 31)
            if kind == "sar_noise":
                extra["strengths"] = [float_bits(0.0)] * bits
        cases.append(mk_tiled(rng, kind, bits, vmin, vmax, pal, rows, cols, **extra))
    # conversion histories on one detector object (the model is functional: every conversion is a function of the
    # signal frame and the settings only, whatever the image bucket held before)
    for _ in range(60 if quick else 600):
        cases.append(gen_history(rng))
    # the converters reached through pyxel.run_mode: observations sweeping adc_bit_resolution, sequential and dask,
    # resolutions in increasing / decreasing / mixed order; the image RETURNED for every swept value is judged
    for order in ("increasing", "decreasing", "mixed"):
        for with_dask in (False, True):
            for _ in range(1 if quick else 6):
                sw = gen_sweep(rng, with_dask, order)
                sw["_runs"] = sweep_runs(sw)
                cases.append(sw)
    # … and multi-readout EXPOSURES, wide converters included: the image returned for every readout time is judged
    for bits in ([54, 60, 63, 64, 8, 33] if quick else [54, 55, 57, 60, 62, 63, 64, 53, 8, 12, 16, 24, 32, 33, 48] * 2):
        ex = gen_exposure(rng, bits)
        ex["_runs"] = exposure_runs(ex)
        cases.append(ex)
    # default widths come from the implementation's own get_dtype (the table theorem ties it to the model)
    singles = []
    for c in cases:
        singles += c["ops"] if c["kind"] == "history" else c["_runs"] if c["kind"] in ("sweep", "exposure") else [c]
    for c in singles:
        if c["kind"] in ("simple", "sar", "sar_noise"):
            if c.get("w") is None:
                c["w"] = default_width(c["bits"])
            c["narrow"] = c["w"] < default_width(c["bits"])
    with_model = [c for c in singles if lean_request(c) is not None]
    answers = dict(zip((id(c) for c in with_model), LeanDriver("C16").batch([lean_request(c) for c in with_model])))
    for case in cases:
        ans = answers.get(id(case))
        if ans is not None and "bad" in ans:
            raise common.InfraError(f"driver rejected request: {ans} for {json.dumps(case)[:300]}")
        kind = case["kind"]
        if kind == "rn":
            ck.case({"kind": "rn", "x": case["x"]}, nontrivial=True, stream="rn53")
            if ans["rn"] != case["expect"]:
                ck.disagreement("rn53", case, case["expect"], ans["rn"])
            continue
        impl = run_impl(case)
        if kind == "exposure":
            pub = {k: v for k, v in case.items() if k != "_runs"}
            ck.case(pub, nontrivial=True, stream="exposure")
            ck.count(f"exposure-readouts={len(case['times'])}")
            ck.count(f"exposure-bits={case['bits']}")
            for k, clause, why in exposure_findings(case, impl):
                ck.violation(f"C16:exposure:{op_name(case['_runs'][k])}:{clause}", why, {"case": pub, "impl": impl})
            for k, (sub, st) in enumerate(zip(case["_runs"], impl.get("runs", []))):
                a = answers[id(sub)]
                if "bad" in a:
                    raise common.InfraError(f"driver rejected request: {a}")
                if st.get("codes") != a["f"]:
                    ck.disagreement("exposure", {"exposure": pub, "readout": k}, st, {"codes": a["f"]})
                    ck.count("disagree")
            if "error" in impl:
                ck.disagreement("exposure", pub, impl, None)
            continue
        if kind == "sweep":
            pub = {k: v for k, v in case.items() if k != "_runs"}
            ck.case(pub, nontrivial=True, stream="sweep")
            ck.count(f"sweep-{'dask' if case['with_dask'] else 'sequential'}-{case['order']}")
            for k, clause, why in sweep_findings(case, impl):
                ck.violation(f"C16:sweep-{'dask' if case['with_dask'] else 'sequential'}:{op_name(case['_runs'][k])}:{clause}", why,
                             {"case": pub, "impl": impl})
            for k, (sub, st) in enumerate(zip(case["_runs"], impl.get("runs", []))):
                a = answers[id(sub)]
                if "bad" in a:
                    raise common.InfraError(f"driver rejected request: {a}")
                if st.get("codes") != a["f"]:
                    ck.disagreement("sweep", {"sweep": pub, "run": k}, st, {"codes": a["f"]})
                    ck.count("disagree")
            if "error" in impl:
                ck.disagreement("sweep", pub, impl, None)
            continue
        if kind == "history":
            ck.case(case, nontrivial=True, stream="history")
            ck.count(f"history-detector={case.get('detector', 'CCD')}")
            nref = [r for st in impl.get("steps", []) for r in st.get("refused", [])]
            ck.count("history-refused-changes", len(nref))
            ck.count("history-refusal-not-refused", sum(1 for r in nref if not r))
            skip_ops = unjudged_ops(case, impl)
            ck.count(f"history-length={len(case['ops'])}")
            widths = [op["w"] for op in case["ops"]]
            ck.count("history-widening", sum(1 for a, b in zip(widths, widths[1:]) if b > a))
            ck.count("history-narrowing", sum(1 for a, b in zip(widths, widths[1:]) if b < a))
            ck.count("history-emptied-between", sum(1 for op in case["ops"] if op.get("empty_before")))
            for k, clause, why in history_findings(case, impl):
                # smallest history that still shows it: drop the conversions after the failing one
                small = {"kind": "history", "shape": case["shape"], "ops": case["ops"][: k + 1], "detector": case.get("detector", "CCD")}
                simpl = run_impl(small)
                ok = any(kk == k and cl == clause for kk, cl, _ in history_findings(small, simpl))
                ck.violation(f"C16:history:{op_name(case['ops'][k])}:{clause}", why,
                             {"case": small if ok else case, "impl": simpl if ok else impl})
            for k, (op, st) in enumerate(zip(case["ops"], impl.get("steps", []))):
                if k in skip_ops:
                    continue
                a = answers[id(op)]
                if "bad" in a:
                    raise common.InfraError(f"driver rejected request: {a}")
                f = a["f"]
                q = [y if x == "inf" else x for x, y in zip(a["q"], f)]
                if q != f:
                    raise common.InfraError(f"Lean models disagree with each other on {json.dumps(op)[:400]}")
                if st.get("codes") != f or ("dtype" in st and width_of(st["dtype"]) != op["w"]):
                    ck.disagreement("history", {"history": case, "conversion": k}, st, {"codes": f, "width": op["w"]})
                    ck.count("disagree")
            continue
        stream = kind + ("-exhaustive" if case.get("exhaustive") else "")
        if kind == "dtype":
            ck.case(case, nontrivial=1 <= case["bits"] <= 64, stream="dtype")
            findings = property_predicate(case, impl)
            report(ck, case, impl, findings)
            if "error" not in impl and not (impl["width"] == ans["model"] == ans["table"]):
                ck.disagreement("dtype", case, impl, ans)
            continue
        ck.case(case, nontrivial=True, stream=stream)
        ck.count(f"bits={case['bits']:02d}")
        ck.count("voltages", len(case["vs"]))
        findings = property_predicate(case, impl)
        ck.count("impl_error" if "error" in impl else "impl_ok")
        if kind == "simple32":
            report(ck, case, impl, findings)
            continue
        q, f = ans["q"], ans["f"]
        q = [b if a == "inf" else a for a, b in zip(q, f)]  # noisy-SAR ℚ model is stated for finite voltages
        if q != f:
            raise common.InfraError(f"Lean models disagree with each other (ℚ/rn53 vs Float) on {json.dumps(case)[:400]}")
        which = None
        if "tile" in case:  # the model answered for the palette: one code per pixel through the tiling
            idx = pixel_indices(case)
            f = [f[i] for i in idx]
            if "f_asis" in ans:
                ans = dict(ans, f_asis=[ans["f_asis"][i] for i in idx])
            ck.count(f"large-frame={case['shape'][0]}x{case['shape'][1]}")
        if "codes" in impl and impl["codes"] != f:
            asis = ans.get("f_asis")
            which = "implementation equals the pinned tree's algorithm (…AsIs model)" if asis == impl["codes"] else "implementation matches neither model"
            first = next((i for i, (a, b) in enumerate(zip(impl["codes"], f)) if a != b), None)
            if "tile" in case:
                ck.disagreement(stream, case, {"first_differing_pixel": first, "impl_code": impl["codes"][first] if first is not None else None},
                                {"model_code": f[first] if first is not None else None}, key=None)
            else:
                ck.disagreement(stream, case, impl["codes"], f, key=None)
            ck.count("disagree")
        elif "error" in impl:
            ck.disagreement(stream, case, impl, f)
        report(ck, case, impl, findings, {"model": f, "note": which} if which else None)
        ck.count("castUB_in_model", sum(1 for x in f if x == "castUB"))
    ck.rule = ("every resolution 4..64 (each at least %d×) × voltage ranges (harvested from the tests, decimal, arbitrary, dyadic, "
               "few-ulp wide, subnormal, 1e-30..1e100) × frames holding vmin/vmax ±1 ulp, ±inf, ±0, far outside, random interior "
               "and code-transition voltages ±2 ulp (exact rational transition rounded to double); default and explicit wide "
               "data_type; SAR: transition multiples of vmax/2^bits ±2 ulp; noisy SAR with zero strengths/noise (statement) and "
               "with non-zero strengths, zero noise (correspondence only); float32 frames (statement only); all transitions "
               "±1 ulp exhaustively for ≤ %d bits; get_dtype on 0..70; rn53 vs CPython correctly-rounded division; "
               "tall and wide frames (1023, 1024, 1025, 1100, 2049, 2500 rows or columns × 1–4, tiled from a 32-voltage palette, "
               "range maximum in the last row/column) for all three converters, every pixel judged; "
               "HISTORIES of 2–4 conversions on one detector object mixing simple_adc / sar_adc / sar_adc_with_noise(0), with "
               "adc_bit_resolution / adc_voltage_range / data_type changed through the public setters between them (widening "
               "and narrowing across the 8/16/32/64-bit type boundaries), image bucket emptied or not in between, every "
               "conversion judged against the statement and against the model of that single conversion; histories run on CCD / CMOS / "
               "MKID / APD detectors and contain REFUSED changes of a converter setting (adc_bit_resolution 3, 2, 0, -1, 65, 100; "
               "malformed adc_voltage_range; through the setter or Processor.set) followed by a conversion with the settings left as they "
               "were: the setting in force is the last accepted one; OBSERVATIONS through pyxel.run_mode sweeping adc_bit_resolution "
               "(increasing / decreasing / mixed order, sequential and dask), the image returned for every swept value judged; EXPOSURES with 2–4 "
               "readout times (destructive and not) at 8…64 bit, wide converters (54–64 bit) included, the image returned for every readout judged. "
               "non-trivial = every converter case; distinct by canonical JSON") % (rounds, 7 if quick else 12)
    ck.assumptions = [
        "allowed converter setting = 4 ≤ bits ≤ 64, finite doubles vmin < vmax whose difference does not overflow; NaN voltages are outside the statement",
        "signal frames are float64 (what every pyxel model produces); float32 frames are checked against the statement only, not the model",
        "an explicit data_type narrower than get_dtype(bits) is the user's choice and outside the statement",
        "'zero noise' of the noisy SAR = strengths and noises all 0.0; np.random.normal(loc, 0.0) returns loc exactly (exercised on every case)",
        "comparison is bit-for-bit (integer codes, dtype, shape); no tolerance",
        "the statement is read per conversion: the image after a conversion depends on the signal frame and the converter settings of that "
        "conversion only, not on what the detector's image bucket held before (Props: simpleAdc_store_history_independent); in a history a "
        "conversion with an explicit narrower data_type is compared with the model only",
    ]
    ck.trusted_base.append("C16: rn53 (ℚ model, proved an IsRounding) equals IEEE-754 binary64 round-to-nearest-even for + − × ÷ without overflow — checked against CPython on every run (stream rn53) and against Lean's hardware Float on every converter case")
    ck.trusted_base.append("C16: numpy semantics modelled: np.clip = min(max(v, lo), hi); ndarray * python-int converts the int to the nearest double; float→uint cast defined only in range (castUB otherwise); uint accumulate is modular; boolean-mask += ")


def replay_main(path):
    common.ensure_repo_on_path()
    rp = json.load(open(path))
    case = rp["replay"].get("case")
    if case is None:
        print("replay names a broken obligation/correspondence, no concrete input:", rp["what"])
        return 1
    impl = run_impl(case)
    if case.get("kind") == "history":
        for op in case["ops"]:
            op.setdefault("w", default_width(op["bits"]))
        findings = [(clause, why, None) for _, clause, why in history_findings(case, impl)]
    elif case.get("kind") == "exposure":
        case["_runs"] = exposure_runs(case)
        for sub in case["_runs"]:
            sub["w"] = default_width(sub["bits"])
        findings = [(clause, why, None) for _, clause, why in exposure_findings(case, impl)]
    elif case.get("kind") == "sweep":
        case["_runs"] = sweep_runs(case)
        for sub in case["_runs"]:
            sub["w"] = default_width(sub["bits"])
        findings = [(clause, why, None) for _, clause, why in sweep_findings(case, impl)]
    else:
        findings = property_predicate(case, impl)
    print("impl:", json.dumps(impl)[:2000])
    if findings:
        for clause, why, _ in findings:
            print(f"REPRODUCED: [{clause}] {why}")
        return 1
    print("not reproduced (property holds on this input)")
    return 0


if __name__ == "__main__":
    if len(sys.argv) > 2 and sys.argv[1] == "--replay":
        sys.exit(replay_main(sys.argv[2]))
    sys.exit(run_check("C16", body))
