"""C10 — calibration candidates map to the right parameters, inside their bounds.

obligations: lean/PyxelModel/Props/C10.lean (all variable lists, all decision vectors)
tie to code : differential run of the real `ModelFittingDataTree` (`_set_bound` via get_bounds,
              `convert_to_parameters` 1-D and 2-D, `update_processor`, `fitness` observed through a
              probe model) and of full tiny calibrations (sade / sga / nlopt) against the Lean model;
              the statement itself is re-evaluated in Python on everything the implementation returns.
"""

from __future__ import annotations

import json
import shutil
import sys
import tempfile
from fractions import Fraction

import common
from common import LeanDriver, run_check

GROUP = "charge_collection"
# the calibrated model carries the default name of its function (what a YAML file without `name:` customisation has)
MODEL = "cal_probe_det"
ROWS, COLS = 4, 5
TOL = 1e-11  # relative tolerance on components of logarithmic variables (10**log10(b) is not exact in binary64)


# ------------------------------------------------------------------ generator
def dyadic(rng, lo=-8, hi=8):
    return rng.randrange(lo * 8, hi * 8 + 1) / 8.0


def gen_var(rng, j, exact, allow_bad=False):
    """one calibrated variable: {key, values, log, bounds, [bad]}"""
    vec = rng.random() < 0.55
    width = rng.choice([1, 2, 2, 3, 4]) if vec else None
    log = rng.random() < 0.45
    per_comp = vec and rng.random() < 0.5
    n = width if vec else 1

    def pair():
        if log:
            if exact:
                e_lo = rng.randrange(-3, 5)
                e_hi = e_lo + rng.randrange(1, 4)
                return [10.0 ** e_lo if e_lo >= 0 else float(Fraction(1, 10 ** -e_lo)), 10.0 ** e_hi if e_hi >= 0 else float(Fraction(1, 10 ** -e_hi))]
            lo = rng.choice([1e-3, 0.02, 0.5, 1.0, 3.0, 47.0]) * (1 + rng.random())
            return [lo, lo * (1.5 + 100 * rng.random())]
        if exact:
            lo = dyadic(rng)
            return [lo, lo + rng.randrange(1, 64) / 8.0]
        lo = rng.uniform(-50, 50)
        return [lo, lo + rng.uniform(0.01, 30)]

    bounds = [pair() for _ in range(n)] if per_comp else pair()
    v = {"key": f"p{j}", "values": ["_"] * width if vec else "_", "log": log, "bounds": bounds}
    if vec and rng.random() < 0.4:
        v["as_tuple"] = True  # declared through the Python API as a tuple of placeholders
    if not vec:
        r = rng.random()
        if r < 0.4:
            v["default"] = rng.choice([0, 1, 10])  # the argument's configured value is an int literal (`gain: 1`)
        elif r < 0.55 and not allow_bad:
            # a detector field as calibration target: float-valued (temperature) or int-valued (full well capacity)
            name, lo0, hi0 = rng.choice([("temperature", 100, 300), ("fwc", 1000, 5000)])
            lo = (lo0 + rng.randrange(0, 8 * (hi0 - lo0) // 2) / 8.0) if exact else rng.uniform(lo0, (lo0 + hi0) / 2)
            hi = (lo + rng.randrange(1, 8 * (hi0 - lo0) // 2) / 8.0) if exact else rng.uniform(lo + 0.01, hi0)
            v.update({"key": name, "det": True, "log": False, "bounds": [lo, hi]})
    if allow_bad:
        r = rng.random()
        if r < 0.25 and not vec:
            v["bounds"] = [pair()]  # shape (1, 2) on a scalar placeholder -> assert in _set_bound
            v["bad"] = "scalar-2d-bounds"
        elif r < 0.5 and vec:
            v["values"] = ["_"] * width
            v["values"][rng.randrange(width)] = 3.0  # not all placeholders
            v["bad"] = "not-all-placeholders"
        elif r < 0.7:
            v["values"] = "numpy.arange(3)"
            v["bounds"] = pair()
            v["bad"] = "other-string"
        elif r < 0.85 and vec:
            v["bounds"] = [pair() for _ in range(width + 1)]  # refused by ParameterValues itself
            v["bad"] = "ctor-rows"
    return v


def _unique_det(vs, rng, exact):
    """a detector field is declared at most once"""
    seen = set()
    for j, v in enumerate(vs):
        while v.get("det") and v["key"] in seen:
            v = vs[j] = gen_var(rng, j, exact)
        if v.get("det"):
            seen.add(v["key"])
    return vs


DET_KEYS = {"temperature": "detector.environment.temperature", "fwc": "detector.characteristics.full_well_capacity"}


def full_key(v):
    return DET_KEYS[v["key"]] if v.get("det") else f"pipeline.{GROUP}.{MODEL}.arguments.{v['key']}"


def slots_of(v):
    return len(v["values"]) if isinstance(v["values"], list) else 1


def box(vs):
    """declared (lo, hi, log) per component, declaration order — from the statement"""
    out = []
    for v in vs:
        n = slots_of(v)
        per = isinstance(v["bounds"][0], list)
        for c in range(n):
            lo, hi = v["bounds"][c] if per else v["bounds"]
            out.append((lo, hi, v["log"]))
    return out


def gen_x(rng, vs, exact, where="in"):
    import math

    x = []
    for lo, hi, log in box(vs):
        if log:
            a, b = math.log10(lo), math.log10(hi)
            if exact:
                a, b = round(a), round(b)
                x.append(float(rng.choice([a, b, rng.randrange(a, b + 1)])))
            else:
                x.append(rng.choice([a, b, rng.uniform(a, b)]))
        else:
            if exact:
                k = rng.randrange(0, int((hi - lo) * 8) + 1)
                x.append(rng.choice([lo, hi, lo + k / 8.0]))
            else:
                x.append(rng.choice([lo, hi, rng.uniform(lo, hi)]))
    return x


def gen_case(rng, stream):
    exact = stream != "float"
    bad = stream == "malformed"
    n = rng.choice([1, 1, 2, 2, 3, 3, 4])
    vs = _unique_det([gen_var(rng, j, exact) for j in range(n)], rng, exact)
    if bad:
        k = rng.randrange(n)
        for _ in range(20):
            vs[k] = gen_var(rng, k, exact, allow_bad=True)
            if "bad" in vs[k]:
                break
    case = {"stream": stream, "vars": vs, "xs": []}
    if not bad:
        _disable_some(rng, vs)
    _history_options(rng, case)
    if not any("bad" in v for v in vs):
        case["xs"] = [gen_x(rng, vs, exact) for _ in range(rng.choice([1, 2, 3]))]
    return case


def _disable_some(rng, vs):
    """`enabled: false` entries at any position of the declaration (first / middle / last, before a logarithmic one).
    Two readings are acceptable for calibration — calibrated like the others, or left out of the decision vector — as
    long as the tree follows ONE of them everywhere: `reading_of` takes it from the size of the optimiser box."""
    if len(vs) >= 2 and rng.random() < 0.3:
        k = rng.randrange(len(vs))
        vs[k]["enabled"] = False
        if rng.random() < 0.3:
            vs[(k + 1) % len(vs)]["enabled"] = False
        if not any(v.get("enabled", True) for v in vs):
            vs[0].pop("enabled")


def enabled_only(vs):
    return [v for v in vs if v.get("enabled", True)]


def reading_of(vs, box_len):
    if all(v.get("enabled", True) for v in vs) or box_len == sum(slots_of(v) for v in vs):
        return "all"
    if box_len == sum(slots_of(v) for v in enabled_only(vs)):
        return "enabled-only"
    return None


def effective(vs, reading):
    return enabled_only(vs) if reading == "enabled-only" else vs


def project(vs, x):
    """the components of a full-layout decision vector that belong to the enabled variables"""
    out, a = [], 0
    for v in vs:
        n = slots_of(v)
        if v.get("enabled", True):
            out += list(x[a:a + n])
        a += n
    return out


def view(case, impl):
    """(variables, decision vectors) of the case under the reading of `enabled: false` the implementation shows"""
    vs = case["vars"]
    r = impl.get("reading", "all") if isinstance(impl, dict) else "all"
    if r == "enabled-only":
        return enabled_only(vs), impl.get("xs_used", [project(vs, x) for x in case["xs"]])
    return vs, case["xs"]


def _history_options(rng, case):
    """how the declaration reaches the code (Python API / a YAML file) and whether the caller's detector and
    pipeline objects have already run once (an exposure) before the calibration is built on them"""
    vs = case["vars"]
    if not any("bad" in v or v.get("as_tuple") for v in vs) and rng.random() < 0.4:
        case["via"] = "yaml"
    if rng.random() < 0.3:
        case["pre_exposure"] = True
    if rng.random() < 0.3:
        vs[0]["twin"] = True  # read by _pipeline: a second model with the same function in front of the calibrated one


def gen_history_case(rng, force):
    """three problems in a row from the same ParameterValues; `force`: contains a logarithmic vector with
    per-component boundaries (the only declaration whose boundary array is handed out as views)"""
    while True:
        c = gen_case(rng, rng.choice(["exact", "exact", "float"]))
        if not force or any(v["log"] and isinstance(v["values"], list) and isinstance(v["bounds"][0], list) for v in c["vars"]):
            break
    c["history_of"], c["stream"], c["rounds"] = c["stream"], "history", 3
    return c


def gen_run_case(rng, algo, single=False):
    n = 1 if single else rng.choice([2, 2, 3])
    while True:
        vs = _unique_det([gen_var(rng, j, exact=False) for j in range(n)], rng, False)
        if single:
            vs[0]["values"], vs[0]["bounds"] = "_", (vs[0]["bounds"][0] if isinstance(vs[0]["bounds"][0], list) else vs[0]["bounds"])
        if sum(slots_of(v) for v in vs) <= 6:
            break
    if not single:
        _disable_some(rng, vs)
    opts = {"vars": vs}
    _history_options(rng, opts)
    opts.pop("vars")
    return {**opts, "stream": "run", "rounds": 2, "vars": vs, "algo": algo, "pygmo_seed": rng.randrange(1, 100000),
            "islands": rng.choice([1, 2]), "evolutions": 2, "best": rng.choice([0, 2, 3])}


# ------------------------------------------------------------------ implementation side
_TOKEN = {"pipe": None}


def own_cal(log):
    """the probe's records written through the pipeline built last (its `_token` argument): worker threads of an
    earlier, e.g. failed, calibration may still be evaluating and logging while the next case runs"""
    needle = '"_token":"%s"' % _TOKEN["pipe"]
    return [r for r in log if r[0] == "cal" and needle in r[1] and '"_model":"main"' in r[1]]


def _pipeline(vs):
    import uuid

    import pyx

    _TOKEN["pipe"] = uuid.uuid4().hex
    args = {"_token": _TOKEN["pipe"], "_model": "main"}
    for v in vs:
        if v.get("det"):
            continue
        args[v["key"]] = [0.0] * len(v["values"]) if isinstance(v["values"], list) else v.get("default", 0.0)
    models = [{"name": MODEL, "func": "probes.cal_probe_det", "arguments": args}]
    if any(v.get("twin") for v in vs):
        # the same function twice in the group: a custom-named model BEFORE the default-named, calibrated one
        # (`background` then `cal_probe_det`): every key must address the model of that NAME
        models.insert(0, {"name": "background", "func": "probes.cal_probe_det", "arguments": {**args, "_model": "bg"}})
    return pyx.make_pipeline({GROUP: models})


def _param_values_yaml(vs):
    """the declaration as a user writes it in a YAML file, read back through `pyxel.configuration.loads`
    (-> configuration.to_parameters): boundaries exactly in the order written"""
    import os

    import numpy as np
    import yaml
    from pyxel.configuration import loads

    tmp = tempfile.mkdtemp(prefix="c10y-")
    try:
        np.save(tmp + "/target.npy", np.zeros((ROWS, COLS)))
        args = {}
        for v in vs:
            if not v.get("det"):
                args[v["key"]] = [0.0] * len(v["values"]) if isinstance(v["values"], list) else v.get("default", 0.0)
        doc = {
            "calibration": {
                "result_type": "pixel", "result_fit_range": [0, ROWS, 0, COLS], "target_fit_range": [0, ROWS, 0, COLS],
                "target_data_path": [tmp + "/target.npy"],
                "fitness_function": {"func": "pyxel.calibration.fitness.sum_of_abs_residuals"},
                "algorithm": {"type": "sade", "generations": 1, "population_size": 8},
                "parameters": [{"key": full_key(v), "values": v["values"], "logarithmic": v["log"], "boundaries": v["bounds"],
                                "enabled": v.get("enabled", True)} for v in vs],
            },
            "ccd_detector": {
                "geometry": {"row": ROWS, "col": COLS, "total_thickness": 10.0, "pixel_vert_size": 10.0, "pixel_horz_size": 10.0},
                "environment": {"temperature": 200.0},
                "characteristics": {"quantum_efficiency": 0.5, "charge_to_volt_conversion": 1e-6, "pre_amplification": 10.0,
                                    "adc_bit_resolution": 16, "adc_voltage_range": [0.0, 5.0], "full_well_capacity": 100000}},
            "pipeline": {GROUP: [{"name": MODEL, "func": "probes.cal_probe_det", "enabled": True, "arguments": args}]},
        }
        cfg = loads(yaml.safe_dump(doc, sort_keys=False))
        return list(cfg.calibration.parameters)
    finally:
        shutil.rmtree(tmp, ignore_errors=True)


def _param_values(vs, via="python"):
    from pyxel.observation import ParameterValues

    if via == "yaml":
        return _param_values_yaml(vs)
    return [ParameterValues(key=full_key(v), values=tuple(v["values"]) if (v.get("as_tuple") and isinstance(v["values"], list)) else v["values"],
                            logarithmic=v["log"], boundaries=v["bounds"], enabled=v.get("enabled", True)) for v in vs]


def _err(e):
    return "assertion" if isinstance(e, AssertionError) else {"ValueError": "value", "IndexError": "index"}.get(common.err_kind(e), common.err_kind(e))


def _snapshot(pvs):
    """the caller's declaration as it stands: (key, values, logarithmic, boundaries) per ParameterValues"""
    import copy

    import numpy as np

    return [(pv.key, copy.deepcopy(pv.values), bool(pv.logarithmic), None if pv.boundaries is None else np.array(pv.boundaries, copy=True))
            for pv in pvs]


def _same_declaration(a, b):
    import numpy as np

    return len(a) == len(b) and all(
        x[0] == y[0] and x[1] == y[1] and x[2] == y[2] and np.array_equal(x[3], y[3]) for x, y in zip(a, b))


def _objects(vs, pre_exposure):
    """the caller's detector and pipeline objects; `pre_exposure`: they have already been used once for a plain
    exposure (looking at the image before calibrating) — the calibration then works on objects with a history"""
    import pyx
    import pyxel

    det, pipe = pyx.make_detector("CCD", ROWS, COLS), _pipeline(vs)
    if pre_exposure:
        pyxel.run_mode(pyx.make_exposure(), det, pipe)
    return det, pipe


def _problem(vs, tmp, pvs=None, via="python", pre_exposure=False):
    """the fitting problem exactly as Calibration.run_calibration builds it (`pvs`: the caller's own
    ParameterValues objects, re-used from one problem to the next in the history stream)"""
    import numpy as np
    import pyx
    from pyxel.calibration import FitRange3D, to_fit_range
    from pyxel.calibration.fitting_datatree import ModelFittingDataTree
    from pyxel.exposure import Readout
    from pyxel.pipelines import FitnessFunction, Processor

    target = tmp + "/target.npy"
    np.save(target, np.zeros((ROWS, COLS)))
    det, pipe = _objects(vs, pre_exposure)
    proc = Processor(detector=det, pipeline=pipe)
    return ModelFittingDataTree(
        processor=proc, variables=_param_values(vs, via) if pvs is None else pvs, readout=Readout(), simulation_output="pixel",
        generations=1, population_size=8,
        fitness_func=FitnessFunction("pyxel.calibration.fitness.sum_of_abs_residuals"), file_path=None,
        target_filenames=[target], target_fit_range=to_fit_range([0, ROWS, 0, COLS]),
        out_fit_range=FitRange3D.from_sequence([0, ROWS, 0, COLS]),
    )


def _assigned_from_kwargs(vs, kw):
    out = []
    for v in vs:
        val = kw["@" + v["key"]] if v.get("det") else kw[v["key"]]
        if isinstance(val, dict) and "nd" in val:
            out.append([v["key"], {"v": [float.fromhex(x["f"]) if isinstance(x, dict) else float(x) for x in _unhex(val["nd"])]}])
        elif isinstance(val, list):
            out.append([v["key"], {"v": [_num(x) for x in val]}])
        else:
            out.append([v["key"], {"s": _num(val)}])
    return out


def _unhex(lst):
    return lst


def _num(x):
    if isinstance(x, dict) and "f" in x:
        return float.fromhex(x["f"])
    return float(x)


def _eval_problem(vs, case, tmp, pvs):
    import numpy as np
    import probes

    try:
        prob = _problem(vs, tmp, pvs, pre_exposure=case.get("pre_exposure", False))
    except Exception as e:  # noqa: BLE001
        stage = "ctor" if any(v.get("bad") == "ctor-rows" for v in vs) and not isinstance(e, AssertionError) else "set_bound"
        return {"error": _err(e), "stage": stage, "msg": str(e)[:200]}
    lb, ub = prob.get_bounds()
    out = {"bounds": [[float(a) for a in lb], [float(a) for a in ub]], "evals": []}
    out["reading"] = reading_of(vs, len(lb)) or "all"
    xs_used = [project(vs, x) for x in case["xs"]] if out["reading"] == "enabled-only" else case["xs"]
    out["xs_used"] = xs_used
    vs_eff = effective(vs, out["reading"])
    for x in xs_used:
        try:
            out["evals"].append(_eval_x(prob, vs_eff, x))
        except Exception as e:  # noqa: BLE001  (a candidate inside the box must be applicable)
            out["evals"].append({"error": common.err_kind(e), "msg": str(e)[:200]})
    if xs_used:
        try:
            p2 = prob.convert_to_parameters(np.array(xs_used))
            out["reported2d"] = [[float(t) for t in row] for row in p2]
        except Exception as e:  # noqa: BLE001
            out["reported2d_error"] = common.err_kind(e)
    return out


def _eval_x(prob, vs, x):
    import numpy as np
    import probes

    if True:
        ev = {}
        params = prob.convert_to_parameters(np.array(x))
        ev["reported"] = [float(p) for p in params]
        newp = prob.update_processor(parameter=params, processor=prob.param_processor_list[0])
        upd = []
        for v in vs:
            val = newp.get(full_key(v))
            upd.append([v["key"], {"v": [float(t) for t in val]} if np.ndim(val) else {"s": float(val)}])
        ev["updated"] = upd
        probes.reset()
        f = prob.fitness(np.array(x))
        calls = own_cal(list(probes.LOG))
        ev["n_calls"] = len(calls)
        ev["applied"] = _assigned_from_kwargs(vs, json.loads(calls[-1][1])) if calls else None
        ev["fitness_len"] = len(f)
        return ev


def run_direct(case):
    """drive _set_bound / convert_to_parameters / update_processor / fitness on the real class.
    `case["rounds"]` > 1 (history stream): that many problems are built one after the other from the SAME
    ParameterValues objects; the later rounds are returned under "history", and "declaration_unchanged"
    says, per round, whether the caller's ParameterValues still hold what was declared."""
    vs = case["vars"]
    tmp = tempfile.mkdtemp(prefix="c10-")
    try:
        try:
            pvs = _param_values(vs, case.get("via", "python"))
        except Exception as e:  # noqa: BLE001
            return {"error": _err(e), "stage": "ctor", "msg": str(e)[:200]}
        declared = _snapshot(pvs)
        rounds, unchanged = [], []
        for _ in range(case.get("rounds", 1)):
            rounds.append(_eval_problem(vs, case, tmp, pvs))
            unchanged.append(_same_declaration(declared, _snapshot(pvs)))
        out = rounds[0]
        if len(rounds) > 1:
            out["history"] = rounds[1:]
        out["declaration_unchanged"] = unchanged
        return out
    finally:
        shutil.rmtree(tmp, ignore_errors=True)


def _one_calibration(case, cal, tmp):
    import numpy as np
    import probes
    import pyx
    import pyxel

    vs = case["vars"]
    det, pipe = _objects(vs, case.get("pre_exposure", False))
    probes.reset()
    try:
        dt = pyxel.run_mode(cal, det, pipe)
    except Exception as e:  # noqa: BLE001
        return {"error": common.err_kind(e), "msg": str(e)[:300]}
    evals = [_assigned_from_kwargs(vs, json.loads(r[1])) for r in own_cal(list(probes.LOG))]
    out = {"n_evals": len(evals), "evals": evals}
    ch = dt["/champion"]
    out["champion_decision"] = np.asarray(ch["decision"].values, dtype=float).reshape(-1, ch["decision"].shape[-1]).tolist()
    out["champion_parameters"] = np.asarray(ch["parameters"].values, dtype=float).reshape(-1, ch["parameters"].shape[-1]).tolist()
    if "best" in dt.children:
        b = dt["/best"]
        out["best_decision"] = np.asarray(b["decision"].values, dtype=float).reshape(-1, b["decision"].shape[-1]).tolist()
        out["best_parameters"] = np.asarray(b["parameters"].values, dtype=float).reshape(-1, b["parameters"].shape[-1]).tolist()
    # the reported decision vectors re-applied on a problem built from a FRESH copy of the declaration
    prob = _problem(vs, tmp)
    out["lb"], out["ub"] = [[float(t) for t in s] for s in prob.get_bounds()]
    re = []
    for x in out["champion_decision"]:
        probes.reset()
        prob.fitness(np.array(x))
        calls = own_cal(list(probes.LOG))
        re.append(_assigned_from_kwargs(vs, json.loads(calls[-1][1])))
    out["champion_reapplied"] = re
    return out


def run_calibration(case):
    """a full tiny calibration through pyxel.run_mode; every evaluation is logged by the probe"""
    import numpy as np
    import probes
    import pyx
    import pyxel
    from pyxel.calibration import Algorithm, Calibration
    from pyxel.pipelines import FitnessFunction

    vs = case["vars"]
    tmp = tempfile.mkdtemp(prefix="c10-")
    try:
        np.save(tmp + "/target.npy", np.full((ROWS, COLS), 7.0))
        algo = {"sade": dict(type="sade", generations=2, population_size=8),
                "sga": dict(type="sga", generations=2, population_size=6),
                "nlopt": dict(type="nlopt", generations=1, population_size=5, maxeval=12, nlopt_solver="neldermead")}[case["algo"]]
        pvs = _param_values(vs, case.get("via", "python"))
        declared = _snapshot(pvs)
        # one configuration object, run `rounds` times in a row (what re-executing `pyxel.run_mode(config…)` does)
        cal = Calibration(
            target_data_path=[tmp + "/target.npy"],
            fitness_function=FitnessFunction("pyxel.calibration.fitness.sum_of_abs_residuals"),
            algorithm=Algorithm(**algo), parameters=pvs, result_type="pixel",
            result_fit_range=[0, ROWS, 0, COLS], target_fit_range=[0, ROWS, 0, COLS],
            pygmo_seed=case["pygmo_seed"], num_islands=case["islands"], num_evolutions=case["evolutions"],
            num_best_decisions=case["best"] or None,
        )
        rounds, unchanged = [], []
        for _ in range(case.get("rounds", 1)):
            rounds.append(_one_calibration(case, cal, tmp))
            unchanged.append(_same_declaration(declared, _snapshot(pvs)))
            if "error" in rounds[-1]:
                break
        out = rounds[0]
        if len(rounds) > 1:
            out["history"] = rounds[1:]
        out["declaration_unchanged"] = unchanged
        return out
    finally:
        shutil.rmtree(tmp, ignore_errors=True)


def run_deprecated(case):
    """the deprecated but still exported entry point `pyxel.calibration_mode`: it returns, per island, the champion
    (`dataset.champion_decision/parameters`) and the processor on which this champion was applied and run
    (`processors`, from which `dataset.simulated_*` are computed)"""
    import dask
    import numpy as np
    import probes
    import pyxel
    from pyxel.calibration import Algorithm, Calibration
    from pyxel.pipelines import FitnessFunction

    vs = case["vars"]
    tmp = tempfile.mkdtemp(prefix="c10-")
    try:
        np.save(tmp + "/target.npy", np.full((ROWS, COLS), 7.0))
        algo = {"sade": dict(type="sade", generations=2, population_size=8),
                "sga": dict(type="sga", generations=2, population_size=6)}[case["algo"]]
        cal = Calibration(
            target_data_path=[tmp + "/target.npy"],
            fitness_function=FitnessFunction("pyxel.calibration.fitness.sum_of_abs_residuals"),
            algorithm=Algorithm(**algo), parameters=_param_values(vs, case.get("via", "python")), result_type="pixel",
            result_fit_range=[0, ROWS, 0, COLS], target_fit_range=[0, ROWS, 0, COLS],
            pygmo_seed=case["pygmo_seed"], num_islands=case["islands"], num_evolutions=case["evolutions"],
        )
        det, pipe = _objects(vs, False)
        probes.reset()
        try:
            res = pyxel.calibration_mode(cal, det, pipe)
            ds = res.dataset
            last = ds.isel(evolution=-1)
            out = {"champion_decision": np.asarray(last["champion_decision"].values, dtype=float).tolist(),
                   "champion_parameters": np.asarray(last["champion_parameters"].values, dtype=float).tolist()}
            applied, sim00 = [], []
            df = res.processors.sort_values(["island", "id_processor"])
            for _, row in df.iterrows():
                (proc,) = dask.compute(row["processor"])
                per = []
                for v in vs:
                    val = proc.get(full_key(v))
                    per.append([v["key"], {"v": [float(t) for t in np.asarray(val).ravel()]} if isinstance(v["values"], list) else {"s": float(val)}])
                applied.append(per)
            out["applied"] = applied
            # the simulated data returned for each island: pixel[0, 0] of the probe = sum of its numeric arguments
            pix = np.asarray(ds["simulated_pixel"].values, dtype=float)
            out["sim_sum"] = [float(pix[i].ravel()[0]) for i in range(pix.shape[0])]
        except Exception as e:  # noqa: BLE001
            return {"error": common.err_kind(e), "msg": str(e)[:300]}
        prob = _problem(vs, tmp)
        out["lb"], out["ub"] = [[float(t) for t in s] for s in prob.get_bounds()]
        return out
    finally:
        shutil.rmtree(tmp, ignore_errors=True)


def predicate_deprecated(case, impl):
    vs = case["vars"]
    if "error" in impl:
        return ("C10:deprecated-run-fails", f"pyxel.calibration_mode failed: {impl['error']} {impl.get('msg', '')}")
    logs_flat = [lg for _, _, lg in box(vs)]
    for isl, (x, p, ap, ss) in enumerate(zip(impl["champion_decision"], impl["champion_parameters"], impl["applied"], impl["sim_sum"])):
        exp = expected_applied(vs, x)
        if len(p) != len(flatten(exp)) or not all(close(a, b, lg) for a, b, lg in zip(p, flatten(exp), logs_flat)):
            return ("C10:reported-neq-applied", f"calibration_mode island {isl}: champion parameters {p} for decision {x}: declaration order gives {flatten(exp)}")
        why = in_declared_bounds(vs, _regroup(vs, p))
        if why:
            return ("C10:out-of-bounds", f"calibration_mode island {isl}: reported champion: " + why)
        if len(flatten(ap)) != len(p) or not all(close(a, b, lg) for a, b, lg in zip(flatten(ap), p, logs_flat)):
            return ("C10:reported-neq-applied", f"calibration_mode island {isl}: reported champion parameters {p} but the returned processor of this island "
                                                f"carries {flatten(ap)} (islands: {len(impl['applied'])})")
        # returned simulated data of this island = pipeline run with the reported values (probe: pixel[0,0] = sum of its arguments)
        a, tot = 0, 0.0
        for v in vs:
            n = slots_of(v)
            if not v.get("det"):
                tot += sum(p[a:a + n])
            a += n
        if abs(ss - tot) > 1e-9 * max(1.0, abs(tot)):
            return ("C10:reported-neq-applied", f"calibration_mode island {isl}: simulated data of this island were produced with arguments summing to {ss!r}, "
                                                f"the reported champion parameters sum to {tot!r}")
    return None


# ------------------------------------------------------------------ Lean request / canonical forms
def lean_vars(vs):
    out = []
    for v in vs:
        vals = v["values"]
        if vals == "_":
            lv = "_"
        elif isinstance(vals, list):
            lv = [x == "_" for x in vals]
        else:
            lv = "other"
        b = v["bounds"]
        lb = {"each": [[common.frac(p[0]), common.frac(p[1])] for p in b]} if isinstance(b[0], list | tuple) else {"shared": [common.frac(b[0]), common.frac(b[1])]}
        out.append({"key": v["key"], "values": lv, "log": v["log"], "bounds": lb})
    return out


def lean_request(vs, xs):
    """tables: what numpy computes for exactly these arguments (np.power(10, ·), np.log10 / math.log10)"""
    import math

    import numpy as np

    t_log, t_pow = {}, {}
    for v in vs:
        if not v["log"]:
            continue
        b = v["bounds"]
        flat = [t for p in b for t in p] if isinstance(b[0], list | tuple) else list(b)
        for t in flat:
            if t > 0:
                # `_set_bound` uses math.log10 for scalars and np.log10 for lists; both are compared below
                t_log[t] = math.log10(t) if v["values"] == "_" else float(np.log10(np.array([t]))[0])
    for x in xs:
        for c in x:
            with np.errstate(over="ignore"):
                t_pow[c] = float(np.power(10, np.array([c]))[0])
            if t_pow[c] != t_pow[c] or abs(t_pow[c]) == float("inf"):
                # 10**c overflows binary64 (a large *linear* component, e.g. a full well capacity): such a component can
                # never belong to a logarithmic variable whose boundaries are doubles; the table entry is a sentinel
                t_pow[c] = -1.0
    return {"vars": lean_vars(vs),
            "log10": [[common.frac(k), common.frac(v)] for k, v in t_log.items()],
            "pow10": [[common.frac(k), common.frac(v)] for k, v in t_pow.items() if v == v and abs(v) != float("inf")],
            "xs": [[common.frac(c) for c in x] for x in xs]}


def q2f(q):
    return Fraction(q[0], q[1])


def close(a, b, log):
    """a: float from the implementation, b: Fraction/float expected"""
    import math

    if isinstance(a, float) and not math.isfinite(a) or isinstance(b, float) and not math.isfinite(b):
        return False  # the box is finite: no applied / reported component can be inf or nan
    fa, fb = Fraction(a), Fraction(b)
    if fa == fb:
        return True
    return bool(log) and abs(fa - fb) <= Fraction(TOL) * max(abs(fa), abs(fb))


def assigned_close(impl, model, logs):
    """impl/model: [[key, {"s": x} | {"v": [..]}], ...]; model numbers are [num, den]"""
    if impl is None or model is None or len(impl) != len(model):
        return False
    for (ki, vi), (km, vm), lg in zip(impl, model, logs):
        if ki != km or set(vi) != set(vm):
            return False
        a = vi["v"] if "v" in vi else [vi["s"]]
        b = vm["v"] if "v" in vm else [vm["s"]]
        if len(a) != len(b) or not all(close(x, q2f(y) if isinstance(y, list) else y, lg) for x, y in zip(a, b)):
            return False
    return True


# ------------------------------------------------------------------ the statement, evaluated in Python
def expected_applied(vs, x):
    """declaration-order slices, scalar for '_', 10** on logarithmic variables (independent of the model)"""
    out, a = [], 0
    for v in vs:
        n = slots_of(v)
        comp = [Fraction(10) ** int(c) if (v["log"] and float(c).is_integer() and abs(c) < 40) else (10.0 ** c if v["log"] else c)
                for c in x[a:a + n]]
        out.append([v["key"], {"v": comp} if isinstance(v["values"], list) else {"s": comp[0]}])
        a += n
    return out


def in_declared_bounds(vs, assigned):
    """None if every applied component is inside its own declared pair, else a description"""
    for v, (key, val) in zip(vs, assigned):
        comps = val["v"] if "v" in val else [val["s"]]
        per = isinstance(v["bounds"][0], list | tuple)
        for c, y in enumerate(comps):
            lo, hi = v["bounds"][c] if per else v["bounds"]
            slack = TOL * max(abs(lo), abs(hi)) if v["log"] else 0.0
            if not (lo - slack <= y <= hi + slack):
                return f"{key}[{c}] = {y!r} outside declared [{lo!r}, {hi!r}]"
    return None


def flatten(assigned):
    out = []
    for _, val in assigned:
        out += val["v"] if "v" in val else [val["s"]]
    return out


def predicate_direct(case, impl):
    if "error" in impl:
        return None  # the statement says nothing about rejected declarations
    vs, xs_view = view(case, impl)
    case = {**case, "vars": vs, "xs": xs_view}
    logs = [v["log"] for v in vs]
    bx = box(vs)
    import math

    lb, ub = impl["bounds"]
    if len(lb) != len(bx) or len(ub) != len(bx):
        return ("C10:bounds-vector", f"boundary vectors have {len(lb)}/{len(ub)} entries for {len(bx)} placeholders")
    for k, (lo, hi, lg) in enumerate(bx):
        elo, ehi = (math.log10(lo), math.log10(hi)) if lg else (lo, hi)
        if not (close(lb[k], elo, lg) and close(ub[k], ehi, lg)):
            return ("C10:bounds-vector", f"optimiser box component {k} is [{lb[k]!r}, {ub[k]!r}], declared {'log10 of ' if lg else ''}[{lo!r}, {hi!r}]")
    for x, ev in zip(case["xs"], impl["evals"]):
        if "error" in ev:
            return ("C10:evaluation-fails", f"decision vector {x} inside the optimiser box cannot be applied/evaluated: {ev['error']} {ev['msg']}")
        exp = expected_applied(vs, x)
        for name in ("applied", "updated"):
            if ev[name] is None or not assigned_close(ev[name], exp, logs):
                return ("C10:applied-slice", f"decision vector {x}: {name} = {ev[name]} but declaration order gives {exp}")
        why = in_declared_bounds(vs, ev["applied"])
        if why:
            return ("C10:out-of-bounds", f"decision vector {x} inside the box: " + why)
        if [Fraction(t) for t in flatten(ev["applied"])] != [Fraction(t) for t in ev["reported"]]:
            return ("C10:reported-neq-applied", f"decision vector {x}: reported {ev['reported']} but applied {flatten(ev['applied'])}")
    return None


def predicate_run(case, impl):
    vs = case["vars"]
    if "error" in impl:
        return ("C10:run-fails", f"calibration failed: {impl['error']} {impl.get('msg', '')}")
    reading = reading_of(vs, len(impl["lb"]))
    if reading is None:
        return ("C10:bounds-vector", f"the optimiser box has {len(impl['lb'])} components: neither all declared placeholders nor the enabled ones only")
    if reading == "enabled-only":
        vs = enabled_only(vs)
        keep = {v["key"] for v in vs}
        impl = {**impl, "evals": [[a for a in ev if a[0] in keep] for ev in impl["evals"]],
                "champion_reapplied": [[a for a in ev if a[0] in keep] for ev in impl["champion_reapplied"]]}
    logs = [v["log"] for v in vs]
    logs_flat = [lg for _, _, lg in box(vs)]
    for ev in impl["evals"]:
        why = in_declared_bounds(vs, ev)
        if why:
            return ("C10:out-of-bounds", "an evaluated candidate: " + why)
    for name in ("champion", "best"):
        if name + "_decision" not in impl:
            continue
        for x, p in zip(impl[name + "_decision"], impl[name + "_parameters"]):
            for k, (c, lo, hi) in enumerate(zip(x, impl["lb"], impl["ub"])):
                if not (lo <= c <= hi):
                    return ("C10:out-of-bounds", f"{name} decision component {k} = {c!r} outside the optimiser box [{lo!r}, {hi!r}]")
            exp = expected_applied(vs, x)
            if not all(close(a, b, lg) for a, b, lg in zip(p, flatten(exp), logs_flat)) or len(p) != len(flatten(exp)):
                return ("C10:reported-neq-applied", f"{name} parameters {p} for decision {x}: declaration order gives {flatten(exp)}")
            why = in_declared_bounds(vs, _regroup(vs, p))
            if why:
                return ("C10:out-of-bounds", f"reported {name}: " + why)
    for x, p, re in zip(impl["champion_decision"], impl["champion_parameters"], impl["champion_reapplied"]):
        if not all(close(a, b, lg) for a, b, lg in zip(flatten(re), p, logs_flat)):
            return ("C10:reported-neq-applied", f"champion decision {x}: reported {p}, applied {flatten(re)}")
        # the reported champion was evaluated: some logged evaluation applied exactly these values
        if not any(all(close(a, b, lg) for a, b, lg in zip(flatten(ev), p, logs_flat)) for ev in impl["evals"]):
            return ("C10:reported-neq-applied", f"no evaluation applied the reported champion parameters {p}")
    return None


def _regroup(vs, flat):
    out, a = [], 0
    for v in vs:
        n = slots_of(v)
        out.append([v["key"], {"v": flat[a:a + n]} if isinstance(v["values"], list) else {"s": flat[a]}])
        a += n
    return out


# ------------------------------------------------------------------ comparison with the model
def compare_direct(case, impl, ans):
    """None if model == implementation (canonicalised), else a description"""
    if "error" not in impl:
        vs_v, xs_v = view(case, impl)
        case = {**case, "vars": vs_v, "xs": xs_v}
    vs = case["vars"]
    logs = [v["log"] for v in vs]
    mb = ans["bounds"]
    if "error" in impl:
        if impl.get("stage") == "ctor":
            return None  # refused by ParameterValues (the WF hypothesis of the theorems); not modelled
        # a declaration the code refuses is refused by the model: WHICH exception class says so (an `assert`, a
        # ValueError) is not part of the statement and is only counted in the evidence
        return None if "err" in mb else f"impl raises {impl['error']}, model accepts: {mb}"
    if "err" in mb:
        return f"impl accepts, model raises {mb['err']}"
    logs_flat = [lg for _, _, lg in box(vs)]
    for side in (0, 1):
        if len(mb["ok"][side]) != len(impl["bounds"][side]) or not all(close(a, q2f(b), lg) for a, b, lg in zip(impl["bounds"][side], mb["ok"][side], logs_flat)):
            return f"bounds[{side}] differ: impl {impl['bounds'][side]} model {mb['ok'][side]}"
    for ev, mv in zip(impl["evals"], ans["evals"]):
        if "error" in ev:
            return f"impl fails on a decision vector ({ev['error']}), model applies it"
        if len(ev["reported"]) != len(mv["reported"]) or not all(close(a, q2f(b), lg) for a, b, lg in zip(ev["reported"], mv["reported"], logs_flat)):
            return f"convert_to_parameters differs: impl {ev['reported']} model {mv['reported']}"
        if "ok" not in mv["applied"]:
            return f"model applied raises {mv['applied']}"
        for name in ("applied", "updated"):
            if not assigned_close(ev[name], mv["applied"]["ok"], logs):
                return f"{name} differs: impl {ev[name]} model {mv['applied']['ok']}"
        if ev["n_calls"] != 1:
            return f"fitness ran the probe {ev['n_calls']} times"
    for row, mrow in zip(impl.get("reported2d", []), ans["reported2d"]):
        if not all(close(a, q2f(b), lg) for a, b, lg in zip(row, mrow, logs_flat)):
            return f"2-D convert_to_parameters differs: impl {row} model {mrow}"
    return None


def rounds_of(impl):
    return [impl] + list(impl.get("history", []))


def over_rounds(pred, case, impl):
    """the statement on every problem / calibration of a history: all are judged against the ORIGINAL declaration"""
    for n, r in enumerate(rounds_of(impl)):
        pv = pred(case, r)
        if pv:
            if n == 0:
                return pv
            return (pv[0] + ":rebuilt", f"problem/run #{n + 1} built from the same ParameterValues objects as #1 (declaration "
                    f"{'still intact' if all(impl.get('declaration_unchanged', [True])[:n]) else 'overwritten by an earlier build'}): " + pv[1])
    return None


def _run_case(case):
    if case["stream"] == "deprecated":
        return run_deprecated(case)
    return run_direct(case) if case["stream"] != "run" else run_calibration(case)


def body(ck: common.Check):
    ck.obligations(["PyxelModel.Props.C10"], ["PyxelModel.Drive.C10"])
    rng = ck.rng
    quick = ck.tier == "quick"
    cases = []
    for stream, n in (("exact", 120 if quick else 1500), ("float", 60 if quick else 800), ("malformed", 40 if quick else 300)):
        cases += [gen_case(rng, stream) for _ in range(n)]
    # directed layouts the suite never has: vector before scalar, logarithm first / middle / last
    for pattern in (["v", "s"], ["v", "v", "s"], ["s", "v", "s"], ["v", "s", "v"]):
        for logpos in range(len(pattern)):
            vs = []
            for j, kind in enumerate(pattern):
                v = gen_var(rng, j, exact=True)
                while (isinstance(v["values"], list)) != (kind == "v") or v["log"] != (j == logpos) or v.get("det"):
                    v = gen_var(rng, j, exact=True)
                vs.append(v)
            cases.append({"stream": "exact", "vars": vs, "xs": [gen_x(rng, vs, True) for _ in range(2)]})
    # history: several problems built one after the other from the SAME ParameterValues objects
    cases += [gen_history_case(rng, force=(i % 2 == 0)) for i in range(30 if quick else 300)]
    runs = []
    algos = ["sade", "sga", "nlopt"]
    for i in range(6 if quick else 45):
        runs.append(gen_run_case(rng, algos[i % 3], single=(i % 3 == 0 and i < 6)))
    # model answers (direct streams): one batch
    # (the implementation runs first: the model is asked about the declaration under the reading of `enabled: false`
    #  that the implementation shows — see _disable_some)
    impls = [run_direct(c) for c in cases]
    answers = LeanDriver("C10").batch([lean_request(*view(c, i)) for c, i in zip(cases, impls)])
    for case, impl, ans in zip(cases, impls, answers):
        if "bad" in ans:
            raise common.InfraError(f"driver rejected request: {ans} for {case}")
        ck.count("disabled_entries", sum(1 for v in case["vars"] if not v.get("enabled", True)))
        if any(not v.get("enabled", True) for v in case["vars"]) and "error" not in impl:
            ck.count("reading_of_enabled_false=" + str(impl.get("reading")))
        total = sum(slots_of(v) for v in case["vars"])
        ck.case(case, nontrivial=("error" not in impl and total >= 2 and bool(case["xs"])), stream=case["stream"])
        ck.count("vars=%d" % len(case["vars"]))
        ck.count("log_vars", sum(1 for v in case["vars"] if v["log"]))
        ck.count("vector_before_scalar", int(any(isinstance(a["values"], list) and b["values"] == "_" for a, b in zip(case["vars"], case["vars"][1:]))))
        ck.count("per_component_bounds", sum(1 for v in case["vars"] if isinstance(v["bounds"][0], list)))
        ck.count("declared_via_yaml", int(case.get("via") == "yaml"))
        ck.count("same_function_twice_in_group", int(any(v.get("twin") for v in case["vars"])))
        ck.count("objects_ran_an_exposure_before", int(bool(case.get("pre_exposure"))))
        ck.count("tuple_declared_vectors", sum(1 for v in case["vars"] if v.get("as_tuple")))
        ck.count("int_default_scalars", sum(1 for v in case["vars"] if "default" in v))
        ck.count("detector_field_targets", sum(1 for v in case["vars"] if v.get("det")))
        ck.count("outcome=" + (impl.get("error", "ok") + ("@" + impl["stage"] if "stage" in impl else "")))
        pv = over_rounds(predicate_direct, case, impl)
        if pv:
            ck.violation(pv[0], pv[1], {"case": case, "impl": impl})
        for n, r in enumerate(rounds_of(impl)):
            why = compare_direct(case, r, ans)
            if why:
                ck.disagreement(case["stream"], case, {"impl": r, "round": n + 1, "why": why}, ans)
                break
        if not all(impl.get("declaration_unchanged", [True])):
            # the model is a function of the declaration, which it cannot change (theorem setBound_history_independent)
            ck.disagreement(case["stream"], case, {"why": "building a problem changed the caller's ParameterValues", "unchanged_per_round": impl["declaration_unchanged"]}, "declaration unchanged")
        if case["stream"] == "history":
            ck.count("history_problems", len(rounds_of(impl)))
        lay = ans["layout"]
        wf = not any(v.get("bad") == "ctor-rows" for v in case["vars"])  # hypothesis `Var.WF` of the theorem
        if wf and "ok" in ans["bounds"] and not (lay["bound"] == lay["convert"] == lay["update"] == lay["spec"]):
            raise common.InfraError(f"driver contradicts theorem three_walkers_agree: {lay}")
    # full calibrations: model answers need the decision vectors the optimiser chose
    # the deprecated entry point pyxel.calibration_mode, 2-3 islands: reported champion = what the returned processors carry
    for i in range(3 if quick else 18):
        c = gen_run_case(rng, "sade")  # the deprecated archipelago declares sga / nlopt logs as not implemented
        c.update({"stream": "deprecated", "islands": 2 + (i % 2), "rounds": 1})
        c.pop("pre_exposure", None)
        impl = run_deprecated(c)
        ck.case(c, nontrivial="error" not in impl, stream="deprecated:" + c["algo"])
        pv = predicate_deprecated(c, impl)
        if pv:
            ck.violation(pv[0], pv[1], {"case": c, "impl": impl})
    run_impls = [run_calibration(c) for c in runs]
    flat = []  # (case, whole impl, one round of it)
    for case, impl in zip(runs, run_impls):
        ck.case(case, nontrivial="error" not in impl, stream="run:" + case["algo"])
        ck.count("run_calibrations", len(rounds_of(impl)))
        pv = over_rounds(predicate_run, case, impl)
        if pv:
            ck.violation(pv[0], pv[1], {"case": case, "impl": {k: v for k, v in impl.items() if k not in ("evals", "history")}})
        if not all(impl.get("declaration_unchanged", [True])):
            ck.disagreement("run", case, {"why": "a calibration run changed the caller's ParameterValues", "unchanged_per_round": impl["declaration_unchanged"]}, "declaration unchanged")
        flat += [(case, r) for r in rounds_of(impl)]
    reqs = []
    for case, impl in flat:
        xs = [] if "error" in impl else impl["champion_decision"] + impl.get("best_decision", [])
        xs = [x for x in xs if all(c == c and abs(c) != float("inf") for c in x)]
        vs_run = case["vars"] if "error" in impl else effective(case["vars"], reading_of(case["vars"], len(impl["lb"])) or "all")
        reqs.append(lean_request(vs_run, xs))
    for (case, impl), ans in zip(flat, LeanDriver("C10").batch(reqs)):
        if "bad" in ans:
            raise common.InfraError(f"driver rejected request: {ans}")
        ck.count("run_evaluations", impl.get("n_evals", 0))
        if "error" not in impl:
            vs_run = effective(case["vars"], reading_of(case["vars"], len(impl["lb"])) or "all")
            keep = {v["key"] for v in vs_run}
            impl = {**impl, "champion_reapplied": [[a for a in ev if a[0] in keep] for ev in impl["champion_reapplied"]]}
            case = {**case, "vars": vs_run}
            logs_flat = [lg for _, _, lg in box(case["vars"])]
            rep = impl["champion_parameters"] + impl.get("best_parameters", [])
            for row, mv in zip(rep, ans["evals"]):
                if not all(close(a, q2f(b), lg) for a, b, lg in zip(row, mv["reported"], logs_flat)):
                    ck.disagreement("run", case, row, mv["reported"])
                    break
            for re, mv in zip(impl["champion_reapplied"], ans["evals"]):
                if "ok" not in mv["applied"] or not assigned_close(re, mv["applied"]["ok"], [v["log"] for v in case["vars"]]):
                    ck.disagreement("run", case, re, mv["applied"])
                    break
    ck.rule = ("variable lists of 1-4 variables (scalar '_' / lists of 1-4 '_', linear / logarithmic, shared / per-component "
               "boundaries; exact stream: powers of ten and dyadic numbers, integer exponents; float stream: arbitrary doubles, "
               f"relative tolerance {TOL} on logarithmic components only; malformed stream: the three rejected declarations), 1-3 decision "
               "vectors in the box incl. corners; every vector/scalar pattern with the logarithm on each position; full calibrations "
               "with sade/sga/nlopt (1-2 islands, 2 evolutions, best individuals) incl. single-scalar-parameter ones; "
               "declarations through the Python API (lists / tuples) or written to YAML and read by pyxel.configuration.loads (boundaries in the order written, "
               "per-component pairs in non-ascending order), detector/pipeline objects fresh or already used for an exposure before the calibration; "
               "the deprecated entry point pyxel.calibration_mode with 2-3 islands (reported champion vs the returned processors and simulated data); "
               "`enabled: false` entries at any position (judged under the reading the tree shows: calibrated like the others, or left out everywhere); "
               "history: 3 problems in a row / 2 calibrations in a row from the SAME ParameterValues objects (half of them with a logarithmic "
               "vector with per-component boundaries), each judged against the original declaration, and the caller's ParameterValues "
               "(values, boundaries, logarithmic) compared before/after every build and run; "
               "non-trivial = accepted declaration with >= 2 components")
    ck.assumptions = ["the functional model cannot express mutation of the caller's declaration: purity of _set_bound & co. is tied to the code by the history stream",
                      "components of logarithmic variables are compared with relative tolerance 1e-11 (10**log10(b) is not exact in binary64); "
                      "all other components exactly", "pow10/log10 in the model are the tables numpy produced for the same arguments",
                      "the probe model sees the applied values as ModelFunction passes them (`func(detector, **arguments)`)"]
    ck.trusted_base.append("C10: pygmo evaluates only through problem.fitness (every evaluation is logged by the probe); numpy slice assignment")


if __name__ == "__main__":
    if len(sys.argv) > 2 and sys.argv[1] == "--replay":
        common.ensure_repo_on_path()
        rp = json.load(open(sys.argv[2]))
        case = rp["replay"].get("case")
        if case is None:
            print("replay names a broken obligation/correspondence, no concrete input:", rp["what"])
            sys.exit(1)
        impl = _run_case(case)
        pv = predicate_deprecated(case, impl) if case["stream"] == "deprecated" else over_rounds(predicate_run if case["stream"] == "run" else predicate_direct, case, impl)
        print("impl:", {k: v for k, v in impl.items() if k not in ("evals", "history")} if case["stream"] == "run" else impl)
        print("REPRODUCED: " + pv[1] if pv else "not reproduced (property holds on this input)")
        sys.exit(1 if pv else 0)
    sys.exit(run_check("C10", body))
