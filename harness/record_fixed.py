"""usage: record_fixed.py <Cxx> <proposed-fix-name>  — append a kind=fixed line for the newest /repo commit whose subject matches the .msg"""
import json, subprocess, sys
pid, name = sys.argv[1], sys.argv[2]
subj = open(f"/verif/proposed_fixes/{name}.msg").read().splitlines()[0]
log = subprocess.run(["git", "-C", "/repo", "log", "--format=%h %s"], capture_output=True, text=True).stdout.splitlines()
sha = next(l.split()[0] for l in log if l.split(" ", 1)[1] == subj)
line = {"kind": "fixed", "property": pid, "commit": sha, "what": f"fixed: property={pid} {sha} {subj[5:]}", "proposed_fix": name}
with open("/verif/known_findings.jsonl", "a") as f:
    f.write(json.dumps(line) + "\n")
print(line["what"])
