"""C11 — calibration fitness is the declared figure of merit on the declared data.

obligations: lean/PyxelModel/Props/C11.lean
tie to code : (ranges)  the real `ModelFittingDataTree` constructor (as `Calibration.run_calibration` builds
                        it) on generated target / detector sizes and fit-range pairs  vs  `checkFitRanges`
              (fitness) `problem.fitness(x)` on 1-3 target/input pairs, weights (list / files), the three
                        figures of merit, single- and multi-readout  vs  `fitnessTotal` (exact rationals)
              (run)     full tiny calibrations: champion monotone, champion fitness and `/simulated`,
                        `/full_size` re-computed from the reported champion parameters by an independent
                        exposure + numpy.
The statement is re-evaluated in Python (numpy slicing / Fractions) on everything the implementation returns.
"""

from __future__ import annotations

import json
import shutil
import sys
import tempfile
from fractions import Fraction

import common
from common import LeanDriver, run_check

GROUP, MODEL = "charge_collection", "probe"
KEY = f"pipeline.{GROUP}.{MODEL}.arguments."
FUNCS = {"abs": "pyxel.calibration.fitness.sum_of_abs_residuals",
         "sq": "pyxel.calibration.fitness.sum_of_squared_residuals",
         "chi2": "pyxel.calibration.fitness.reduced_chi_squared"}


# ------------------------------------------------------------------ generators
def gen_bound(rng, n, kind):
    """one slice bound for an axis of length n"""
    r = rng.random()
    if kind == "wild":
        if r < 0.15:
            return None
        if r < 0.35:
            return rng.randrange(-n - 2, 0)
        return rng.randrange(0, n + 3)
    return rng.randrange(0, n + 1)


def gen_range(rng, n, kind):
    a, b = gen_bound(rng, n, kind), gen_bound(rng, n, kind)
    if kind != "wild" and a > b:
        a, b = b, a
    return [a, b]


def np_extent(n, r):
    return len(range(n)[slice(r[0], r[1])])


def gen_ranges_case(rng):
    """target/result sizes + declared ranges; `relation` steers the pair (equal / shifted / unequal / out of bounds)"""
    multi = rng.random() < 0.35
    rows, cols = rng.randrange(2, 7), rng.randrange(2, 7)
    drows, dcols = (rows, cols) if rng.random() < 0.7 else (rows + rng.randrange(0, 3), cols + rng.randrange(0, 3))
    ntimes = rng.randrange(2, 5) if multi else 1
    ttimes = ntimes if (not multi or rng.random() < 0.7) else max(1, ntimes - 1)
    relation = rng.choice(["equal", "shifted", "shifted", "unequal", "oob", "wild", "wild", "none"])
    kind = "wild" if relation == "wild" else "plain"
    sizes_t = {"y": rows, "x": cols}
    sizes_r = {"t": ntimes, "y": drows, "x": dcols}
    tr, rr = {}, {}
    for ax in ("y", "x"):
        nt, nr = sizes_t[ax], sizes_r[ax]
        t = gen_range(rng, nt, kind)
        if relation == "equal":
            r = list(t)
        elif relation == "shifted" and kind == "plain":
            ext = t[1] - t[0]
            s = rng.randrange(0, max(1, nr - ext + 1))
            r = [s, s + ext]
        elif relation == "oob":
            # one bound of the target range beyond the target's size (either end, either sign); the result
            # range selects the same number of elements, so that only the size check can reject the pair
            which = rng.choice(["stop+", "stop+", "stop-", "start+", "start-"])
            if which == "stop+":
                t = [t[0], nt + rng.randrange(1, 3)]
            elif which == "stop-":
                t = [None if rng.random() < 0.3 else 0, -nt - rng.randrange(1, 3)]
            elif which == "start+":
                t = [nt + rng.randrange(1, 3), rng.choice([None, nt])]
            else:
                t = [-nt - rng.randrange(1, 3), t[1]]
            ext = min(np_extent(nt, t), nr)
            a = rng.randrange(0, nr - ext + 1)
            r = [a, a + ext]
        else:
            r = gen_range(rng, nr, kind)
        tr[ax], rr[ax] = t, r
    # the end-point patterns of the defect: same stop / different start, different stop / same extent
    if relation == "unequal" and rng.random() < 0.6:
        ax = rng.choice(["y", "x"])
        n = min(sizes_t[ax], sizes_r[ax])
        tr[ax], rr[ax] = [0, n], [rng.randrange(1, n), n]
    target_range = tr["y"] + tr["x"]
    if multi:
        if relation in ("equal",) or rng.random() < 0.5:
            rt = [0, ttimes] if ttimes <= ntimes else [0, ntimes]
        elif relation == "shifted":
            s = rng.randrange(0, ntimes - ttimes + 1)
            rt = [s, s + ttimes]
        else:
            rt = gen_range(rng, ntimes, kind)
        result_range = rt + rr["y"] + rr["x"]
    else:
        result_range = rr["y"] + rr["x"]
        if rng.random() < 0.25:
            result_range = gen_range(rng, 1, kind if relation == "wild" else "plain") + result_range if relation in ("wild", "unequal") else [0, 1] + result_range
    if relation == "none":
        target_range = [] if rng.random() < 0.5 else target_range
        result_range = [] if rng.random() < 0.7 else result_range
    return {"stream": "ranges", "multi": multi, "target_shape": ([ttimes] if multi else []) + [rows, cols],
            "det": [drows, dcols], "times": ntimes, "target_range": target_range, "result_range": result_range,
            "relation": relation}


def dims_of(case):
    """the three (time, y, x) comparisons the statement makes, from the declaration"""
    tshape = case["target_shape"]
    multi = case["multi"]
    tt = tshape[0] if multi else 1
    rows, cols = tshape[-2:]
    t, r = case["target_range"], case["result_range"]
    t_rng = {"t": [None, None], "y": t[0:2] if t else [None, None], "x": t[2:4] if t else [None, None]}
    if len(t) == 6:
        t_rng = {"t": t[0:2], "y": t[2:4], "x": t[4:6]}
    if not r:
        r_rng = {"t": [None, None], "y": [None, None], "x": [None, None]}
    elif len(r) == 4:
        r_rng = {"t": [None, None], "y": r[0:2], "x": r[2:4]}
    else:
        r_rng = {"t": r[0:2], "y": r[2:4], "x": r[4:6]}
    return [{"tSize": tt, "rSize": case["times"], "tRange": t_rng["t"], "rRange": r_rng["t"]},
            {"tSize": rows, "rSize": case["det"][0], "tRange": t_rng["y"], "rRange": r_rng["y"]},
            {"tSize": cols, "rSize": case["det"][1], "tRange": t_rng["x"], "rRange": r_rng["x"]}]


def spec_ranges(case):
    """(ok, why): the statement evaluated with numpy's own slicing"""
    for d, name in zip(dims_of(case), ("readout time", "y", "x")):
        et, er = np_extent(d["tSize"], d["tRange"]), np_extent(d["rSize"], d["rRange"])
        if et != er:
            return False, f"dimension {name}: target range {d['tRange']} selects {et} of {d['tSize']}, result range {d['rRange']} selects {er} of {d['rSize']}"
        for b in d["tRange"]:
            if b is not None and not (-d["tSize"] <= b <= d["tSize"]):
                return False, f"dimension {name}: target range {d['tRange']} exceeds the target's size {d['tSize']}"
    return True, ""


def gen_fitness_case(rng, multi=None, weights=None, same_times=False):
    while True:
        c = _gen_fitness_case(rng, multi, weights, same_times)
        # integer-dtype target files (what detectors deliver: uint16 frames) when the data allow it
        if all(v is not None for t in c["targets"] for v in t) and rng.random() < 0.5:
            c["target_dtype"] = rng.choice(["uint8", "uint16", "uint32", "int32"])
        # reduced chi2 needs a positive number of degrees of freedom for every target
        if all(expected_fitness(c, x) is not None for x in c["xs"]):
            return c


def _gen_fitness_case(rng, multi, weights, same_times):
    multi = rng.random() < 0.35 if multi is None else multi
    rows, cols = rng.randrange(2, 6), rng.randrange(2, 6)
    ntimes = rng.randrange(2, 4) if multi else 1
    npairs = rng.choice([1, 2, 2, 3])
    func = rng.choice(["abs", "sq", "chi2"])
    # equal-extent (possibly shifted) ranges: rows [a, a+h) of the target vs [b, b+h) of the result
    h, w = rng.randrange(1, rows + 1), rng.randrange(1, cols + 1)
    ty, tx = rng.randrange(0, rows - h + 1), rng.randrange(0, cols - w + 1)
    shifted = rng.random() < 0.5
    ry, rx = (rng.randrange(0, rows - h + 1), rng.randrange(0, cols - w + 1)) if shifted else (ty, tx)
    target_range = [ty, ty + h, tx, tx + w]
    ttimes = ntimes
    if multi:
        ttimes = ntimes if (same_times or rng.random() < 0.6) else ntimes - 1
        s = rng.randrange(0, ntimes - ttimes + 1)
        result_range = [s, s + ttimes, ry, ry + h, rx, rx + w]
    else:
        result_range = [ry, ry + h, rx, rx + w]
    tshape = ([ttimes] if multi else []) + [rows, cols]
    n = 1
    for k in tshape:
        n *= k
    targets = []
    for _ in range(npairs):
        flat = [float(rng.randrange(0, 40)) for _ in range(n)]
        if rng.random() < 0.3:
            flat[rng.randrange(n)] = None  # NaN in the target
        targets.append(flat)
    wkind = weights if weights is not None else rng.choice(["none", "none", "list", "file"])
    wpool = [1.0, 2.0, 4.0, 0.5, 3.0, 0.25, 1.75] if func != "chi2" else [1.0, 2.0, 4.0, 0.5, 0.25, 1.75]
    if wkind == "list":
        wts = [rng.choice(wpool) for _ in range(npairs)]
        if npairs > 1 and len(set(wts)) == 1:
            wts[-1] = wts[0] * 2
    elif wkind == "file":
        wts = [[rng.choice(wpool) for _ in range(n)] for _ in range(npairs)]
        if rng.random() < 0.4:
            wts[rng.randrange(npairs)][rng.randrange(n)] = None  # a NaN in a weight file: that pixel carries no weight
    else:
        wts = None
    free = rng.randrange(0, 2) if func == "chi2" else 0
    return {"stream": "fitness", "multi": multi, "times": ntimes, "det": [rows, cols], "target_shape": tshape,
            "targets": targets, "target_range": target_range, "result_range": result_range,
            "offsets": [float(rng.randrange(0, 8)) for _ in range(npairs)] if (rng.random() < 0.7 if npairs > 1 else rng.random() < 0.5) else None,
            # per-target input arguments addressing a DETECTOR field (each frame taken at its own temperature)
            "temps": ([float(200 + d) for d in rng.sample(range(0, 13), npairs)] if (npairs > 1 and rng.random() < 0.5) else None),
            "target_dtype": "float64",
            "weights_kind": wkind, "weights": wts, "func": func, "free": free,
            "result_type": rng.choice(["pixel", "signal", "image"]),
            "xs": [[float(rng.randrange(0, 9)), float(rng.randrange(0, 5)), float(rng.randrange(0, 5))] for _ in range(2)]}


def gen_policy_run_case(rng, i):
    """nlopt with a non-default selection policy: pygmo optimises the worst / a random individual and puts the
    result in the slot of the best one, so the best individual of the *population* can get worse from one
    evolution to the next while the island's champion (best ever) cannot — the only configuration in which
    'champion' and 'best of the current population' differ.  Several evolutions, small maxeval."""
    c = gen_run_case(rng, 2)
    c.update({"algo": "nlopt", "single_parameter": False, "islands": 1 + (i % 2), "evolutions": rng.randrange(3, 7),
              "nlopt": {"nlopt_selection": ["worst", "random"][i % 2], "replacement": "best", "maxeval": rng.randrange(3, 7)},
              "check_simulated": False})
    return c


def gen_stochastic_run_case(rng, i):
    """a declared pipeline seed + a random model without its own seed: candidates, champions and the returned
    simulated data are all produced under the seed, so re-simulating the champion reproduces fitness and data"""
    c = gen_run_case(rng, i % 2)
    c.update({"algo": ["sade", "sga"][i % 2], "single_parameter": False, "islands": 1 + (i % 2), "evolutions": 2,
              "stochastic": True, "pipeline_seed": rng.randrange(1, 100000), "result_type": ["pixel", "image"][i % 2]})
    return c


def gen_run_case(rng, i):
    algo = ["sade", "sga", "nlopt"][i % 3]
    # (a multi-readout target with fewer readouts than the simulation cannot be assembled into the result
    #  tree by run_evolve — `/full_size/target` — on the pinned tree: noted, not generated here)
    c = gen_fitness_case(rng, multi=(i % 4 == 3), weights=("list" if i % 4 == 3 else None), same_times=True)
    while c["func"] == "chi2":
        c = gen_fitness_case(rng, multi=c["multi"], weights=c["weights_kind"], same_times=True)
    c.update({"stream": "run", "algo": algo, "single_parameter": i % 3 == 1, "pygmo_seed": rng.randrange(1, 100000),
              "islands": 1 + (i % 2), "evolutions": 3})
    c.pop("xs")
    return c


# ------------------------------------------------------------------ implementation side
def _variables(single):
    from pyxel.observation import ParameterValues

    vs = [ParameterValues(key=KEY + "a", values="_", boundaries=(0.0, 8.0))]
    if not single:
        vs.append(ParameterValues(key=KEY + "v", values=["_", "_"], boundaries=(0.0, 4.0)))
    return vs


def _pipeline(case=None):
    import pyx

    # `_token`: identity of the current run, readable from the problem inside the recorders (see _install_recorder)
    groups = {GROUP: [{"name": MODEL, "func": "probes.cal_probe_temp",
                       "arguments": {"a": 0.0, "v": [0.0, 0.0], "off": 0.0, "_token": _TOKEN["run"]}}]}
    if case is not None and case.get("stochastic"):
        # a random model WITHOUT its own seed: reproducible only through the declared pipeline seed
        groups["charge_measurement"] = [{"name": "noise", "func": "probes.noisy_to_image", "arguments": {"scale": 2.0}}]
    return pyx.make_pipeline(groups)


def _write_targets(case, tmp):
    import numpy as np

    paths = []
    for i, flat in enumerate(case.get("targets") or [[0.0] * _size(case["target_shape"])]):
        arr = np.array([np.nan if v is None else v for v in flat], dtype=float).reshape(case["target_shape"])
        arr = arr.astype(case.get("target_dtype", "float64"))
        np.save(f"{tmp}/target{i}.npy", arr)
        paths.append(f"{tmp}/target{i}.npy")
    wpaths = None
    if case.get("weights_kind") == "file":
        wpaths = []
        for i, flat in enumerate(case["weights"]):
            np.save(f"{tmp}/weight{i}.npy", np.array([np.nan if v is None else v for v in flat], dtype=float).reshape(case["target_shape"]))
            wpaths.append(f"{tmp}/weight{i}.npy")
    return paths, wpaths


def _size(shape):
    n = 1
    for k in shape:
        n *= k
    return n


def _readout(case):
    from pyxel.exposure import Readout

    return Readout(times=[float(i + 1) for i in range(case["times"])]) if case["multi"] else Readout()


def _fitness_function(case):
    from pyxel.pipelines import FitnessFunction

    f = case.get("func", "abs")
    return FitnessFunction(FUNCS[f], arguments={"free_parameters": case["free"]} if f == "chi2" else None)


def _input_arguments(case):
    from pyxel.observation import ParameterValues

    args = []
    if case.get("offsets"):
        args.append(ParameterValues(key=KEY + "off", values=list(case["offsets"])))
    if case.get("temps"):
        args.append(ParameterValues(key="detector.environment.temperature", values=list(case["temps"])))
    return args or None


def pair_inputs(case):
    """(off, temperature) of every processor, as declared"""
    offs, temps = case.get("offsets"), case.get("temps")
    n = min(len(x) for x in (offs, temps) if x) if (offs or temps) else 1
    return [((offs[i] if offs else 0.0), (temps[i] if temps else 200.0)) for i in range(n)]


def pair_shifts(case):
    """what the inputs of processor i add to every simulated pixel (the probe adds `off` and `temperature - 200`)"""
    return [off + (t - 200.0) for off, t in pair_inputs(case)]


def _problem(case, tmp, single=False, resolved=None):
    """the fitting problem exactly as Calibration.run_calibration builds it (`resolved`: the target / weight paths
    as a `Calibration` object resolved them, instead of the files written to `tmp`)"""
    import pyx
    from pyxel.calibration import FitRange3D, to_fit_range
    from pyxel.calibration.fitting_datatree import ModelFittingDataTree
    from pyxel.pipelines import Processor

    paths, wpaths = _write_targets(case, tmp) if resolved is None else resolved
    proc = Processor(detector=pyx.make_detector("CCD", *case["det"]), pipeline=_pipeline(case))
    return ModelFittingDataTree(
        processor=proc, variables=_variables(single), readout=_readout(case),
        simulation_output=case.get("result_type", "pixel"), generations=1, population_size=8,
        fitness_func=_fitness_function(case), file_path=None, target_filenames=paths,
        target_fit_range=to_fit_range(case["target_range"]),
        out_fit_range=FitRange3D.from_sequence(case["result_range"]),
        input_arguments=_input_arguments(case),
        weights=case["weights"] if case.get("weights_kind") == "list" else None,
        weights_from_file=wpaths, pipeline_seed=case.get("pipeline_seed"),
    )


def run_workdirs(case):
    """history: two calibrations declared one after the other in ONE process with the SAME relative file names
    (targets and weight files) but different working directories (`working_directory=` option, or the process's
    current directory); each must be fitted against the files of its own directory.  Returns, per round, the
    fitness values of the problem built from the paths the Calibration object resolved."""
    import os

    import numpy as np
    import pyxel
    from pyxel.calibration import Algorithm, Calibration

    base = tempfile.mkdtemp(prefix="c11-")
    cwd = os.getcwd()
    out = {"rounds": []}
    try:
        for k, sub in enumerate(case["rounds"]):
            d = f"{base}/dir{k}"
            os.mkdir(d)
            paths, wpaths = _write_targets(sub, d)
            rel = [os.path.basename(p) for p in paths]
            wrel = None if wpaths is None else [os.path.basename(p) for p in wpaths]
            try:
                if case["how"] == "chdir":
                    os.chdir(d)
                    wd = None
                else:
                    wd = d
                cal = Calibration(
                    target_data_path=rel, fitness_function=_fitness_function(sub), algorithm=Algorithm(type="sade", generations=1, population_size=8),
                    parameters=_variables(False), readout=_readout(sub), result_type=sub["result_type"],
                    result_fit_range=sub["result_range"], target_fit_range=sub["target_range"],
                    result_input_arguments=_input_arguments(sub), weights_from_file=wrel,
                    weights=sub["weights"] if sub["weights_kind"] == "list" else None, working_directory=wd,
                )
                resolved = ([str(p) for p in cal.target_data_path],
                            None if cal.weights_from_file is None else [str(p) for p in cal.weights_from_file])
                prob = _problem(sub, d, resolved=resolved)
                out["rounds"].append({"fitness": [float(prob.fitness(np.array(x))[0]) for x in sub["xs"]]})
            except Exception as e:  # noqa: BLE001
                out["rounds"].append({"error": common.err_kind(e), "msg": str(e)[:200]})
            finally:
                os.chdir(cwd)
        return out
    finally:
        os.chdir(cwd)
        pyxel.set_options(working_directory=None)
        shutil.rmtree(base, ignore_errors=True)


def gen_workdirs_case(rng, i):
    """two (three) declarations that differ only in the CONTENT of equally named files"""
    import copy

    first = gen_fitness_case(rng, multi=False, weights=["file", "none", "file", "list"][i % 4])
    rounds = [first]
    for _ in range(1 + (i % 2)):
        nxt = copy.deepcopy(first)
        n = _size(first["target_shape"])
        while True:
            nxt["targets"] = [[float(rng.randrange(0, 40)) for _ in range(n)] for _ in first["targets"]]
            if first["weights_kind"] == "file":
                nxt["weights"] = [[rng.choice([1.0, 2.0, 4.0, 0.5]) for _ in range(n)] for _ in first["targets"]]
            if all(expected_fitness(nxt, x) is not None and expected_fitness(nxt, x) != expected_fitness(rounds[-1], x) for x in nxt["xs"]):
                break
        nxt["target_dtype"] = "float64"
        rounds.append(nxt)
    return {"stream": "workdirs", "how": ["working_directory", "chdir"][(i // 2) % 2], "rounds": rounds}


def predicate_workdirs(case, impl):
    for k, (sub, r) in enumerate(zip(case["rounds"], impl["rounds"])):
        if "error" in r:
            return ("C11:workdir-declaration-fails", f"calibration #{k + 1} declared with relative file names under its own directory ({case['how']}) fails: {r['error']} {r['msg']}")
        for x, f in zip(sub["xs"], r["fitness"]):
            e = expected_fitness(sub, x)
            if e is not None and not feq(f, e):
                other = [j for j, o in enumerate(case["rounds"]) if j != k and expected_fitness(o, x) is not None and feq(f, expected_fitness(o, x))]
                return ("C11:fitness-on-other-files",
                        f"calibration #{k + 1} ({case['how']}: same relative target / weight file names as calibration #1, other directory): fitness({x}) = {f!r}, "
                        f"the declared data of its own directory give {float(e)!r}"
                        + (f" — it is the value for the files of calibration #{other[0] + 1}" if other else ""))
    return None


def run_ranges(case):
    """outcome of building the problem the way `Calibration.run_calibration` does: anything raised here is a
    rejection "before optimisation starts" (which function raises, and with which text, is not behaviour)"""
    tmp = tempfile.mkdtemp(prefix="c11-")
    try:
        try:
            _problem(case, tmp)
        except Exception as e:  # noqa: BLE001
            return {"outcome": "rejected", "error": common.err_kind(e), "msg": str(e)[:160]}
        return {"outcome": "accepted"}
    finally:
        shutil.rmtree(tmp, ignore_errors=True)


def run_fitness(case):
    import numpy as np

    tmp = tempfile.mkdtemp(prefix="c11-")
    try:
        try:
            prob = _problem(case, tmp)
        except Exception as e:  # noqa: BLE001
            return {"error": common.err_kind(e), "msg": str(e)[:300], "stage": "construction"}
        try:
            return {"fitness": [float(prob.fitness(np.array(x))[0]) for x in case["xs"]]}
        except Exception as e:  # noqa: BLE001
            return {"error": common.err_kind(e), "msg": str(e)[:300], "stage": "fitness"}
    finally:
        shutil.rmtree(tmp, ignore_errors=True)


_REC: list = []
_TOKEN = {"run": None}
_RECORDER = {"installed": False, "fitness": False, "marks": False}


def _token_of(problem):
    """identity of the run a problem belongs to: the `_token` argument of its pipeline's probe (public accessors only)"""
    try:
        return problem.param_processor_list[0].get(KEY + "_token")
    except Exception:  # noqa: BLE001
        return None


def _install_recorder():
    """class-level wrappers (they survive pygmo's deep copies): every fitness evaluation with its value, and a
    mark whenever the champions of an evolution are collected.  `fitness` is pygmo's problem protocol; the
    per-evolution hook is a PRIVATE method of pyxel and is looked up defensively: without it the evaluations cannot
    be split per evolution, `_RECORDER["marks"]` stays False (reported in the evidence) and the comparison falls
    back to what the returned tree says publicly (champion arrays per evolution, best final champion = best of
    all evaluations)."""
    if _RECORDER["installed"]:
        return
    _RECORDER["installed"] = True
    try:
        from pyxel.calibration.fitting_datatree import ModelFittingDataTree
    except Exception:  # noqa: BLE001
        return
    orig_f = getattr(ModelFittingDataTree, "fitness", None)
    if callable(orig_f):
        def fitness(self, x):
            out = orig_f(self, x)
            try:
                _REC.append(("eval", [float(t) for t in x], float(out[0]), _token_of(self)))
            except Exception:  # noqa: BLE001  (the recorder must never change what the code does)
                pass
            return out

        ModelFittingDataTree.fitness = fitness
        _RECORDER["fitness"] = True
    try:
        from pyxel.calibration.archipelago_datatree import ArchipelagoDataTree
    except Exception:  # noqa: BLE001
        return
    import inspect

    # the method that collects the champions after each evolution: today's name first, else the only argument-less
    # method of the class whose name speaks of champions (a rename keeps the word)
    cands = [n for n in ("_get_champions", "get_champions") if callable(getattr(ArchipelagoDataTree, n, None))]
    if not cands:
        for n, fn in vars(ArchipelagoDataTree).items():
            if "champion" in n.lower() and inspect.isfunction(fn) and len(inspect.signature(fn).parameters) == 1:
                cands.append(n)
        cands = cands if len(cands) == 1 else []
    name = cands[0] if cands else None
    if name is None:
        return
    orig_c = getattr(ArchipelagoDataTree, name)

    def champs(self, *a, **kw):
        try:
            _REC.append(("mark", None, None, _token_of(getattr(self, "problem", None))))
        except Exception:  # noqa: BLE001
            pass
        return orig_c(self, *a, **kw)

    setattr(ArchipelagoDataTree, name, champs)
    _RECORDER["marks"] = True


def run_calibration(case):
    import numpy as np
    import pyx
    import pyxel
    from pyxel.calibration import Algorithm, Calibration
    from pyxel.exposure import Exposure

    import uuid

    _install_recorder()
    _TOKEN["run"] = uuid.uuid4().hex
    single = case["single_parameter"]
    tmp = tempfile.mkdtemp(prefix="c11-")
    try:
        paths, wpaths = _write_targets(case, tmp)
        algo = {"sade": dict(type="sade", generations=2, population_size=8),
                "sga": dict(type="sga", generations=2, population_size=6),
                "nlopt": dict(type="nlopt", generations=1, population_size=5, maxeval=10)}[case["algo"]]
        if case.get("nlopt"):
            algo = {**algo, **case["nlopt"]}
        cal = Calibration(
            target_data_path=paths, fitness_function=_fitness_function(case), algorithm=Algorithm(**algo),
            parameters=_variables(single), readout=_readout(case), result_type=case["result_type"],
            result_fit_range=case["result_range"], target_fit_range=case["target_range"],
            result_input_arguments=_input_arguments(case), pygmo_seed=case["pygmo_seed"],
            num_islands=case["islands"], num_evolutions=case["evolutions"],
            weights=case["weights"] if case["weights_kind"] == "list" else None, weights_from_file=wpaths,
            pipeline_seed=case.get("pipeline_seed"),
        )
        _REC.clear()
        run_token = _TOKEN["run"]
        try:
            dt = pyxel.run_mode(cal, pyx.make_detector("CCD", *case["det"]), _pipeline(case))
        except Exception as e:  # noqa: BLE001
            out = {"error": common.err_kind(e), "msg": str(e)[:300], "stage": "run"}
            try:  # is it the problem's constructor that refuses the declaration (before any optimisation)?
                _problem(case, tmp, single=single)
            except Exception:  # noqa: BLE001
                out["stage"] = "construction"
            return out
        # only what THIS run's problem evaluated (island threads of an earlier, failed run may still be alive)
        rec = [r for r in list(_REC) if r[3] == run_token]
        out = {"champion_fitness": np.asarray(dt["/champion/fitness"].values, dtype=float).tolist(),
               "champion_decision": np.asarray(dt["/champion/decision"].values, dtype=float).tolist(),
               "champion_parameters": np.asarray(dt["/champion/parameters"].values, dtype=float).tolist()}
        evols, cur = [], []
        for r in rec:
            if r[0] == "mark":
                evols.append(cur)
                cur = []
            else:
                cur.append(r[2])
        n_marks = sum(1 for r in rec if r[0] == "mark")
        out["evaluated"] = evols if (_RECORDER["marks"] and n_marks == case["evolutions"]) else None
        out["evaluated_all"] = [r[2] for r in rec if r[0] == "eval"] if _RECORDER["fitness"] else None
        # re-evaluate the last champions on an identically built problem
        prob = _problem(case, tmp, single=single)
        out["refit"] = [float(prob.fitness(np.array(isl[-1]))[0]) for isl in out["champion_decision"]]
        if not case.get("check_simulated", True):
            return out
        # the returned simulated data vs an independent exposure at the reported champion parameters
        rt = case["result_type"]
        try:
            sim = np.asarray(dt[f"/simulated/{rt}"].load().values, dtype=float)
            full = np.asarray(dt[f"/full_size/simulated_{rt}"].load().values, dtype=float)
            out["simulated_shape"], out["full_shape"] = list(sim.shape), list(full.shape)
        except Exception as e:  # noqa: BLE001
            out["load_error"] = {"kind": common.err_kind(e), "msg": str(e)[:200]}
            return out
        # the declared figure of merit evaluated on the RETURNED simulated data (one value per island)
        dims = dims_of(case)
        offs = pair_shifts(case)
        returned = []
        for isl in range(sim.shape[0]):
            total = Fraction(0)
            for pi in range(min(len(offs), len(case["targets"]), sim.shape[1])):
                s_flat = [None if v != v else Fraction(float(v)) for v in sim[isl, pi].ravel().tolist()]
                t_flat = flat3(restrict(to3(case["targets"][pi], case["target_shape"]), dims, "t"))
                w_flat = flat3(restrict(weights3(case, pi), dims, "t"))
                if len(s_flat) != len(t_flat):
                    total = None
                    break
                total += fom(case["func"], case["free"], s_flat, t_flat, w_flat)
            returned.append(None if total is None else float(total))
        out["returned_fitness"] = returned
        indep = []
        for isl, params in enumerate(out["champion_parameters"]):
            p = params[-1]
            per_proc = []
            for off, temp in pair_inputs(case):
                pipe = _pipeline(case)
                args = pipe.charge_collection.models[0].arguments
                args["a"] = p[0]
                if not single:
                    args["v"] = [p[1], p[2]]
                args["off"] = off
                res = pyxel.run_mode(Exposure(readout=_readout(case), pipeline_seed=case.get("pipeline_seed")), pyx.make_detector("CCD", *case["det"], environment={"temperature": temp}), pipe)
                per_proc.append(np.asarray(res[rt].values, dtype=float))
            indep.append(per_proc)
        indep = np.array(indep)  # island, processor, time, y, x
        rr = dims_of(case)
        sl = tuple(slice(d["rRange"][0], d["rRange"][1]) for d in rr)
        out["full_equal"] = bool(full.shape == indep.shape and np.array_equal(full, indep))
        exp_sim = indep[(slice(None), slice(None)) + sl]
        out["simulated_equal"] = bool(sim.shape == exp_sim.shape and np.array_equal(sim, exp_sim))
        return out
    finally:
        shutil.rmtree(tmp, ignore_errors=True)


# ------------------------------------------------------------------ the statement, evaluated in Python
def expected_sim(case, x, off):
    """what the probe writes: base[t, y, x] + (sum of all numeric arguments); image = floor"""
    rows, cols = case["det"]
    s = Fraction(sum(x)) + Fraction(off)
    return [[[Fraction(y * cols + c + 100 * t) + s for c in range(cols)] for y in range(rows)] for t in range(case["times"])]


def _sl(grid, r):
    return grid[slice(r[0], r[1])]


def restrict(grid3, dims, side):
    key = "tRange" if side == "t" else "rRange"
    return [[_sl(row, dims[2][key]) for row in _sl(plane, dims[1][key])] for plane in _sl(grid3, dims[0][key])]


def to3(flat, shape):
    if len(shape) == 2:
        shape = [1] + list(shape)
    t, r, c = shape
    return [[[flat[(i * r + j) * c + k] for k in range(c)] for j in range(r)] for i in range(t)]


def flat3(g):
    return [v for plane in g for row in plane for v in row]


def weights3(case, i):
    shape = case["target_shape"]
    n = _size(shape)
    if case["weights_kind"] == "list":
        return to3([case["weights"][i]] * n, shape)
    if case["weights_kind"] == "file":
        return to3(case["weights"][i], shape)
    return to3([1.0] * n, shape)


def fom(func, free, sim, tgt, w):
    """the three figures of merit on flat lists (None = NaN), exact"""
    diff = [None if (t is None or s is None) else Fraction(t) - Fraction(s) for s, t in zip(sim, tgt)]
    # a NaN weight makes its term NaN, which `nansum` skips (the degrees of freedom of chi2 count finite residuals)
    if func == "abs":
        return sum(abs(d * Fraction(k)) for d, k in zip(diff, w) if d is not None and k is not None)
    if func == "sq":
        return sum(d * d * Fraction(k) for d, k in zip(diff, w) if d is not None and k is not None)
    num = sum((d / Fraction(k)) ** 2 for d, k in zip(diff, w) if d is not None and k is not None)
    dof = sum(1 for d in diff if d is not None) - free
    return num / dof if dof else None


def expected_fitness(case, x):
    dims = dims_of(case)
    offs = pair_shifts(case)
    total = Fraction(0)
    n = min(len(offs), len(case["targets"]))
    for i in range(n):
        sim = flat3(restrict(expected_sim(case, x, offs[i]), dims, "r"))
        tgt = flat3(restrict(to3(case["targets"][i], case["target_shape"]), dims, "t"))
        w = flat3(restrict(weights3(case, i), dims, "t"))
        term = fom(case["func"], case["free"], sim, tgt, w)
        if term is None:
            return None
        total += term
    return total


def feq(a, b, rel=1e-12):
    import math

    if any(isinstance(t, float) and not math.isfinite(t) for t in (a, b)):
        return False  # every expected value is finite
    fa, fb = Fraction(a), Fraction(b)
    return fa == fb or abs(fa - fb) <= Fraction(rel) * max(abs(fa), abs(fb))


def predicate_ranges(case, impl):
    ok, why = spec_ranges(case)
    if len(case["target_range"]) == 6:
        return None
    if impl["outcome"] == "accepted" and not ok:
        return ("C11:fit-range-not-rejected", f"target range {case['target_range']} / result range {case['result_range']} accepted although " + why)
    declared_ints = bool(case["target_range"]) and bool(case["result_range"]) and all(b is not None for b in case["target_range"] + case["result_range"])
    nonempty = all(np_extent(d["tSize"], d["tRange"]) > 0 for d in dims_of(case))
    if impl["outcome"] == "rejected" and ok and declared_ints and nonempty:
        return ("C11:fit-range-equal-extent-rejected",
                f"target range {case['target_range']} / result range {case['result_range']} select regions of equal extent inside the target "
                f"(target {case['target_shape']}, detector {case['det']}, {case['times']} readout(s)) but are rejected: {impl['error']} {impl['msg']}")
    return None


def predicate_fitness(case, impl):
    sub = case["weights_kind"] == "list" and case["target_range"] != [0, case["det"][0], 0, case["det"][1]]
    if "error" in impl:
        if impl.get("stage") == "construction":
            return ("C11:fit-range-equal-extent-rejected",
                    f"target range {case['target_range']} / result range {case['result_range']} select regions of equal extent inside the target "
                    f"but are rejected: {impl['error']} {impl['msg']}")
        return ("C11:fitness-scalar-weights-subrange" if sub else "C11:fitness-fails",
                f"fitness evaluation failed on valid fit ranges (weights: {case['weights_kind']}): {impl['error']} {impl['msg']}")
    for x, f in zip(case["xs"], impl["fitness"]):
        e = expected_fitness(case, x)
        if e is None:
            continue
        if not feq(f, e):
            key = "C11:fitness-weights-ignored" if (case["weights_kind"] != "none" and feq(f, expected_fitness({**case, "weights_kind": "none"}, x))) else (
                "C11:fitness-scalar-weights-subrange" if sub else "C11:fitness-value")
            return (key, f"fitness({x}) = {f!r} but the declared figure of merit '{case['func']}' on the declared ranges/weights ({case['weights_kind']}) over {len(case['targets'])} target(s) is {float(e)!r}")
    return None


def predicate_run(case, impl):
    if "error" in impl:
        if impl.get("stage") == "construction":
            return ("C11:fit-range-equal-extent-rejected",
                    f"target range {case['target_range']} / result range {case['result_range']} select regions of equal extent inside the target "
                    f"but the calibration is rejected: {impl['error']} {impl['msg']}")
        return ("C11:run-fails", f"calibration failed: {impl['error']} {impl.get('msg', '')}")
    for isl, fs in enumerate(impl["champion_fitness"]):
        for a, b in zip(fs, fs[1:]):
            if b > a:
                return ("C11:champion-not-monotone", f"island {isl}: champion fitness per evolution {fs}")
    for isl, (fs, re) in enumerate(zip(impl["champion_fitness"], impl["refit"])):
        if not feq(fs[-1], re):
            return ("C11:champion-fitness-not-reproduced", f"island {isl}: reported champion fitness {fs[-1]!r}, re-simulating the reported decision gives {re!r}")
    if not case.get("check_simulated", True):
        return None
    if "load_error" in impl:
        key = "C11:resimulation-single-parameter" if case["single_parameter"] else "C11:simulated-unloadable"
        return (key, f"the returned simulated data cannot be computed ({'one calibrated parameter' if case['single_parameter'] else 'any calibration'}): "
                     f"{impl['load_error']['kind']} {impl['load_error']['msg']}")
    for isl, (fs, rf) in enumerate(zip(impl["champion_fitness"], impl.get("returned_fitness", []))):
        if rf is None or not feq(fs[-1], rf, 1e-9):
            return ("C11:returned-data-fitness-mismatch",
                    f"island {isl}: reported champion fitness {fs[-1]!r} but the figure of merit of the returned /simulated data on the declared "
                    f"ranges/weights is {rf!r}" + (f" (pipeline_seed={case['pipeline_seed']}, stochastic model without own seed)" if case.get("stochastic") else ""))
    if not impl["full_equal"]:
        return ("C11:simulated-data-mismatch", "/full_size/simulated differs from an independent exposure at the reported champion parameters")
    if not impl["simulated_equal"]:
        return ("C11:simulated-data-mismatch", "/simulated differs from the independent exposure restricted to the result fit range")
    return None


# ------------------------------------------------------------------ Lean requests
def q(v):
    return None if v is None else common.frac(v)


def lean_fitness_request(case, x):
    offs = pair_shifts(case)
    n = min(len(offs), len(case["targets"]))
    dims = dims_of(case)
    sims = [[[[q(v) for v in row] for row in plane] for plane in expected_sim(case, x, offs[i])] for i in range(n)]
    tgts = [[[[q(v) for v in row] for row in plane] for plane in to3(case["targets"][i], case["target_shape"])] for i in range(n)]
    ws = [[[[q(v) for v in row] for row in plane] for plane in weights3(case, i)] for i in range(n)]
    return {"op": "fitness", "func": case["func"], "free": case["free"],
            "tr": [d["tRange"] for d in dims], "rr": [d["rRange"] for d in dims], "sims": sims, "tgts": tgts, "ws": ws}


def body(ck: common.Check):
    ck.obligations(["PyxelModel.Props.C11"], ["PyxelModel.Drive.C11"])
    rng = ck.rng
    quick = ck.tier == "quick"
    rcases = [gen_ranges_case(rng) for _ in range(120 if quick else 3200)]
    # the two documented end-point patterns, always present
    rcases.append({"stream": "ranges", "multi": False, "target_shape": [6, 6], "det": [6, 6], "times": 1,
                   "target_range": [0, 5, 0, 5], "result_range": [2, 5, 0, 5], "relation": "unequal"})
    rcases.append({"stream": "ranges", "multi": False, "target_shape": [6, 6], "det": [6, 6], "times": 1,
                   "target_range": [0, 3, 0, 5], "result_range": [2, 5, 0, 5], "relation": "shifted"})
    fcases = [gen_fitness_case(rng) for _ in range(54 if quick else 950)]
    fcases += [gen_fitness_case(rng, multi=True, weights=w) for w in ("list", "file", "list")]
    # directed: every figure of merit with a NaN in a weight file (the pixel carries no weight: its term is skipped)
    for func in ("chi2", "chi2", "abs", "sq"):
        while True:
            c = gen_fitness_case(rng, multi=False, weights="file")
            if c["func"] != func:
                continue
            ty, _, tx, _ = c["target_range"]
            c["weights"][0][ty * c["target_shape"][-1] + tx] = None  # inside the fitted region
            if all(expected_fitness(c, x) is not None for x in c["xs"]):
                break
        fcases.append(c)
    runs = [gen_run_case(rng, i) for i in range(6 if quick else 36)]
    runs += [gen_policy_run_case(rng, i) for i in range(4 if quick else 24)]
    runs += [gen_stochastic_run_case(rng, i) for i in range(2 if quick else 12)]
    reqs = [{"op": "check", "dims": dims_of(c)} for c in rcases]
    reqs += [lean_fitness_request(c, x) for c in fcases for x in c["xs"]]
    answers = LeanDriver("C11").batch(reqs)
    for a in answers:
        if "bad" in a:
            raise common.InfraError(f"driver rejected a request: {a}")
    # ---- ranges
    for case, ans in zip(rcases, answers):
        impl = run_ranges(case)
        ok, _ = spec_ranges(case)
        ck.case(case, nontrivial=bool(case["target_range"] or case["result_range"]), stream="ranges")
        ck.count("relation=" + case["relation"])
        ck.count("ranges:" + impl["outcome"] + ("/spec-ok" if ok else "/spec-bad"))
        if ans["spec"] != ok:
            raise common.InfraError(f"numpy-slicing oracle and Lean rangesOk disagree on {case}: {ans}")
        if (ans["model"] == "ok") != ans["spec"]:
            raise common.InfraError(f"driver contradicts theorem check_iff_spec on {case}: {ans}")
        if len(case["target_range"]) == 6:
            ck.count("noted:3d-target-range")
            continue
        pv = predicate_ranges(case, impl)
        if pv:
            ck.violation(pv[0], pv[1], {"case": case, "impl": impl})
        model_out = "accepted" if ans["model"] == "ok" else "rejected"
        if impl["outcome"] != model_out:
            ck.disagreement("ranges", case, impl, {"model": ans["model"], "pinned-tree model": ans["old"]})
    # ---- fitness
    k = len(rcases)
    for case in fcases:
        impl = run_fitness(case)
        ck.case(case, nontrivial=True, stream="fitness")
        ck.count("func=" + case["func"])
        ck.count("weights=" + case["weights_kind"])
        ck.count("nan_in_weight_file", int(case["weights_kind"] == "file" and any(v is None for w in case["weights"] for v in w)))
        ck.count("pairs=%d" % len(case["targets"]))
        ck.count("multi_readout", int(case["multi"]))
        ck.count("shifted_ranges", int(case["target_range"] != case["result_range"][-4:]))
        ck.count("target_dtype=" + case.get("target_dtype", "float64"))
        ck.count("detector_field_inputs", int(bool(case.get("temps"))))
        ck.count("fractional_scalar_weight_on_integer_target", int(case["weights_kind"] == "list" and case.get("target_dtype", "float64") != "float64" and any(w != int(w) for w in case["weights"])))
        pv = predicate_fitness(case, impl)
        if pv:
            ck.violation(pv[0], pv[1], {"case": case, "impl": impl})
        for i, x in enumerate(case["xs"]):
            ans = answers[k]
            k += 1
            m = Fraction(ans["model"][0], ans["model"][1])
            e = expected_fitness(case, x)
            if e is not None and m != e and not (isinstance(e, float) and feq(m, e)):
                # (the oracle falls back to float arithmetic on some NaN-weight cases: equal within 1e-12 is agreement)
                raise common.InfraError(f"python oracle {e} and Lean fitnessTotal {m} disagree on {case}")
            if e is not None and "fitness" in impl and not feq(impl["fitness"][i], m):
                ck.disagreement("fitness", case, impl["fitness"][i], ans["model"])
    # ---- histories: equally named files under different working directories
    for i in range(4 if quick else 40):
        wc = gen_workdirs_case(rng, i)
        impl = run_workdirs(wc)
        ck.case(wc, nontrivial=True, stream="workdirs")
        ck.count("workdirs:" + wc["how"] + "/weights=" + wc["rounds"][0]["weights_kind"])
        pv = predicate_workdirs(wc, impl)
        if pv:
            ck.violation(pv[0], pv[1], {"case": wc, "impl": impl})
    # ---- full calibrations
    run_impls = [run_calibration(c) for c in runs]
    creqs = []
    for impl in run_impls:
        ev = impl.get("evaluated") or [[0.0]]
        first = ev[0] or [0.0]
        creqs.append({"op": "champions", "prev": common.frac(first[0]), "evols": [[common.frac(v) for v in e] for e in ([first[1:]] + ev[1:])]})
    for case, impl, ans in zip(runs, run_impls, LeanDriver("C11").batch(creqs)):
        ck.case(case, nontrivial="error" not in impl, stream="run:" + case["algo"])
        ck.count("run_single_parameter", int(case["single_parameter"]))
        ck.count("run_multi_readout", int(case["multi"]))
        ck.count("run_nlopt_policy=" + (case["nlopt"]["nlopt_selection"] if case.get("nlopt") else "default"))
        ck.count("run_evolutions=%d" % case["evolutions"])
        ck.count("run_seeded_stochastic", int(bool(case.get("stochastic"))))
        pv = predicate_run(case, impl)
        if pv:
            ck.violation(pv[0], pv[1], {"case": case, "impl": {k2: v for k2, v in impl.items() if k2 != "evaluated"}})
        if "error" not in impl and impl.get("evaluated"):
            ck.count("recorder:per-evolution")
            # the best champion over the islands is the best fitness evaluated so far (pygmo's contract)
            model = [Fraction(a, b) for a, b in ans["model"]]
            best = [min(Fraction(fs[e]) for fs in impl["champion_fitness"]) for e in range(len(model))]
            if model != best:
                ck.disagreement("run", case, [float(b) for b in best], [float(m) for m in model])
        elif "error" not in impl and impl.get("evaluated_all"):
            # the private per-evolution hook was not found (renamed?): public fallback — the champion arrays of the
            # returned tree (monotone per island: predicate above) and best final champion = best of ALL evaluations
            ck.count("recorder:fallback-public-observations")
            best_final = min(Fraction(fs[-1]) for fs in impl["champion_fitness"])
            best_eval = min(Fraction(v) for v in impl["evaluated_all"])
            if best_final != best_eval:
                ck.disagreement("run", case, float(best_final), float(best_eval))
        elif "error" not in impl:
            ck.count("recorder:unavailable")  # only the returned tree is judged (monotone, re-fit, returned data)
    ck.rule = ("ranges: targets 2-7 x 2-7 (x 1-4 readouts), detector same or larger, range pairs equal / shifted / unequal / out of bounds / "
               "wild (None, negative, beyond the size) / undeclared, 4- and 6-value result ranges, + the two documented end-point patterns; "
               "fitness: 1-3 target/input pairs (input arguments over a model argument and/or the detector field environment.temperature, own value per target), target files of dtype float64 / uint8 / uint16 / uint32 / int32, weights incl. fractional ones (0.25, 0.5, 1.75), integer data with NaNs, equal and shifted ranges, weights none / per-target list / files, "
               "abs / squared / reduced chi2, single and multi readout, pixel / signal / image; histories of 2-3 calibrations declared in one process with "
               "the same relative target / weight file names under different directories (working_directory option or os.chdir); run: sade / sga / nlopt, 1-2 islands, 3 evolutions, "
               "+ nlopt with selection worst / random and replacement best, 3-6 evolutions, maxeval 3-6 (population best != champion): champion "
               "monotone per island and best champion = best fitness evaluated so far after every evolution; "
               "+ seeded-stochastic runs (pipeline_seed declared, noise model without own seed): /simulated and /full_size vs an independent seeded "
               "exposure at the reported parameters; every run with loaded data: figure of merit of the RETURNED /simulated data = reported champion fitness; "
               "one- and three-component decision vectors; non-trivial = some range declared")
    ck.extra["recorder"] = dict(_RECORDER)
    ck.assumptions = ["a 6-value *target* range on a multi-readout target fails in the constructor with \"Dimensions {'time'} do not exist\" on the "
                      "pinned tree (dimension named readout_time); counted as noted:3d-target-range, not judged",
                      "equal-extent integer ranges rejected by the checker are reported (DESIGN section 7), undeclared (None) ranges are only compared with the model",
                      "reduced chi2 compared with relative tolerance 1e-12 (one division); all other data are integers / dyadic: exact"]
    ck.trusted_base.append("C11: numba-compiled figures of merit = their numpy text; pygmo champion = best evaluated so far (checked on every run); xarray isel = Python slicing")


def _run_case(case):
    return {"ranges": run_ranges, "fitness": run_fitness, "run": run_calibration, "workdirs": run_workdirs}[case["stream"]](case)


if __name__ == "__main__":
    if len(sys.argv) > 2 and sys.argv[1] == "--replay":
        common.ensure_repo_on_path()
        rp = json.load(open(sys.argv[2]))
        case = rp["replay"].get("case")
        if case is None:
            print("replay names a broken obligation/correspondence, no concrete input:", rp["what"])
            sys.exit(1)
        impl = _run_case(case)
        pv = {"ranges": predicate_ranges, "fitness": predicate_fitness, "run": predicate_run, "workdirs": predicate_workdirs}[case["stream"]](case, impl)
        print("impl:", {k: v for k, v in impl.items() if k != "evaluated"})
        print("REPRODUCED: " + pv[1] if pv else "not reproduced (property holds on this input)")
        sys.exit(1 if pv else 0)
    sys.exit(run_check("C11", body))
