"""C14 — charge is accounted identically as arrays and as positioned clusters.

obligations: lean/PyxelModel/Props/C14.lean (all geometries, pixel sizes, histories)
tie to code : differential run of the real `detector.charge` bucket (add_charge_array, add_charge /
              add_charge_dataframe, .array, .frame, remove_from_frame, empty) against the Lean model on
              generated interleavings; positions travel as the exact rationals of the doubles.
predicate   : an independent per-pixel accumulator with an exact rational floor (fractions.Fraction)
              for the binning — never `math.floor(u / w)` on doubles.
isolation   : the implementation runs in worker subprocesses; histories with clusters outside the
              sensitive area are run twice in sacrificial workers, once with NUMBA_BOUNDSCHECK=1 (an
              out-of-bounds index of the @njit loop becomes an IndexError instead of a write outside
              the buffer) and once plainly (a died / hung worker is reported, never takes the check down).
"""

from __future__ import annotations

import json
import math
import os
import subprocess
import sys
import threading
import warnings
from fractions import Fraction

import common
from common import LeanDriver, run_check

warnings.filterwarnings("ignore")

DYADIC = [1.0, 10.0, 0.5, 2.5, 18.0, 0.25, 1000.0, 7.5, 0.125, 15.0, 100.0]
NONDYADIC = [0.3, 0.1, 7.3, 0.7, 3.3, 1e-3, 999.9, 12.6]


def fr(x):
    f = Fraction(x)
    return [f.numerator, f.denominator]


def is_dyadic_size(s: float) -> bool:
    return s in DYADIC


# ------------------------------------------------------------------ generator
def gen_pos(rng, s: float, n: int, where: str) -> float:
    """one coordinate for a pixel axis of `n` pixels of size `s`"""
    k = rng.randrange(n)
    if where == "in":
        c = rng.choice(["centre", "centre", "border", "border+", "border-", "lo", "hi-", "rand", "rand", "negzero"])
        if c == "centre":
            return (k + 0.5) * s
        if c == "border":
            return float(k * s)
        if c == "border+":
            return math.nextafter(float(k * s), math.inf)
        if c == "border-":
            return math.nextafter(float((k + 1) * s), -math.inf)
        if c == "lo":
            return 0.0
        if c == "negzero":
            return -0.0
        if c == "hi-":
            return math.nextafter(float(n * s), -math.inf)
        return rng.uniform(0.0, n * s * 0.999)
    c = rng.choice(["neg-ulp", "neg-half", "neg-k", "edge", "edge+", "beyond-half", "beyond-k", "far", "neg-far"])
    if c == "neg-ulp":
        return -5e-324 if rng.random() < 0.5 else -s * 1e-9
    if c == "neg-half":
        return -0.5 * s
    if c == "neg-k":
        return -float(rng.randint(1, n + 2)) * s
    if c == "edge":
        return float(n * s)
    if c == "edge+":
        return math.nextafter(float(n * s), math.inf)
    if c == "beyond-half":
        return (n + 0.5) * s
    if c == "beyond-k":
        return float((n + rng.randint(1, 3 * n + 3)) * s)
    if c == "far":
        return float(rng.choice([1e3, 1e6, 123456.0]) * n * s)
    return -float(rng.choice([1e3, 1e6])) * n * s


def exact_bin(case, v: float, u: float):
    """the statement: row = floor(v / h), column = floor(u / w), exact; None outside the area"""
    iv = math.floor(Fraction(v) / Fraction(case["h"]))
    ih = math.floor(Fraction(u) / Fraction(case["w"]))
    if 0 <= iv < case["rows"] and 0 <= ih < case["cols"]:
        return iv, ih
    return None


def gen_clusters(rng, case, p_out: float):
    n = rng.choice([1, 1, 2, 3, 5, 8])
    cs = []
    for _ in range(n):
        out_v = rng.random() < p_out / 2
        out_u = rng.random() < p_out / 2
        v = gen_pos(rng, case["h"], case["rows"], "out" if out_v else "in")
        u = gen_pos(rng, case["w"], case["cols"], "out" if out_u else "in")
        cs.append([rng.choice([0, 1, 1, 2, 3, 7, 50, 2**20]), v, u])
    return cs


def gen_array(rng, rows, cols):
    style = rng.random()
    if style < 0.1:
        return [[0] * cols for _ in range(rows)]
    dens = rng.choice([0.2, 0.5, 1.0])
    return [[rng.randint(1, 9) if rng.random() < dens else 0 for _ in range(cols)] for _ in range(rows)]


def gen_case(rng, stream: str):
    rows, cols = rng.randint(1, 5), rng.randint(1, 5)
    pool = DYADIC if rng.random() < 0.55 else DYADIC + NONDYADIC + NONDYADIC
    case = {"det": rng.choice(["CCD", "CMOS", "APD", "MKID"]), "rows": rows, "cols": cols,
            "h": rng.choice(pool), "w": rng.choice(pool), "ops": []}
    if rng.random() < 0.35:
        case["geo_via"] = rng.choice(["setter-vh", "setter-hv", "processor-vh", "processor-hv"])
        case["geo0"] = [rng.choice([x for x in DYADIC + NONDYADIC if x not in (case["h"], case["w"])]) for _ in range(2)]
    p_out = {"inside": 0.0, "outside": 0.5, "remove": 0.15}[stream]
    n = rng.choice([2, 3, 4, 6, 8, 10])
    for _ in range(n):
        r = rng.random()
        if r < 0.27:
            a = gen_array(rng, rows, cols)
            if rng.random() < 0.06:
                a = [row + [1] for row in a] if rng.random() < 0.5 else a + [[1] * cols]
            op = ["array", a, rng.choice(["float64", "float64", "float32", "float16"])]
            if rng.random() < 0.45:
                op.append({"layout": rng.choice(LAYOUTS)})    # same logical values, non-C memory layout
            case["ops"].append(op)
        elif r < 0.62:
            # 4th element: seed of a permutation of the 13 DataFrame columns / of the keyword order (None = canonical order)
            case["ops"].append(["clusters", gen_clusters(rng, case, p_out), rng.choice(["add_charge", "dataframe", "dataframe"]),
                                rng.choice([None, rng.randrange(1, 10**6), rng.randrange(1, 10**6)])])
        elif r < 0.78:
            case["ops"].append(["read"])
        elif r < 0.82:
            case["ops"].append(["roundtrip", rng.choice(["dict", "dict", "asdf"])])
        elif r < 0.9:
            case["ops"].append(rng.choice([["reset"], ["emptyAll", True], ["emptyAll", False]]))
        elif stream == "remove":
            ids = [] if rng.random() < 0.2 else sorted(rng.sample(range(12), rng.randint(1, 4)))
            case["ops"].append(["remove", ids])
            while rng.random() < 0.5:      # further removals on the now non-consecutive index labels
                if rng.random() < 0.4:
                    case["ops"].append(["read"])
                case["ops"].append(["remove", sorted(rng.sample(range(10), rng.randint(1, 3)))])
        else:
            case["ops"].append(["read"])
    case["ops"].append(["read"])
    return case


def gen_alias_case(rng):
    """the caller keeps and re-uses its ndarray objects: the same object is added several times (with other additions in
    between) and is overwritten / zeroed by the caller after the call.  `["array", grid, dtype, {"buf": k}]` adds the
    persistent caller array k (grid = the values the caller has in it at that moment); `["mutate", k, grid]` is the caller
    writing new values into its own array k — never a detector operation, so the accounting must not move."""
    rows, cols = rng.randint(1, 4), rng.randint(1, 4)
    case = {"det": rng.choice(["CCD", "CMOS", "APD", "MKID"]), "rows": rows, "cols": cols,
            "h": rng.choice(DYADIC), "w": rng.choice(DYADIC), "ops": []}
    bufs = {}
    dts = {}
    n = rng.choice([3, 4, 5, 6, 8])
    for step in range(n):
        r = rng.random()
        if r < 0.5 or step == 0:
            k = rng.choice(list(bufs)) if bufs and rng.random() < 0.6 else len(bufs)
            if k not in bufs:
                bufs[k] = gen_array(rng, rows, cols) if rng.random() < 0.9 else [[0] * cols for _ in range(rows)]
                dts[k] = rng.choice(["float64", "float64", "float64", "float32"])
            meta = {"buf": k}
            if k % 3 == 2:
                meta["layout"] = LAYOUTS[k % len(LAYOUTS)]
            case["ops"].append(["array", [list(row) for row in bufs[k]], dts[k], meta])
        elif r < 0.65 and bufs:
            k = rng.choice(list(bufs))
            bufs[k] = [[0] * cols for _ in range(rows)] if rng.random() < 0.5 else gen_array(rng, rows, cols)
            case["ops"].append(["mutate", k, [list(row) for row in bufs[k]]])
        elif r < 0.75:
            case["ops"].append(["array", gen_array(rng, rows, cols), rng.choice(["float64", "float32"])])
        elif r < 0.85:
            case["ops"].append(["clusters", gen_clusters(rng, case, 0.0), "add_charge", None])
        elif r < 0.93:
            case["ops"].append(["read"])
        else:
            case["ops"].append(["reset"])
    case["ops"].append(["read"])
    return case


def directed_alias_cases():
    a, b, z = [[1, 0, 2], [0, 3, 0]], [[0, 5, 0], [7, 0, 0]], [[0, 0, 0], [0, 0, 0]]
    base = {"det": "CCD", "rows": 2, "cols": 3, "h": 10.0, "w": 10.0}
    A = ["array", a, "float64", {"buf": 0}]
    B = ["array", b, "float64", {"buf": 1}]
    return [
        dict(base, ops=[A, B, A, ["read"]]),                                    # 2a + b
        dict(base, ops=[A, ["mutate", 0, z], ["read"]]),                        # a, whatever the caller does afterwards
        dict(base, ops=[A, ["mutate", 0, b], ["array", b, "float64", {"buf": 0}], ["read"]]),   # a + b
        dict(base, ops=[["array", z, "float64"], A, ["read"], A, ["read"], ["reset"], A, B, A, ["read"]]),
        dict(base, ops=[A, ["clusters", [[4, 5.0, 5.0]], "dataframe", None], A, ["mutate", 0, z], ["read"]]),
    ]


def directed_remove_cases():
    """several partial removals in a row: after the first one the index labels are no longer 0..n-1"""
    base = {"det": "CCD", "rows": 2, "cols": 3, "h": 10.0, "w": 10.0}
    six = [[1 + k, 5.0 + 10.0 * (k // 3), 5.0 + 10.0 * (k % 3)] for k in range(6)]      # one cluster per pixel, numbers 1..6
    out = []
    for first, second in (([1], [3]), ([0], [1]), ([0, 2], [4, 5]), ([4], [5]), ([2], [2, 3])):
        out.append(dict(base, ops=[["clusters", six, "add_charge", None], ["remove", first], ["remove", second], ["read"]]))
        out.append(dict(base, ops=[["clusters", six, "dataframe", None], ["read"], ["remove", first], ["read"], ["remove", second], ["read"],
                                   ["clusters", [[9, 5.0, 5.0]], "add_charge", None], ["remove", [1]], ["read"]]))
    out.append(dict(base, ops=[["array", [[1, 2, 3], [4, 5, 6]], "float64"], ["clusters", [[7, 5.0, 5.0]], "add_charge", None],
                               ["remove", [0, 6]], ["remove", [2]], ["read"], ["remove", [1, 3, 4, 5]], ["read"]]))
    return out


def directed_geometry_cases():
    """pixel sizes given after construction (Geometry setters in both orders, Processor.set): clusters at the centre of every pixel"""
    out = []
    for via in ("setter-vh", "setter-hv", "processor-vh", "processor-hv"):
        for (h, w, h0, w0) in ((10.0, 5.0, 2.5, 18.0), (0.5, 7.5, 15.0, 1.0)):
            rows, cols = 3, 4
            cs = [[1 + i * cols + j, (i + 0.5) * h, (j + 0.5) * w] for i in range(rows) for j in range(cols)]
            out.append({"det": "CCD", "rows": rows, "cols": cols, "h": h, "w": w, "geo_via": via, "geo0": [h0, w0],
                        "ops": [["clusters", cs, "add_charge", None], ["read"], ["array", [[1] * cols] * rows, "float64"], ["read"]]})
    return out


def directed_detector_cases():
    """detector-level resets with NO read between the additions and the reset, and dictionary / file round trips of the
    detector in the middle of a history, for the four detector classes"""
    out = []
    a = [[1, 0, 2], [0, 3, 0]]
    cl = [[4, 5.0, 5.0], [5, 15.0, 5.0], [6, 5.0, 25.0]]
    for det in ("CCD", "CMOS", "APD", "MKID"):
        base = {"det": det, "rows": 2, "cols": 3, "h": 10.0, "w": 10.0}
        for reset in (True, False):
            out.append(dict(base, ops=[["clusters", cl, "add_charge", None], ["emptyAll", reset], ["read"], ["array", a, "float64"], ["read"]]))
            out.append(dict(base, ops=[["array", a, "float64"], ["clusters", cl, "dataframe", None], ["emptyAll", reset],
                                       ["clusters", cl[:1], "add_charge", None], ["read"]]))
        for how in ("dict", "asdf"):
            out.append(dict(base, ops=[["clusters", cl, "add_charge", None], ["roundtrip", how], ["read"], ["array", a, "float64"], ["read"]]))
            out.append(dict(base, ops=[["array", a, "float64"], ["roundtrip", how], ["read"], ["clusters", cl, "add_charge", None], ["read"],
                                       ["roundtrip", how], ["read"], ["remove", [0]], ["roundtrip", how], ["read"]]))
    return out


def directed_layout_cases():
    """arrays with distinct entries in every non-C memory layout, added while clusters exist (conversion to clusters),
    as the first addition before clusters arrive, and array-only"""
    out = []
    for rows, cols in ((2, 3), (3, 2), (4, 3)):
        base = {"det": "CCD", "rows": rows, "cols": cols, "h": 10.0, "w": 5.0}
        a = [[1 + i * cols + j for j in range(cols)] for i in range(rows)]
        a[0][1] = 0
        for lay in LAYOUTS:
            for dt in ("float64", "float32"):
                A = ["array", a, dt, {"layout": lay}]
                out.append(dict(base, ops=[["clusters", [[100, 5.0, 2.5]], "add_charge", None], A, ["read"]]))
                out.append(dict(base, ops=[A, ["clusters", [[100, 5.0, 2.5]], "dataframe", None], ["read"], A, ["read"]]))
            out.append(dict(base, ops=[["array", a, "float64", {"layout": lay}], ["read"], ["array", a, "float64", {"layout": lay}], ["read"]]))
    return out


def directed_perm_cases():
    """second and later cluster batches given as DataFrames whose columns are in another order (and keyword order variations)"""
    base = {"det": "CCD", "rows": 3, "cols": 4, "h": 10.0, "w": 5.0}
    out = []
    for seed in (11, 12, 13, 14, 15, 16):
        out.append(dict(base, ops=[["clusters", [[5, 15.0, 2.5]], "dataframe", None],
                                   ["clusters", [[7, 25.0, 17.5], [2, 5.0, 12.0]], "dataframe", seed], ["read"],
                                   ["clusters", [[9, 5.0, 2.5]], "add_charge", seed + 100], ["read"]]))
        out.append(dict(base, ops=[["clusters", [[5, 15.0, 2.5]], "dataframe", seed], ["read"],
                                   ["array", [[1, 0, 0, 0], [0, 0, 2, 0], [0, 0, 0, 3]], "float64"],
                                   ["clusters", [[7, 25.0, 17.5]], "dataframe", seed + 7], ["read"]]))
        out.append(dict(base, ops=[["array", [[1, 0, 0, 0], [0, 0, 2, 0], [0, 0, 0, 3]], "float64"],
                                   ["clusters", [[7, 25.0, 17.5]], "dataframe", seed], ["clusters", [[1, 5.0, 7.5]], "dataframe", seed + 1], ["read"]]))
    return out


def directed_cases(rng, quick=True):
    """every position category of one axis against a centred other axis, small detector, both kinds of sizes"""
    out = []
    for h, w in [(10.0, 5.0), (0.3, 0.1)] + ([] if quick else [(1.0, 1.0), (7.3, 2.5), (0.1, 1000.0)]):
        rows, cols = 3, 4
        base = {"det": "CCD", "rows": rows, "cols": cols, "h": h, "w": w}
        singles = []
        for k in range(-2, rows + 3):
            for pos in (float(k * h), math.nextafter(float(k * h), math.inf), math.nextafter(float(k * h), -math.inf), (k + 0.5) * h):
                singles.append([pos, 1.5 * w])
        for k in range(-2, cols + 3):
            for pos in (float(k * w), math.nextafter(float(k * w), math.inf), math.nextafter(float(k * w), -math.inf), (k + 0.5) * w):
                singles.append([1.5 * h, pos])
        for v, u in singles:
            out.append(dict(base, ops=[["clusters", [[3, v, u]], "add_charge"], ["read"]]))
        # array first, then a cluster (conversion to clusters), then another array, read
        out.append(dict(base, ops=[["array", gen_array(rng, rows, cols), "float64"], ["clusters", [[4, 0.5 * h, 0.5 * w]], "dataframe"],
                                   ["array", gen_array(rng, rows, cols), "float32"], ["read"], ["reset"], ["read"]]))
    return out


def has_outside(case) -> bool:
    return any(exact_bin(case, v, u) is None for op in case["ops"] if op[0] == "clusters" for _, v, u in op[1])


# ------------------------------------------------------------------ implementation side (runs in a worker process)
LAYOUTS = ["F", "T", "rev", "slice", "rev-rows", "slice-rows"]


def make_array(grid, dtype, layout):
    """an ndarray whose LOGICAL values are `grid`, in the requested memory layout"""
    import numpy as np

    a = np.array(grid, dtype=dtype)
    if layout in (None, "C") or a.ndim != 2:
        return a
    if layout == "F":
        out = np.asfortranarray(a)
    elif layout == "T":                      # transposed view of a C-ordered array of the transposed shape
        out = np.ascontiguousarray(a.T).T
    elif layout == "rev":                    # negative strides on both axes
        out = np.ascontiguousarray(a[::-1, ::-1])[::-1, ::-1]
    elif layout == "rev-rows":
        out = np.ascontiguousarray(a[::-1, :])[::-1, :]
    elif layout == "slice":                  # non-contiguous window of a larger array
        big = np.full((a.shape[0] * 2 + 2, a.shape[1] * 3 + 1), 99, dtype=dtype)
        big[1:1 + 2 * a.shape[0]:2, 1:1 + 3 * a.shape[1]:3] = a
        out = big[1:1 + 2 * a.shape[0]:2, 1:1 + 3 * a.shape[1]:3]
    elif layout == "slice-rows":             # window of a larger Fortran-ordered array
        big = np.full((a.shape[0] + 3, a.shape[1] + 2), 99, dtype=dtype, order="F")
        big[2:2 + a.shape[0], 1:1 + a.shape[1]] = a
        out = big[2:2 + a.shape[0], 1:1 + a.shape[1]]
    else:
        raise common.InfraError(f"unknown layout {layout}")
    if out.shape != a.shape or not np.array_equal(out, a):
        raise common.InfraError(f"layout {layout} changed the logical values")
    return out


def run_impl(case):
    import numpy as np
    import pyx

    via = case.get("geo_via")
    if not via:
        det = pyx.make_detector(case["det"], case["rows"], case["cols"],
                                geometry={"pixel_vert_size": case["h"], "pixel_horz_size": case["w"]})
    else:
        # the detector is built with other pixel sizes; the sizes of the history are set afterwards through the
        # Geometry setters or through Processor.set (what an observation / calibration does)
        h0, w0 = case["geo0"]
        det = pyx.make_detector(case["det"], case["rows"], case["cols"], geometry={"pixel_vert_size": h0, "pixel_horz_size": w0})
        steps = [("pixel_vert_size", case["h"]), ("pixel_horz_size", case["w"])]
        if via.endswith("hv"):
            steps.reverse()
        if via.startswith("processor"):
            from pyxel.pipelines import DetectionPipeline, Processor

            proc = Processor(detector=det, pipeline=DetectionPipeline())
            for name, val in steps:
                proc.set("detector.geometry." + name, val)
        else:
            for name, val in steps:
                setattr(det.geometry, name, val)
    import random as _random

    ch = det.charge
    res = []
    bufs = {}   # the caller's own persistent ndarray objects
    for op in case["ops"]:
        rec = {}
        try:
            if op[0] == "array":
                meta = op[3] if len(op) > 3 and op[3] else {}
                if "buf" in meta:
                    k = str(meta["buf"])
                    if k not in bufs:
                        bufs[k] = make_array(op[1], op[2], meta.get("layout"))
                    arr = bufs[k]           # the SAME object as in earlier additions
                else:
                    arr = make_array(op[1], op[2], meta.get("layout"))
                ch.add_charge_array(arr)
                rec["out"] = "ok"
            elif op[0] == "mutate":
                bufs[str(op[1])][...] = np.array(op[2])   # the caller recycles its own buffer
                rec["out"] = "ok"
            elif op[0] == "clusters":
                n = np.array([c[0] for c in op[1]], dtype=float)
                v = np.array([c[1] for c in op[1]], dtype=float)
                u = np.array([c[2] for c in op[1]], dtype=float)
                z = np.zeros(len(n))
                kw = dict(particle_type="e", particles_per_cluster=n, init_energy=z, init_ver_position=v, init_hor_position=u,
                          init_z_position=z, init_ver_velocity=z, init_hor_velocity=z, init_z_velocity=z)
                perm = op[3] if len(op) > 3 else None
                if perm is not None:
                    items = list(kw.items())
                    _random.Random(perm).shuffle(items)
                    kw = dict(items)
                if op[2] == "add_charge":
                    ch.add_charge(**kw)
                else:
                    df = type(ch).create_charges(**kw)
                    if perm is not None:
                        cols_ = list(df.columns)
                        _random.Random(perm + 1).shuffle(cols_)
                        df = df[cols_]      # same 13 columns, another order: only the set of names is validated
                    ch.add_charge_dataframe(df)
                rec["out"] = "ok"
            elif op[0] == "read":
                a = ch.array
                if not isinstance(a, np.ndarray) or a.ndim != 2:
                    rec["out"] = f"not-a-2d-array:{type(a).__name__}"
                else:
                    rec["out"] = [[fr(float(x)) for x in row] for row in a.tolist()]
            elif op[0] == "remove":
                ch.remove_from_frame(op[1])
                rec["out"] = "ok"
            elif op[0] == "reset":
                ch.empty()
                rec["out"] = "ok"
            elif op[0] == "emptyAll":
                det.empty(op[1])            # the detector-level reset of a readout step (destructive or not)
                ch = det.charge
                rec["out"] = "ok"
            elif op[0] == "roundtrip":
                if op[1] == "dict":
                    det = type(det).from_dict(det.to_dict())
                else:
                    import shutil
                    import tempfile

                    from pyxel.detectors import Detector

                    tmp = tempfile.mkdtemp(prefix="c14rt-")
                    try:
                        path = os.path.join(tmp, "detector.asdf")
                        det.save(path)
                        det = Detector.load(path)
                    finally:
                        shutil.rmtree(tmp, ignore_errors=True)
                ch = det.charge             # the history goes on with the rebuilt detector
                rec["out"] = "ok"
            else:
                raise common.InfraError(f"unknown op {op[0]}")
        except common.InfraError:
            raise
        except Exception as e:  # noqa: BLE001
            k = common.err_kind(e)
            rec["out"] = k
            rec["msg"] = str(e)[:200]
        f = ch.frame
        rec["frame"] = [[int(i), fr(float(a)), fr(float(b)), fr(float(c))]
                        for i, a, b, c in zip(f.index.tolist(), f["number"].tolist(), f["position_ver"].tolist(), f["position_hor"].tolist())]
        rec["nextid"] = int(ch.nextid)
        res.append(rec)
    return res


def worker_main():
    common.ensure_repo_on_path()
    for line in sys.stdin:
        line = line.strip()
        if not line:
            continue
        case = json.loads(line)
        try:
            out = {"res": run_impl(case)}
        except Exception as e:  # noqa: BLE001
            out = {"infra": f"{type(e).__name__}: {e}"[:300]}
        sys.stdout.write(json.dumps(out, separators=(",", ":")) + "\n")
        sys.stdout.flush()


def run_workers(cases, boundscheck: bool, nworkers: int = 12, per_case_timeout: float = 60.0):
    """run `cases` on the implementation in subprocesses; a case whose worker died or hung gets {"crashed": why}"""
    results = [None] * len(cases)
    env = dict(os.environ)
    env["PYXEL_REPO"] = str(common.REPO)
    env["PYTHONDONTWRITEBYTECODE"] = "1"
    if boundscheck:
        env["NUMBA_BOUNDSCHECK"] = "1"
    else:
        env.pop("NUMBA_BOUNDSCHECK", None)
    chunks = [list(range(i, len(cases), nworkers)) for i in range(nworkers)]

    def work(idxs):
        todo = list(idxs)
        while todo:
            data = "".join(json.dumps(cases[i], separators=(",", ":")) + "\n" for i in todo)
            try:
                p = subprocess.run([sys.executable, os.path.abspath(__file__), "--worker"], input=data, capture_output=True,
                                   text=True, env=env, timeout=120 + per_case_timeout * len(todo))
                out, why = p.stdout, f"worker exited with status {p.returncode}"
                finished = p.returncode == 0
            except subprocess.TimeoutExpired as e:
                out = e.stdout.decode() if isinstance(e.stdout, bytes) else (e.stdout or "")
                why, finished = "worker hung (timeout)", False
            lines = [l for l in out.split("\n") if l.strip()]
            for i, l in zip(todo, lines):
                try:
                    results[i] = json.loads(l)
                except Exception:  # noqa: BLE001
                    results[i] = {"crashed": "unparsable worker output"}
            done = len(lines)
            if done >= len(todo):
                return
            if finished and done < len(todo):
                why = "worker ended early"
            results[todo[done]] = {"crashed": why}
            todo = todo[done + 1:]

    threads = [threading.Thread(target=work, args=(c,)) for c in chunks if c]
    for t in threads:
        t.start()
    for t in threads:
        t.join()
    # a worker that ran out of TIME says nothing about the code (a loaded machine is enough): the case is run again on
    # its own with a generous limit; if it still does not finish the check stops as an infrastructure error (exit 2),
    # never as a violation.  A worker that DIED (signal / non-zero status) is a result and is judged.
    for i, r in enumerate(results):
        if r is not None and r.get("crashed") == "worker hung (timeout)":
            data = json.dumps(cases[i], separators=(",", ":")) + "\n"
            try:
                p = subprocess.run([sys.executable, os.path.abspath(__file__), "--worker"], input=data, capture_output=True,
                                   text=True, env=env, timeout=1200)
            except subprocess.TimeoutExpired:
                raise common.InfraError(f"history worker did not finish within 1200 s on its own: {cases[i]}")
            lines = [l for l in p.stdout.split("\n") if l.strip()]
            if lines:
                try:
                    results[i] = json.loads(lines[0])
                except Exception:  # noqa: BLE001
                    results[i] = {"crashed": "unparsable worker output"}
            else:
                results[i] = {"crashed": f"worker exited with status {p.returncode}"}
    for i, r in enumerate(results):
        if r is None:
            results[i] = {"crashed": "no result"}
        elif "infra" in r:
            raise common.InfraError(f"worker failed on case {cases[i]}: {r['infra']}")
    return results


# ------------------------------------------------------------------ model side
def lean_request(case):
    ops = []
    for op in case["ops"]:
        if op[0] == "array":
            ops.append(["array", [[fr(x) for x in row] for row in op[1]]])
        elif op[0] == "clusters":
            ops.append(["clusters", [[fr(n), fr(v), fr(u)] for n, v, u in op[1]]])
        elif op[0] == "remove":
            ops.append(["remove", op[1]])
        elif op[0] == "emptyAll":
            ops.append(["emptyAll", bool(op[1])])
        elif op[0] == "roundtrip":
            ops.append(["roundtrip", op[1] != "dict"])      # a file does not keep the index labels, the dictionary does
        elif op[0] == "mutate":
            continue        # arrays are VALUES in the model: what the caller does to its own ndarray afterwards is no operation
        else:
            ops.append([op[0]])
    return {"rows": case["rows"], "cols": case["cols"], "h": fr(case["h"]), "w": fr(case["w"]), "ops": ops}


def align_answer(case, ans):
    """one model / spec entry per case op: a `mutate` (caller-side only) repeats the previous state"""
    model, spec, it_m, it_s = [], [], iter(ans["model"]), iter(ans["spec"])
    zero = [[[0, 1]] * case["cols"] for _ in range(case["rows"])]
    for op in case["ops"]:
        if op[0] == "mutate":
            prev = model[-1] if model else {"frame": [], "nextid": 0}
            model.append({"out": "ok", "frame": prev["frame"], "nextid": prev["nextid"]})
            spec.append(spec[-1] if spec else zero)
        else:
            model.append(next(it_m))
            spec.append(next(it_s))
    return dict(ans, model=model, spec=spec)


def frames_agree(case, mf, jf):
    """labels, numbers exactly; positions exactly for dyadic pixel sizes, else within 1e-9 relative (pixel centres
    `k*size + size/2` are rounded by the implementation when the size is not dyadic)"""
    if len(mf) != len(jf):
        return False
    exact = is_dyadic_size(case["h"]) and is_dyadic_size(case["w"])
    for a, b in zip(mf, jf):
        if a[0] != b[0] or a[1] != b[1]:
            return False
        for x, y in ((a[2], b[2]), (a[3], b[3])):
            if x == y:
                continue
            if exact:
                return False
            fx, fy = Fraction(*x), Fraction(*y)
            if abs(fx - fy) > Fraction(1, 10**9) * max(abs(fx), abs(fy)):
                return False
    return True


# ------------------------------------------------------------------ the statement, on the implementation's outputs
def grid_of(out):
    return [[Fraction(*x) for x in row] for row in out]


def property_predicate(case, impl, mode):
    """[(key, why, op index)] — `impl` is the worker's result ({"res": [...]} or {"crashed": ...})"""
    rows, cols = case["rows"], case["cols"]
    outside = has_outside(case)
    if "crashed" in impl:
        key = "C14:outside-out-of-bounds" if outside else "C14:worker-died"
        return [(key, f"the process running this history {impl['crashed']} ({mode} run)"
                      + (": a cluster outside the sensitive area makes the unchecked @njit loop write outside the array" if outside else ""), len(case["ops"]) - 1)]
    bad = []
    acc = [[Fraction(0)] * cols for _ in range(rows)]
    tracking, outside_since_reset, noop_removal = True, False, False
    for i, (op, r) in enumerate(zip(case["ops"], impl["res"])):
        out = r["out"]
        if op[0] == "array":
            if len(op[1]) == rows and all(len(row) == cols for row in op[1]) and out == "ok":
                for a in range(rows):
                    for b in range(cols):
                        acc[a][b] += op[1][a][b]
        elif op[0] == "clusters" and out == "ok":
            for n, v, u in op[1]:
                p = exact_bin(case, v, u)
                if p is None:
                    outside_since_reset = True
                else:
                    acc[p[0]][p[1]] += n
        elif op[0] in ("reset", "emptyAll") and out == "ok":
            acc = [[Fraction(0)] * cols for _ in range(rows)]
            tracking, outside_since_reset = True, False
        elif op[0] == "remove":
            before = impl["res"][i - 1]["frame"] if i > 0 else []
            if not before:
                noop_removal = True      # no cluster existed: nothing is removed, the charge added so far must stay
            else:
                tracking = False
                if out == "ok":
                    # the ids are the index labels shown by `.frame`: exactly the listed clusters go, the others stay as they are
                    expect = [row for row in before if op[1] and row[0] not in op[1]]
                    if r["frame"] != expect:
                        gone = sorted(set(x[0] for x in before) - set(x[0] for x in r["frame"]))
                        bad.append(("C14:remove-by-id-wrong-clusters",
                                    f"op #{i} remove {op[1]} on a frame with ids {[x[0] for x in before]}: clusters with ids {gone} were removed "
                                    f"(remaining ids {[x[0] for x in r['frame']]}, expected {[x[0] for x in expect]})", i))
                        break
        elif op[0] == "read":
            if out == "IndexError" and mode == "boundscheck":
                bad.append(("C14:outside-out-of-bounds",
                            f"op #{i} read: with NUMBA_BOUNDSCHECK=1 convert_df_to_array raises IndexError ({r.get('msg', '')}): a cluster outside the "
                            "sensitive area is used as an array index; without bounds checking this access writes outside the array", i))
                break
            if not isinstance(out, list):
                bad.append(("C14:read-fails", f"op #{i} read raised {out}: {r.get('msg', '')}", i))
                break
            g = grid_of(out)
            if len(g) != rows or any(len(row) != cols for row in g):
                bad.append(("C14:report-shape", f"op #{i} read returned shape {len(g)}x{len(g[0]) if g else 0}", i))
                break
            if tracking and g != acc:
                diff = [(a, b, str(g[a][b]), str(acc[a][b])) for a in range(rows) for b in range(cols) if g[a][b] != acc[a][b]]
                over = any(g[a][b] > acc[a][b] for a in range(rows) for b in range(cols))
                key = "C14:outside-credited-elsewhere" if (outside_since_reset and over) else "C14:accounting"
                if key == "C14:accounting" and over and any(o[0] == "roundtrip" for o in case["ops"][:i]):
                    key = "C14:accounting-after-roundtrip"
                elif key == "C14:accounting" and over and any(o[0] == "emptyAll" for o in case["ops"][:i]):
                    key = "C14:detector-reset-keeps-charge"
                elif key == "C14:accounting" and case.get("geo_via") and any(o[0] == "clusters" for o in case["ops"][:i]):
                    key = "C14:accounting-geometry-set-after-construction"
                elif key == "C14:accounting" and noop_removal and not over:
                    key = "C14:remove-without-clusters-erases-array-charge"
                elif key == "C14:accounting" and any(o[0] == "mutate" or (o[0] == "array" and len(o) > 3 and o[3] and "buf" in o[3]) for o in case["ops"][:i]):
                    key = "C14:accounting-caller-array-reused"
                elif key == "C14:accounting" and any(o[0] == "array" and len(o) > 3 and o[3] and o[3].get("layout") for o in case["ops"][:i]):
                    key = "C14:accounting-memory-layout"
                elif key == "C14:accounting" and any(o[0] == "clusters" and len(o) > 3 and o[3] is not None for o in case["ops"][:i]):
                    key = "C14:accounting-column-order"
                bad.append((key, f"op #{i} read: reported charge differs from the sum of what was added since the last reset at "
                                 f"(row, col, reported, expected) {diff[:4]}"
                                 + (" — a cluster outside the sensitive area was credited to a pixel" if (outside_since_reset and over) else ""), i))
                break
            if r["frame"]:
                fsum = [[Fraction(0)] * cols for _ in range(rows)]
                for _, n, v, u in r["frame"]:
                    p = exact_bin(case, float(Fraction(*v)), float(Fraction(*u)))
                    if p is not None:
                        fsum[p[0]][p[1]] += Fraction(*n)
                if g != fsum:
                    key = "C14:outside-credited-elsewhere" if any(exact_bin(case, float(Fraction(*v)), float(Fraction(*u))) is None for _, _, v, u in r["frame"]) else "C14:frame-inconsistent"
                    bad.append((key, f"op #{i} read: reported charge is not the per-pixel sum of the clusters in .frame", i))
                    break
    return bad


# ------------------------------------------------------------------ the check
def body(ck: common.Check):
    ck.obligations(["PyxelModel.Props.C14"], ["PyxelModel.Drive.C14"])
    rng = ck.rng
    quick = ck.tier == "quick"
    cases = [("directed", c) for c in directed_cases(rng, quick)]
    cases += [("alias", c) for c in directed_alias_cases()] + [("alias", gen_alias_case(rng)) for _ in range(45 if quick else 1500)]
    cases += [("columns", c) for c in directed_perm_cases()]
    a0 = [[1, 0, 2], [0, 3, 0]]
    b0 = {"det": "CCD", "rows": 2, "cols": 3, "h": 10.0, "w": 10.0}
    cases += [("remove", dict(b0, ops=[["array", a0, "float64"], ["remove", ids_], ["read"], ["array", a0, "float32"], ["read"],
                                        ["clusters", [[4, 5.0, 5.0]], "add_charge", None], ["read"]])) for ids_ in ([], [0], [3, 7])]
    cases += [("remove", dict(b0, ops=[["clusters", [[4, 5.0, 5.0], [2, 15.0, 25.0]], "add_charge", None], ["read"], ["remove", ids_], ["read"],
                                        ["array", a0, "float64"], ["read"]])) for ids_ in ([], [0, 1], [0])]
    cases += [("remove", c) for c in directed_remove_cases()] + [("geometry", c) for c in directed_geometry_cases()]
    cases += [("detector", c) for c in directed_detector_cases()]
    lay = directed_layout_cases()
    cases += [("layout", c) for c in (lay if not quick else [c for k, c in enumerate(lay) if (c["rows"] != 4 and k % 2 == 0) or k % 7 == 0])]
    for stream, n in (("inside", 105 if quick else 3000), ("outside", 70 if quick else 1800), ("remove", 45 if quick else 800)):
        cases += [(stream, gen_case(rng, stream)) for _ in range(n)]
    answers = LeanDriver("C14").batch([lean_request(c) for _, c in cases])
    for a in answers:
        if "bad" in a:
            raise common.InfraError(f"driver rejected request: {a}")
    answers = [align_answer(c, a) for (_, c), a in zip(cases, answers)]
    only = [c for _, c in cases]
    risky = [i for i, c in enumerate(only) if has_outside(c)]
    safe = [i for i in range(len(only)) if i not in set(risky)]
    nw = min(14, max(2, (os.cpu_count() or 4) - 2))
    runs = {}
    res_safe = run_workers([only[i] for i in safe], boundscheck=False, nworkers=nw)
    for i, r in zip(safe, res_safe):
        runs[i] = [("plain", r)]
    res_bc = run_workers([only[i] for i in risky], boundscheck=True, nworkers=nw)
    res_pl = run_workers([only[i] for i in risky], boundscheck=False, nworkers=nw)
    for i, r1, r2 in zip(risky, res_bc, res_pl):
        runs[i] = [("boundscheck", r1), ("plain", r2)]

    for i, ((stream, case), ans) in enumerate(zip(cases, answers)):
        n_cl = sum(len(op[1]) for op in case["ops"] if op[0] == "clusters")
        n_arr = sum(1 for op in case["ops"] if op[0] == "array")
        ck.case(case, nontrivial=n_cl + n_arr >= 2, stream=stream)
        ck.count(f"geometry_via={case.get('geo_via') or 'constructor'}")
        ck.count(f"sizes={'dyadic' if is_dyadic_size(case['h']) and is_dyadic_size(case['w']) else 'non-dyadic'}")
        ck.count("clusters_inside", sum(1 for op in case["ops"] if op[0] == "clusters" for _, v, u in op[1] if exact_bin(case, v, u)))
        ck.count("clusters_outside", sum(1 for op in case["ops"] if op[0] == "clusters" for _, v, u in op[1] if not exact_bin(case, v, u)))
        ck.count("array_to_cluster_conversions", sum(1 for k, op in enumerate(case["ops"]) if op[0] == "array" and k < len(ans["model"]) and ans["model"][k]["frame"] and k > 0 and ans["model"][k - 1]["frame"]))
        for op in case["ops"]:
            ck.count(f"op={op[0]}")
        ck.count("cluster_batches_permuted_columns", sum(1 for op in case["ops"] if op[0] == "clusters" and len(op) > 3 and op[3] is not None))
        ck.count("same_ndarray_object_re_added", sum(1 for k, op in enumerate(case["ops"]) if op[0] == "array" and len(op) > 3 and op[3] and "buf" in op[3]
                                                     and any(o[0] == "array" and len(o) > 3 and o[3] and o[3].get("buf") == op[3]["buf"] for o in case["ops"][:k])))
        for op in case["ops"]:
            if op[0] == "array" and len(op) > 3 and op[3] and op[3].get("layout"):
                ck.count(f"array_layout={op[3]['layout']}")
        for mode, impl in runs[i]:
            for key, why, k in property_predicate(case, impl, mode):
                ck.violation(key, why, {"case": dict(case, ops=case["ops"][: k + 1] + ([] if case["ops"][k][0] == "read" else [["read"]])),
                                        "mode": mode, "impl": impl.get("res", impl)[-1] if "res" in impl else impl})
            if "crashed" in impl:
                ck.disagreement(stream, case, impl, "model completes the history", key="C14:outside-out-of-bounds" if has_outside(case) else None)
                continue
            # the Lean spec (acc) must agree with the Python accumulator wherever the latter is defined: compare on reads via the model
            for k, (op, r, m) in enumerate(zip(case["ops"], impl["res"], ans["model"])):
                same = r["nextid"] == m["nextid"] and frames_agree(case, m["frame"], r["frame"])
                if isinstance(m["out"], list):
                    same = same and r["out"] == m["out"]
                else:
                    same = same and ((r["out"] == "ok") == (m["out"] == "ok")) and (m["out"] == "ok" or r["out"] == m["out"])
                if not same:
                    ck.disagreement(stream, dict(case, ops=case["ops"][: k + 1]), {"mode": mode, "out": r["out"], "frame": r["frame"], "nextid": r["nextid"]}, m)
                    break
        # model = spec on removal-free histories (the theorem, exercised): every read of the model equals the accumulator
        if not any(op[0] == "remove" for op in case["ops"]):
            for k, (op, m) in enumerate(zip(case["ops"], ans["model"])):
                if op[0] == "read" and m["out"] != ans["spec"][k]:
                    raise common.InfraError(f"Lean model and Lean accumulator disagree on {case} at op {k}: contradicts report_eq_acc")
    ck.rule = ("interleavings (3-11 ops) of add_charge_array (integer-valued float64/32/16 arrays, a few wrongly shaped), add_charge / "
               "add_charge_dataframe (clusters at pixel centres, on borders, one ulp either side of borders, at 0/-0.0/far edge, random inside; "
               "outside: -ulp, negative, exactly at / beyond the far edge, far away), .array reads, bucket resets, detector-level resets detector.empty(True/False) (also with no read since the additions), rebuilding the detector from to_dict() / from a saved .asdf file in the middle of the history, removals by id / all, on the "
               "charge bucket of CCD/CMOS/APD/MKID detectors of 1..5 x 1..5 pixels with dyadic and non-dyadic pixel sizes (0.001..1000) given to the constructor or set afterwards through the Geometry setters / Processor.set (both orders); several partial removals in a row (non-consecutive index labels); "
               "cluster batches as DataFrames with permuted column order / permuted keyword order (first and later batches); histories in which the caller "
               "re-adds the SAME ndarray object several times and overwrites / zeroes its own array after the call; plus every border/centre position of a 3x4 detector for 4 size pairs; non-trivial = at least two additions; distinct by canonical JSON")
    ck.assumptions = [
        "an array addition adds the values the CALLER has in its array at call time; the caller's later writes to its own ndarray are not detector operations (arrays are values in the model)",
        "additions are non-negative (array entries and cluster numbers >= 0); charges are integers, so binary64 sums are exact",
        "removals (DESIGN 6b): while clusters remain the report must be the per-pixel sum of the clusters in .frame; nothing is claimed after removing all clusters until the next reset; a removal issued while no cluster exists removes nothing, so the accumulator keeps running through it",
        "NaN / infinite positions are not generated (the statement's quantifier lists finite coordinates)",
        "pixel-centre positions of converted arrays are compared within 1e-9 relative when the pixel size is not dyadic (the implementation rounds k*size + size/2), exactly otherwise",
        "an IndexError raised by the @njit loop under NUMBA_BOUNDSCHECK=1 is taken as proof of an out-of-bounds access of the same loop without bounds checking",
    ]
    ck.trusted_base.append("C14: pandas concat/query/index semantics and numba's loop modelled by contract; np.floor_divide on doubles = exact floor of the quotient (checked by the exact-rational oracle on every cluster)")
    ck.extra["isolation"] = {"workers": nw, "risky_cases_run_twice": len(risky)}


def replay(rp):
    case = rp["replay"].get("case")
    if case is None:
        print("replay names a broken obligation/correspondence, no concrete input:", rp["what"])
        return 1
    rc = 0
    modes = [("boundscheck", True), ("plain", False)] if has_outside(case) else [("plain", False)]
    for mode, bc in modes:
        impl = run_workers([case], boundscheck=bc, nworkers=1)[0]
        bad = property_predicate(case, impl, mode)
        print(f"impl ({mode}):", json.dumps(impl.get("res", impl)[-1] if "res" in impl else impl)[:300])
        if bad:
            print("REPRODUCED: " + bad[0][1])
            rc = 1
    if not rc:
        print("not reproduced (property holds on this input)")
    return rc


if __name__ == "__main__":
    if len(sys.argv) > 1 and sys.argv[1] == "--worker":
        worker_main()
        sys.exit(0)
    if len(sys.argv) > 2 and sys.argv[1] == "--replay":
        common.ensure_repo_on_path()
        sys.exit(replay(json.load(open(sys.argv[2]))))
    sys.exit(run_check("C14", body))
