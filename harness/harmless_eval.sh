#!/bin/bash
# usage: harness/harmless_eval.sh <harmless-id> "<Cxx Cyy ...>" [quick|thorough]
# Applies harmless/<id>/patch.diff (a behaviour-preserving rewrite) in a scratch worktree of /repo HEAD and runs the
# listed properties' checks against it: every check must exit 0 (an alarm here is a false alarm of the machinery).
id="$1"; pids="$2"; tier="${3:-quick}"
wt=$(mktemp -d /tmp/hmwt-XXXXXX); rmdir "$wt"
git -C /repo worktree add --detach "$wt" HEAD -q || exit 2
trap 'git -C /repo worktree remove --force "$wt" >/dev/null 2>&1' EXIT
( cd "$wt" && git apply "/verif/harmless/$id/patch.diff" ) || { echo "PATCH DOES NOT APPLY"; exit 2; }
cd /verif
for pid in $pids; do
  PYXEL_REPO="$wt" VERIF_SEED=${VERIF_SEED:-0} ./check "$pid" "$tier" >"$wt.$pid.out" 2>/dev/null; rc=$?
  out=$(grep -E "VIOLATION|^  C[0-9]|^  unproved|InfraError|Error" "$wt.$pid.out" | head -6); rm -f "$wt.$pid.out"
  echo "$id $pid rc=$rc ${out:0:700}"
  python3 - "$id" "$pid" "$rc" <<'PY'
import json, sys, fcntl
hid, pid, rc = sys.argv[1], sys.argv[2], int(sys.argv[3])
p = f"/verif/harmless/{hid}/meta.json"
with open("/verif/harmless/.lock", "w") as lk:
    fcntl.flock(lk, fcntl.LOCK_EX)
    try:
        m = json.load(open(p))
    except Exception:
        m = {"files": [], "runs": {}}
    m.setdefault("runs", {}).setdefault(pid, []).append(rc)
    json.dump(m, open(p, "w"), indent=1)
PY
done
