"""C05 — observation runs exactly the requested parameter space, correctly labelled.

obligations: lean/PyxelModel/Props/C05.lean (all parameter lists, value lists, tables, defaults)
tie to code : differential run of the real `Observation` (three modes; sequential path and dask path under the
              synchronous scheduler) on tiny detectors with stamp probes against the Lean model (runs, labels,
              dimension names), plus the statement evaluated directly on the result (independent Python oracle).

Also imported by harness/c07.py and harness/c06.py (generator, builders, canonicalisers).
"""

from __future__ import annotations

import itertools
import json
import os
import shutil
import sys
import tempfile
from fractions import Fraction

import common
from common import LeanDriver, run_check

GROUPS = [
    "scene_generation", "photon_collection", "phasing", "charge_generation", "charge_collection",
    "charge_transfer", "charge_measurement", "signal_transfer", "readout_electronics", "data_processing",
]
FIELD_GROUP = "data_processing"  # the `fields` recorder runs last

# detector fields that can be swept, with a value pool that their setters accept
FIELD_POOL = {
    "detector.characteristics.quantum_efficiency": [0.5, 0.25, 0.75, 0.125, 1.0, 0.0, 0.375, 0.625],
    "detector.environment.temperature": [100, 150.5, 200.25, 250, 300, 77, 120.125, 42],
    "detector.characteristics.pre_amplification": [1, 2, 10, 50.5, 80, 3.25, 7, 64],
    "detector.characteristics.full_well_capacity": [1000, 2000, 50000, 90000, 12345, 777, 4096, 65536],
    "detector.characteristics.charge_to_volt_conversion": [0.5, 0.25, 1.5e-6, 2.0, 0.125, 3.0, 0.75, 1.0],
}
ARG_NAMES = ["a", "b", "level", "quantum_efficiency", "temperature", "gain"]
MODEL_NAMES = ["m", "n", "illum", "probe"]


# ------------------------------------------------------------------ canonical forms
def cv(v):
    import obsprobes

    return obsprobes.canon_val(v)


def ctext(v) -> str:
    import obsprobes

    return obsprobes.canon_text(v)


def num(x):
    """exact canonical form of a result number"""
    x = float(x)
    if x != x:
        return "nan"
    f = Fraction(x)
    return [f.numerator, f.denominator]


# ------------------------------------------------------------------ generator
def _scalar_values(rng, n, kind):
    if kind == "int":
        return rng.sample(range(-5, 60), n)
    if kind == "float":
        return [x / 8 for x in rng.sample(range(1, 200), n)]
    if kind == "mixed":
        xs = rng.sample(range(1, 40), n)
        return [x if i % 2 == 0 else x + 0.5 for i, x in enumerate(xs)]
    if kind == "str":
        return rng.sample(["alpha", "beta", "gamma", "delta", "eps", "zeta"], n)
    if kind == "text+number":  # value lists of mixed kinds (a file name and a level, …), at least one of each
        n = max(2, n)
        pool = rng.sample(["alpha", "data/img_01.npy", "gamma", "delta"], n) + rng.sample([7, 2.5, 12, 0.125, 40], n)
        return [pool[0], pool[n]] + rng.sample(pool[1:n] + pool[n + 1:], n - 2)
    if kind == "bool+number":
        n = max(2, n)
        return ([True, rng.choice([7, 2.5, 12])] + rng.sample([False, 40, 0.125, 3], n - 2))[:n] if n <= 4 else None
    raise ValueError(kind)


def _numpy_fine_decl(rng, n):
    """numpy expressions whose values need more than 12 decimals (tiny magnitudes, long mantissas, fractional
    steps); the expectation is what the expression denotes: evaluated here with numpy, element by element"""
    import numpy

    n = max(2, n)
    style = rng.choice(["logspace_tiny", "geomspace_tiny", "linspace_long", "arange_frac", "linspace_tiny", "logspace_frac"])
    if style == "logspace_tiny":
        a = rng.randrange(-16, -12)
        expr = f"numpy.logspace({a}, {a + n - 1}, {n})"
    elif style == "geomspace_tiny":
        a = rng.choice(["1e-15", "2.5e-14", "3e-16"])
        expr = f"numpy.geomspace({a}, {a}*{10 ** (n - 1)}, {n})"
    elif style == "linspace_long":
        a, b = rng.choice([(0.1, 0.7), (0.05, 0.95), (1 / 3, 2 / 3), (0.123456789012345, 0.987654321098765)])
        expr = f"numpy.linspace({a!r}, {b!r}, {n})"
    elif style == "arange_frac":
        a, st = rng.choice([(0.1, 0.1), (0.05, 0.15), (1e-13, 3e-13), (0.7, 0.07)])
        expr = f"numpy.arange({n}) * {st!r} + {a!r}"
    elif style == "linspace_tiny":
        a = rng.choice([1e-14, 2.5e-13, 7e-16])
        expr = f"numpy.linspace({a!r}, {3 * a!r}, {n})"
    else:
        expr = f"numpy.logspace(-0.5, 0.5, {n})"
    vals = [float(v) for v in eval(expr, {"numpy": numpy})]  # noqa: S307
    return expr, vals


def _numpy_decl(rng, n, fine=None):
    """(expression text, exact expected list)"""
    if fine or (fine is None and rng.random() < 0.4):
        expr, vals = _numpy_fine_decl(rng, n)
        if len(set(vals)) == len(vals):
            return expr, vals
    style = rng.choice(["arange", "linspace", "array", "arange_f"])
    if style == "arange":
        a, s = rng.randrange(0, 9), rng.randrange(1, 4)
        return f"numpy.arange({a}, {a + s * n}, {s})", [a + s * i for i in range(n)]
    if style == "arange_f":
        a = rng.randrange(0, 9)
        return f"numpy.arange({a}, {a + n}, 1.0)", [float(a + i) for i in range(n)]
    if style == "linspace" and n in (2, 3, 5):
        a, w = rng.randrange(0, 5), rng.choice([1, 2, 4, 8])
        return f"numpy.linspace({a}, {a + w}, {n})", [a + w * i / (n - 1) for i in range(n)]
    xs = rng.sample(range(1, 50), n)
    return f"numpy.array({xs})", xs


def _vector_values(rng, n, two_d=False, k=None):
    k = k or rng.choice([2, 3])
    seen, out = set(), []
    while len(out) < n:
        if two_d:
            v = [[rng.randrange(0, 9) for _ in range(k)] for _ in range(2)]
        else:
            v = [rng.randrange(0, 30) for _ in range(k)]
        t = json.dumps(v)
        if t not in seen:
            seen.add(t)
            out.append(v)
    return out


def gen_models(rng, flavour):
    """stamp probes: [{group, name, args}] — unique names inside a group"""
    nm = rng.choice([1, 2, 2, 3])
    models = []
    used = set()
    if flavour == "same_model_two_groups":
        g1, g2 = rng.sample(GROUPS[1:9], 2)
        name = rng.choice(MODEL_NAMES)
        arg = rng.choice(ARG_NAMES)
        for g in (g1, g2):
            models.append({"group": g, "name": name, "args": {arg: rng.randrange(100), "z": rng.randrange(5)}})
            used.add((g, name))
    elif flavour == "two_models_same_arg":
        arg = rng.choice(ARG_NAMES)
        g1, g2 = rng.choice(GROUPS[1:9]), rng.choice(GROUPS[1:9])
        n1, n2 = rng.sample(MODEL_NAMES, 2)
        for g, n in ((g1, n1), (g2, n2)):
            models.append({"group": g, "name": n, "args": {arg: rng.randrange(100), "z": rng.randrange(5)}})
            used.add((g, n))
    elif flavour == "field_vs_arg":
        g = rng.choice(GROUPS[1:9])
        n = rng.choice(MODEL_NAMES)
        arg = rng.choice(["quantum_efficiency", "temperature", "pre_amplification", "full_well_capacity"])
        models.append({"group": g, "name": n, "args": {arg: rng.randrange(100), "z": rng.randrange(5)}})
        used.add((g, n))
    while len(models) < nm:
        g, n = rng.choice(GROUPS[1:9]), rng.choice(MODEL_NAMES)
        if (g, n) in used:
            continue
        used.add((g, n))
        args = {}
        for a in rng.sample(ARG_NAMES, rng.choice([1, 2, 3])):
            r = rng.random() if flavour not in ("vectors", "fine", "long_expr", "mixed_kinds") else rng.choice([0.1, 0.8, 0.8]) if flavour == "vectors" else rng.choice([0.1, 0.1, 0.8]) if flavour == "long_expr" else 0.1
            args[a] = (rng.randrange(100) if r < 0.5 else rng.randrange(100) / 4 if r < 0.7
                       else [rng.randrange(9), rng.randrange(9)] if r < 0.9 else "word")
        models.append({"group": g, "name": n, "args": args})
    rng.shuffle(models)
    return models


def _candidate_keys(models):
    keys = []
    for m in models:
        if not m.get("enabled", True):
            continue  # an ENABLED parameter on a switched-off model is refused by pyxel (outside the valid space)
        for a in m["args"]:
            keys.append(f"pipeline.{m['group']}.{m['name']}.arguments.{a}")
    return keys


def gen_params(rng, models, mode, flavour, max_runs):
    """parameter declarations over model arguments and detector fields (keys pairwise different)"""
    arg_keys = _candidate_keys(models)
    field_keys = list(FIELD_POOL)
    npar = rng.choice([1, 2, 2, 3, 3, 4])
    chosen = []
    if flavour in ("same_model_two_groups", "two_models_same_arg"):
        # the two colliding keys are the first non-"z" argument of the two forced models
        forced = [m for m in models if "z" in m["args"]][:2]
        for m in forced:
            a = [x for x in m["args"] if x != "z"][0]
            chosen.append(f"pipeline.{m['group']}.{m['name']}.arguments.{a}")
    elif flavour == "field_vs_arg":
        m = [m for m in models if "z" in m["args"]][0]
        a = [x for x in m["args"] if x != "z"][0]
        chosen.append(f"pipeline.{m['group']}.{m['name']}.arguments.{a}")
        chosen.append(f"detector.characteristics.{a}" if a != "temperature" else "detector.environment.temperature")
    pool = [k for k in arg_keys + field_keys if k not in chosen]
    rng.shuffle(pool)
    while len(chosen) < npar and pool:
        chosen.append(pool.pop())
    rng.shuffle(chosen)
    params = []
    budget = max_runs
    for key in chosen:
        enabled = rng.random() < (0.8 if flavour not in ("vectors", "fine") else 1.0)
        if mode == "custom":
            if key.startswith("detector."):
                params.append({"key": key, "decl": "_", "enabled": enabled, "width": None})
            else:
                w = rng.choice([None, None, 2, 3])
                params.append({"key": key, "decl": "_" if w is None else ["_"] * w, "enabled": enabled, "width": w})
            continue
        nmax = max(1, min(4, budget)) if mode == "product" else 4
        n = rng.randrange(1, nmax + 1) if flavour != "vectors" else min(nmax, rng.choice([2, 3]))
        if enabled and mode == "product":
            budget = max(1, budget // n)
        if key.startswith("detector."):
            vals = rng.sample(FIELD_POOL[key], n)
            params.append({"key": key, "decl": vals, "expect": vals, "enabled": enabled, "multi": False})
            continue
        default = default_of({"models": models}, key)
        if isinstance(default, list):
            # sequential mode mixes the swept values with the configured one in a single coordinate: same shape
            vals = (_vector_values(rng, n, k=len(default)) if mode == "sequential"
                    else _vector_values(rng, n, two_d=rng.random() < 0.25))
            params.append({"key": key, "decl": vals, "expect": vals, "enabled": enabled, "multi": True})
        elif isinstance(default, str):
            vals = _scalar_values(rng, n, "str")
            params.append({"key": key, "decl": vals, "expect": vals, "enabled": enabled, "multi": False})
        elif rng.random() < (0.3 if flavour != "fine" else 1.0):
            expr, vals = _numpy_decl(rng, n, fine=True if flavour == "fine" else None)
            params.append({"key": key, "decl": expr, "expect": vals, "enabled": enabled, "multi": False})
        elif flavour == "mixed_kinds":
            vals = _scalar_values(rng, n, rng.choice(["text+number", "text+number", "bool+number"]))
            rng.shuffle(vals)
            params.append({"key": key, "decl": vals, "expect": vals, "enabled": True, "multi": False})
        else:
            vals = _scalar_values(rng, n, rng.choice(["int", "int", "float", "mixed"]))
            params.append({"key": key, "decl": vals, "expect": vals, "enabled": enabled, "multi": False})
    if not any(p["enabled"] for p in params):
        params[0]["enabled"] = True
    return params


LONG_EXPRS = ["numpy.arange(1, 25)", "numpy.arange(40)", "numpy.linspace(0, 1, 30)", "numpy.arange(3,48,1.5)",
              "numpy.arange(22)*0.5", "numpy.linspace(1,2,33)"]


def make_long(case, rng):
    """one numeric model-argument parameter becomes a numpy expression that expands to MORE values than its text has
    characters; the other parameters keep at most two values (so the product stays small); all enabled"""
    import numpy

    cands = [p for p in case["params"] if p["key"].startswith("pipeline.") and not p.get("multi")
             and not isinstance(p["expect"][0], str) and not p.get("on_disabled_model")]
    if not cands:
        return False
    tgt = rng.choice(cands)
    for p in case["params"]:
        p["enabled"] = not p.get("on_disabled_model")
        if p is tgt:
            continue
        if len(p["expect"]) > 2:
            p["expect"] = p["expect"][:2]
            p["decl"] = list(p["expect"]) if not isinstance(p["decl"], list) else p["decl"][:2]
    # at most two other parameters; the long one after a vector-valued one when there is one
    others = [p for p in case["params"] if p is not tgt][:2]
    others.sort(key=lambda p: not p.get("multi"))
    pos = rng.choice([len(others), len(others), 0]) if others else 0
    expr = rng.choice(LONG_EXPRS)
    tgt["decl"] = expr
    tgt["expect"] = [v.item() for v in eval(expr, {"numpy": numpy})]  # noqa: S307
    assert len(tgt["expect"]) > len(expr)
    case["params"] = others[:pos] + [tgt] + others[pos:]
    case["fields"] = sorted({p["key"][len("detector."):] for p in case["params"] if p["key"].startswith("detector.")})
    return True


def include_configured_values(case, rng):
    """every enabled scalar list parameter also lists its own CONFIGURED value (sequential mode: several runs then have
    the same full value set — each is still a requested element of the space)"""
    for p in case["params"]:
        if p["enabled"] and not p.get("multi") and isinstance(p.get("decl"), list) and "expect" in p:
            d = default_of(case, p["key"])
            if isinstance(d, (int, float)) and not isinstance(d, bool) and d not in p["expect"]:
                pos = rng.randrange(len(p["expect"]) + 1)
                p["expect"] = p["expect"][:pos] + [d] + p["expect"][pos:]
                p["decl"] = list(p["expect"])


def interleave_same_name(case, rng):
    """two enabled parameters with the same last key part and ANOTHER enabled parameter declared between them"""
    en = [p for p in case["params"] if not p.get("on_disabled_model")]
    last = lambda p: p["key"].split(".")[-1]  # noqa: E731
    pair = next(((a, b) for i, a in enumerate(en) for b in en[i + 1:] if last(a) == last(b)), None)
    if pair is None:
        return False
    a, b = pair
    # the parameter in between is a probe argument (it accepts any value: a swap shows as wrong data, not as a refusal)
    others = [p for p in en if p is not a and p is not b and last(p) != last(a) and p["key"].startswith("pipeline.")
              and not p.get("multi") and not p.get("width")]
    if not others:
        k = a["key"].rsplit(".", 1)[0] + ".z"
        vals = rng.sample(range(100, 200), 2)
        others = [({"key": k, "decl": "_", "enabled": True, "width": None} if case["mode"] == "custom"
                   else {"key": k, "decl": vals, "expect": vals, "enabled": True, "multi": False})]
    x = others[0]
    for p in (a, x, b):
        p["enabled"] = True
    rest = [p for p in case["params"] if p is not a and p is not b and p is not x]
    case["params"] = [a, x, b] + rest
    if case["mode"] == "custom":
        case["table"] = gen_table(rng, case["params"])
    return True


def func_named_models(case, rng):
    """a group that uses the probe function twice: a custom-named model declared BEFORE a model named like the function
    (`stamp`); the sweep addresses the second one by its name"""
    g = rng.choice(GROUPS[1:9])
    arg = rng.choice(ARG_NAMES)
    first = {"group": g, "name": rng.choice(["background", "m", "extra"]), "args": {arg: rng.randrange(100), "z": 1}}
    second = {"group": g, "name": "stamp", "args": {arg: rng.randrange(100), "z": 2}}
    case["models"] = [m for m in case["models"] if m["group"] != g] + [first, second]
    key = f"pipeline.{g}.stamp.arguments.{arg}"
    case["params"] = [p for p in case["params"] if not p["key"].startswith(f"pipeline.{g}.")]
    if case["mode"] == "custom":
        case["params"].insert(0, {"key": key, "decl": "_", "enabled": True, "width": None})
        case["table"] = gen_table(rng, case["params"])
    else:
        vals = _scalar_values(rng, rng.choice([2, 3]), "int")
        case["params"].insert(rng.randrange(len(case["params"]) + 1),
                              {"key": key, "decl": vals, "expect": vals, "enabled": True, "multi": False})
    case["fields"] = sorted({p["key"][len("detector."):] for p in case["params"] if p["key"].startswith("detector.")})


def add_off_model(case, rng):
    """a switched-off model (it would change its pixel if it ran) and DISABLED parameters pointing at its arguments:
    'disabled parameters are ignored' — whatever they point at"""
    used = {(m["group"], m["name"]) for m in case["models"]}
    while True:
        g, n = rng.choice(GROUPS[1:9]), rng.choice(MODEL_NAMES + ["stray"])
        if (g, n) not in used:
            break
    args = {a: rng.randrange(1, 100) for a in rng.sample(ARG_NAMES, rng.choice([1, 2]))}
    case["models"].append({"group": g, "name": n, "args": args, "enabled": False})
    for a in list(args)[: rng.choice([1, 2])]:
        key = f"pipeline.{g}.{n}.arguments.{a}"
        if case["mode"] == "custom":
            p = {"key": key, "decl": "_", "enabled": False, "width": None, "on_disabled_model": True}
        else:
            vals = _scalar_values(rng, rng.choice([1, 2, 3]), "int")
            p = {"key": key, "decl": vals, "expect": vals, "enabled": False, "multi": False, "on_disabled_model": True}
        case["params"].insert(rng.randrange(len(case["params"]) + 1), p)


def gen_table(rng, params):
    en = [p for p in params if p["enabled"]]
    nrows = rng.choice([1, 2, 3, 4, 5])
    rows = []
    for r in range(nrows):
        row = []
        for p in en:
            if p["key"].startswith("detector."):
                row.append(float(rng.choice(FIELD_POOL[p["key"]])))
            else:
                for _ in range(p["width"] or 1):
                    row.append(float(rng.randrange(0, 400)) / rng.choice([1, 1, 2, 4]))
        rows.append(row)
    return rows


def gen_case(rng, mode=None, with_dask=None, flavour=None, max_runs=16, off_model=None):
    mode = mode or rng.choice(["product", "product", "sequential", "custom"])
    if flavour is None:
        flavour = rng.choice(["plain", "fine", "vectors", "off_model", "two_models_same_arg", "same_model_two_groups", "field_vs_arg"])
    models = gen_models(rng, flavour)
    params = gen_params(rng, models, mode, flavour, max_runs)
    case = {
        "mode": mode,
        "with_dask": rng.random() < 0.4 if with_dask is None else with_dask,
        "inherit": rng.random() < 0.5,
        "construction": rng.choice(["python", "python", "yaml"]),
        "flavour": flavour,
        "models": models,
        "fields": sorted({p["key"][len("detector."):] for p in params if p["key"].startswith("detector.")}
                         | ({"environment.temperature"} if rng.random() < 0.3 else set())),
        "params": params,
    }
    if flavour == "off_model" or (off_model is None and rng.random() < 0.15) or off_model:
        add_off_model(case, rng)
    if flavour == "long_expr" and mode != "custom" and not make_long(case, rng):
        return gen_case(rng, mode=mode, with_dask=with_dask, flavour=flavour, max_runs=max_runs, off_model=off_model)
    if mode == "custom":
        case["table"] = gen_table(rng, params)
        case["extra_cols"] = rng.choice([0, 0, 1, 2])
        case["table_format"] = rng.choice(["npy", "npy", "txt"])
    return case


# ------------------------------------------------------------------ the configuration a case describes
def model_slots(case):
    return {(m["group"], m["name"]): i for i, m in enumerate(case["models"])}


def nslots(case):
    return len(case["models"]) + len(case["fields"])


def pipeline_groups(case, delay_ms=0.0, extra=None):
    groups: dict = {}
    for i, m in enumerate(case["models"]):
        args = {"slot": i, **json.loads(json.dumps(m["args"]))}
        if delay_ms:
            args["delay_ms"] = delay_ms
        groups.setdefault(m["group"], []).append({"name": m["name"], "func": "obsprobes.stamp", "arguments": args,
                                                  "enabled": m.get("enabled", True)})
    for g, ms in (extra or {}).items():
        groups.setdefault(g, []).extend(ms)
    if case["fields"]:
        groups.setdefault(FIELD_GROUP, []).append(
            {"name": "fields_recorder", "func": "obsprobes.fields",
             "arguments": {"slot": len(case["models"]), "names": list(case["fields"])}})
    return groups


def build_objects(case, delay_ms=0.0, extra=None):
    import pyx

    det = pyx.make_detector(case.get("detector_kind", "CCD"), 3, 4)
    apply_det_overrides(det, case)
    pipe = pyx.make_pipeline(pipeline_groups(case, delay_ms, extra))
    return det, pipe


def apply_det_overrides(det, case):
    """the configured detector settings of this configuration (`det_overrides`: key → value)"""
    import operator

    for k, v in (case.get("det_overrides") or {}).items():
        parts = k.split(".")[1:]
        setattr(operator.attrgetter(".".join(parts[:-1]))(det), parts[-1], v)


def write_table(case, folder):
    import numpy as np

    rows = [[7.0] * case.get("col_start", 0) + list(r) + [9.0] * case.get("extra_cols", 0) for r in case["table"]]
    if case.get("table_format") == "txt" and len(rows[0]) >= 2:
        path = os.path.join(folder, "table.txt")
        with open(path, "w") as f:
            for r in rows:
                f.write(" ".join(repr(float(x)) for x in r) + "\n")
    else:
        path = os.path.join(folder, "table.npy")
        np.save(path, np.array(rows, dtype=float))
    ncols = len(case["table"][0]) if case["table"] else 0
    return path, (case.get("col_start", 0), case.get("col_start", 0) + ncols - 1)


def build_observation(case, folder, with_dask=None, outputs=None, pipeline_seed=None):
    from pyxel.observation import Observation, ParameterValues

    extra_kw = {}
    if case.get("readout_times"):
        from pyxel.exposure import Readout

        extra_kw["readout"] = Readout(times=list(case["readout_times"]), non_destructive=bool(case.get("non_destructive")))

    pvs = [ParameterValues(key=p["key"], values=json.loads(json.dumps(p["decl"])), enabled=p["enabled"])
           for p in case["params"]]
    kw = {}
    if case["mode"] == "custom":
        path, col_range = write_table(case, folder)
        kw = {"from_file": path, "column_range": col_range}
    return Observation(parameters=pvs, mode=case["mode"],
                       with_dask=case["with_dask"] if with_dask is None else with_dask,
                       outputs=outputs, pipeline_seed=pipeline_seed, **kw, **extra_kw)


def build_from_yaml(case, folder, with_dask=None, delay_ms=0.0, extra=None):
    """the same configuration through the YAML entry point (`pyxel.configuration.loads`): observation with its
    parameters (key / values / enabled), detector and pipeline; returns (observation, detector, pipeline)"""
    import yaml
    from pyxel.configuration import loads

    obs = {"mode": case["mode"], "with_dask": case["with_dask"] if with_dask is None else with_dask,
           "parameters": [{"key": p["key"], "values": json.loads(json.dumps(p["decl"])), "enabled": p["enabled"]}
                          for p in case["params"]]}
    if case["mode"] == "custom":
        path, col_range = write_table(case, folder)
        obs["from_file"], obs["column_range"] = path, list(col_range)
    doc = {
        "observation": obs,
        "ccd_detector": {
            "geometry": {"row": 3, "col": 4, "total_thickness": 40.0, "pixel_vert_size": 10.0, "pixel_horz_size": 10.0},
            "environment": {"temperature": 200.0},
            "characteristics": {"quantum_efficiency": 0.9, "charge_to_volt_conversion": 1e-6, "pre_amplification": 100.0,
                                "full_well_capacity": 100000, "adc_bit_resolution": 16, "adc_voltage_range": [0.0, 10.0]},
        },
        "pipeline": {g: [{"name": m["name"], "func": m["func"], "enabled": m.get("enabled", True), "arguments": m["arguments"]} for m in ms]
                     for g, ms in pipeline_groups(case, delay_ms, extra).items()},
    }
    cfg = loads(yaml.safe_dump(doc, sort_keys=False))
    apply_det_overrides(cfg.detector, case)
    return cfg.observation, cfg.detector, cfg.pipeline


def default_of(case, key, _cache={}):
    """configured value of a key (what `processor.get(key)` returns on the generated configuration)"""
    if key in (case.get("extra_defaults") or {}):
        return case["extra_defaults"][key]
    if key.startswith("pipeline."):
        _, g, n, _, a = key.split(".")
        for m in case["models"]:
            if m["group"] == g and m["name"] == n:
                return m["args"][a]
        raise KeyError(key)
    if key in (case.get("det_overrides") or {}):
        return case["det_overrides"][key]
    if key in (case.get("extra_defaults") or {}):  # arguments of models other harnesses add (C06's stateful probes)
        return case["extra_defaults"][key]
    if "det" not in _cache:
        import pyx

        _cache["det"] = pyx.make_detector("CCD", 3, 4)
    import operator

    return operator.attrgetter(key[len("detector."):])(_cache["det"])


def expected_data(case, assignment: dict):
    """the fingerprint vector a run must produce when exactly `assignment` (key → value) is applied"""
    import obsprobes

    out = []
    for m in case["models"]:
        if not m.get("enabled", True):
            out.append(num(0.0))  # a switched-off model never runs: its pixel keeps the reset value
            continue
        args = dict(m["args"])
        for a in list(args):
            k = f"pipeline.{m['group']}.{m['name']}.arguments.{a}"
            if k in assignment:
                args[a] = assignment[k]
        out.append(num(obsprobes.fingerprint(args)))
    for f in case["fields"]:
        k = "detector." + f
        out.append(num(float(assignment[k]) if k in assignment else float(default_of(case, k))))
    return out


# ------------------------------------------------------------------ the statement, re-derived in Python
def short_names(keys):
    """dimension names the statement needs: pairwise different, the plain last part when that is unambiguous.
    (any injective naming satisfies the statement; this returns None when the *implementation's* names must be
    judged only for distinctness)"""
    return None


def spec_runs(case):
    """runs the STATEMENT asks for: list of {"id": run id or None, "assignment": {key: value}} in no particular
    order (product: Cartesian product; sequential: one at a time over defaults; custom: one per row)."""
    en = [p for p in case["params"] if p["enabled"]]
    keys = [p["key"] for p in en]
    runs = []
    if case["mode"] == "product":
        for combo in itertools.product(*[list(enumerate(p["expect"])) for p in en]):
            runs.append({"id": None, "index": [i for i, _ in combo],
                         "assignment": {k: v for k, (_, v) in zip(keys, combo)}})
    elif case["mode"] == "sequential":
        base = {k: default_of(case, k) for k in keys}
        n = 0
        for p in en:
            for v in p["expect"]:
                runs.append({"id": n, "assignment": {**base, p["key"]: v}})
                n += 1
    else:
        for n, row in enumerate(case["table"]):
            i, a = 0, {}
            for p in en:
                if p["width"] is None:
                    a[p["key"]] = row[i]
                    i += 1
                else:
                    a[p["key"]] = row[i:i + p["width"]]
                    i += p["width"]
            runs.append({"id": n, "assignment": a})
    return runs


def lab_canon(v):
    """canonical form of a LABEL value: as `cv`, and a bool is the number it equals (numpy / pandas coordinates hold
    True as 1; selecting by True finds it — like 1 vs 1.0, the kind of a number is not part of a label)"""
    if isinstance(v, bool):
        return {"f": [int(v), 1]}
    if isinstance(v, list):
        return [lab_canon(x) for x in v]
    if isinstance(v, dict) and set(v) != {"f"}:
        return {k: lab_canon(x) for k, x in v.items()}
    return v


def spec_entry_values(case, run):
    """{key: canonical value} of the run's label (by parameter *key*, names are judged separately)"""
    return {k: lab_canon(cv(v)) for k, v in run["assignment"].items()}


# ------------------------------------------------------------------ implementation side
def find_bucket(dt):
    for node in dt.subtree:
        if "pixel" in node.data_vars:
            return node.to_dataset()
    raise common.InfraError("no pixel bucket in the result")


def extract_entries(ds, n_slots, with_image=False, all_times=False):
    """one entry per element of the parameter grid of the result: labels (every coordinate that varies with
    the parameter dimensions, canonical) and the first `n_slots` pixels of that run"""
    import numpy as np

    ds = ds.compute() if with_image else ds
    px = ds["pixel"].compute()
    core = ("time", "y", "x")
    pdims = [d for d in px.dims if d not in core]
    coords = {}
    for cname, c in ds.coords.items():
        if cname in core or str(cname).startswith("dim_"):
            continue
        if not set(c.dims) & set(pdims):
            continue
        coords[str(cname)] = c.compute()
    entries = []
    for idx in itertools.product(*[range(px.sizes[d]) for d in pdims]):
        sel = dict(zip(pdims, idx))
        data = np.asarray(px.isel(sel).values)
        if all_times and data.ndim == 3:  # every readout step: the first n_slots pixels of each
            data = data.reshape(data.shape[0], -1)[:, :n_slots].reshape(-1)
            n_take = len(data)
        else:
            data = data.reshape(data.shape[0], -1)[0] if data.ndim == 3 else data.reshape(-1)
            n_take = n_slots
        labels = {}
        for cname, c in coords.items():
            sub = c.isel({d: i for d, i in sel.items() if d in c.dims}).values
            labels[cname] = lab_canon(cv(sub.tolist() if isinstance(sub, np.ndarray) else sub))
        e = {"labels": labels, "data": [num(x) for x in data[:n_take]]}
        if with_image and "image" in ds:
            im = np.asarray(ds["image"].isel(sel).values)
            v = im.reshape(-1)[0]
            # integer buckets exactly (a 64-bit count does not survive a trip through float)
            e["image"] = [int(v), 1] if np.issubdtype(im.dtype, np.integer) else num(v)
        entries.append(e)
    return {"dims": [str(d) for d in pdims], "entries": entries}


def exec_log(case, extra_slots=0):
    """per executed run: the fingerprint vector reconstructed from the probe log, in *completion* order
    (records are grouped per thread: a worker thread executes its runs one after the other)"""
    import obsprobes

    per = sum(1 for m in case["models"] if m.get("enabled", True)) + (1 if case["fields"] else 0) + extra_slots
    off = [i for i, m in enumerate(case["models"]) if not m.get("enabled", True)]
    recs = list(obsprobes.LOG)
    if per == 0:
        return {"ragged": len(recs)}
    by_thread: dict = {}
    done = []  # (position of the run's last record, vector)
    for pos, rec in enumerate(recs):
        cur = by_thread.setdefault(rec[4], [])
        cur.append(rec)
        if len(cur) == per:
            vec = [None] * (nslots(case) + extra_slots)
            for i in off:
                vec[i] = num(0.0)
            for r in cur:
                if r[0] in ("stamp", "draw"):
                    vec[r[1]] = num(r[3])
                elif r[0] == "fields":
                    for j, v in enumerate(r[3]):
                        vec[r[1] + j] = num(v)
            done.append((pos, vec))
            by_thread[rec[4]] = []
    if any(by_thread.values()):
        return {"ragged": len(recs)}
    return [v for _, v in sorted(done, key=lambda t: t[0])]


def run_impl(case, scheduler="synchronous", num_workers=None, delay_ms=0.0, with_dask=None, outputs_dir=None,
             pipeline_seed=None, extra=None, extra_slots=0, with_image=False, all_times=False):
    """run the real Observation; returns {"dims", "entries", "exec"} or {"error", "msg"}"""
    import dask
    import obsprobes
    import pyxel

    tmp = tempfile.mkdtemp(prefix="verif-c05-")
    cwd = os.getcwd()
    try:
        os.chdir(tmp)
        obsprobes.reset()
        try:
            outputs = None
            if outputs_dir is not None:
                from pyxel.outputs import ObservationOutputs

                outputs = ObservationOutputs(output_folder=outputs_dir, save_data_to_file=[{"detector.pixel.array": ["npy"]}])
            if case.get("construction") == "yaml" and outputs is None and pipeline_seed is None \
                    and case.get("detector_kind", "CCD") == "CCD":
                obs, det, pipe = build_from_yaml(case, tmp, with_dask=with_dask, delay_ms=delay_ms, extra=extra)
            else:
                det, pipe = build_objects(case, delay_ms, extra)
                obs = build_observation(case, tmp, with_dask=with_dask, outputs=outputs, pipeline_seed=pipeline_seed)
            cfg = {"scheduler": scheduler}
            if num_workers:
                cfg["num_workers"] = num_workers
            with dask.config.set(**cfg):
                dt = pyxel.run_mode(mode=obs, detector=det, pipeline=pipe,
                                    with_inherited_coords=bool(case.get("inherit")) or obs.with_dask)
                out = extract_entries(find_bucket(dt), nslots(case) + extra_slots, with_image, all_times)
            out["exec"] = exec_log(case, extra_slots)
            if outputs is not None:
                out["output_dir"] = str(outputs.current_output_folder)
            return out
        except common.InfraError:
            raise
        except Exception as e:  # noqa: BLE001
            return {"error": common.err_kind(e), "msg": f"{type(e).__name__}: {e}"[:300]}
    finally:
        os.chdir(cwd)
        shutil.rmtree(tmp, ignore_errors=True)


def reconfigure(case, rng):
    """the same parameter space over ANOTHER configuration: other configured values for every model argument and
    for the swept (and some more) detector fields; the Observation (parameters, mode, table) is unchanged"""
    c2 = json.loads(json.dumps(case))
    for m in c2["models"]:
        for a, v in list(m["args"].items()):
            if isinstance(v, list):
                m["args"][a] = [x + rng.randrange(1, 9) for x in v]
            elif isinstance(v, str):
                m["args"][a] = v + rng.choice(["x", "y", "z"])
            elif isinstance(v, (int, float)):
                m["args"][a] = v + rng.choice([1, 2, 0.5, 10])
    ov = dict(c2.get("det_overrides") or {})
    for k, pool in FIELD_POOL.items():
        if ("detector." + k[len("detector."):]) and (k[len("detector."):] in c2["fields"] or rng.random() < 0.3):
            ov[k] = rng.choice([v for v in pool if v != default_of(case, k)])
    c2["det_overrides"] = ov
    c2["fields"] = sorted(set(c2["fields"]) | {k[len("detector."):] for k in ov})
    return c2


def run_history(cases, parallel, in_place=False):
    """ONE Observation object (built from cases[0]) used for len(cases) successive run_mode calls, call k on the
    configuration cases[k] (fresh detector / pipeline objects, or the first call's objects edited in place).
    All cases share parameters / mode / table / recorded fields.  Returns one result per call."""
    import dask
    import obsprobes
    import pyxel

    tmp = tempfile.mkdtemp(prefix="verif-c05h-")
    cwd = os.getcwd()
    out = []
    try:
        os.chdir(tmp)
        obs = build_observation(cases[0], tmp, with_dask=parallel)
        det = pipe = None
        for k, case in enumerate(cases):
            obsprobes.reset()
            try:
                if det is None or not in_place:
                    det, pipe = build_objects(case)
                else:
                    apply_det_overrides(det, case)
                    for i, m in enumerate(case["models"]):
                        mf = getattr(getattr(pipe, m["group"]), m["name"])
                        for a, v in m["args"].items():
                            mf.arguments[a] = json.loads(json.dumps(v))
                with dask.config.set(scheduler="synchronous"):
                    dt = pyxel.run_mode(mode=obs, detector=det, pipeline=pipe,
                                        with_inherited_coords=bool(case.get("inherit")) or parallel)
                    res = extract_entries(find_bucket(dt), nslots(case))
                res["exec"] = exec_log(case)
            except common.InfraError:
                raise
            except Exception as e:  # noqa: BLE001
                res = {"error": common.err_kind(e), "msg": f"{type(e).__name__}: {e}"[:300]}
            out.append(res)
        return out
    finally:
        os.chdir(cwd)
        shutil.rmtree(tmp, ignore_errors=True)


# ------------------------------------------------------------------ Lean side
def step_facts(case):
    """what `validate_steps` looks at, read off the generated configuration: [enabled, has key, model on, placeholder]"""
    on = {(m["group"], m["name"]): m.get("enabled", True) for m in case["models"]}
    out = []
    for p in case["params"]:
        parts = p["key"].split(".")
        model_on = on.get((parts[1], parts[2]), True) if parts[0] == "pipeline" else True
        out.append([bool(p["enabled"]), not p.get("missing_key", False), bool(model_on), case["mode"] == "custom"])
    return out


def lean_request(case):
    req = _lean_request(case)
    req["facts"] = step_facts(case)
    return req


def _lean_request(case):
    if case["mode"] == "custom":
        return {"op": "custom", "ncols": len(case["table"][0]) if case["table"] else 0,
                "rows": [[ctext(x) for x in r] for r in case["table"]],
                "params": [{"key": p["key"], "width": p["width"], "enabled": p["enabled"]} for p in case["params"]]}
    req = {"op": case["mode"],
           "params": [{"key": p["key"], "values": [ctext(v) for v in p["expect"]], "enabled": p["enabled"],
                       "multi": p["multi"]} for p in case["params"]]}
    if case["mode"] == "sequential":
        keys = []
        for p in case["params"]:
            if p["enabled"] and p["key"] not in keys:
                keys.append(p["key"])
        req["defaults"] = [[k, ctext(default_of(case, k))] for k in keys]
    return req


def model_entries(case, ans, parallel):
    """what the Lean model says the labelled result is: list of {"labels": {...}, "data": [...]}"""
    if "error" in ans:
        return {"error": ans["error"]}
    en_keys = []
    for p in case["params"]:
        if p["enabled"] and p["key"] not in en_keys:
            en_keys.append(p["key"])
    dim = dict(zip(en_keys, ans["dims"]))
    multi = {p["key"]: p.get("multi", False) for p in case["params"]}
    entries, order = [], []
    for r in ans["runs"]:
        if case["mode"] == "custom":
            assignment = {k: (json.loads(v[1]) if v[0] == "s" else [json.loads(x) for x in v[1]]) for k, v in r["params"]}
        else:
            assignment = {k: json.loads(v) for k, v in r["params"]}
        labels = {}
        if case["mode"] == "product":
            for (k, v), lab in zip(r["params"], r["lab_seq"]):
                labels[dim[k]] = json.loads(v)
                if not parallel and lab[0] == "i":
                    labels[dim[k] + "_id"] = cv(lab[1])
        else:
            labels["id"] = cv(r["index"])
            for k, v in assignment.items():
                labels[dim[k]] = _canon_json(v)
        data = expected_data(case, {k: _decanon(v) for k, v in assignment.items()})
        entries.append({"labels": {k: lab_canon(v) for k, v in labels.items()}, "data": data})
        order.append(data)
    return {"entries": entries, "exec": order, "dims": ans["dims"]}


def _canon_json(v):
    return v  # assignment values decoded from canonical text are already canonical JSON


def _decanon(v):
    """canonical JSON value → Python value (numbers back from {"f":[n,d]})"""
    if isinstance(v, dict) and set(v) == {"f"}:
        n, d = v["f"]
        return n if d == 1 else n / d
    if isinstance(v, list):
        return [_decanon(x) for x in v]
    return v


def sort_entries(entries):
    return sorted(entries, key=lambda e: common.canon(e))


# ------------------------------------------------------------------ the property, evaluated on the implementation
def failure_class(case, parallel):
    """stable key of the input class a failing case belongs to: mode, path and the special patterns it contains"""
    en = _unique_enabled(case)
    keys = [p["key"] for p in en]
    last = lambda k: k.split(".")[-1]  # noqa: E731
    tags = []
    det = {last(k) for k in keys if k.startswith("detector.")}
    if any(k.startswith("pipeline.") and last(k) in det for k in keys):
        tags.append("names=detector-field-vs-model-argument")
    pk = [k.split(".") for k in keys if k.startswith("pipeline.")]
    if any(a[2] == b[2] and a[4] == b[4] and a[1] != b[1] for a, b in itertools.combinations(pk, 2)):
        tags.append("names=same-model-name-in-two-groups")
    widths = [(len(p["expect"][0]) if case["mode"] != "custom" else p["width"])
              for p in en if (p.get("multi") or p.get("width"))]
    if len(set(widths)) > 1:
        tags.append("vector-parameters-of-different-length")
    return ":".join([case["mode"], "dask" if parallel else "seq"] + tags)


def property_predicate(case, impl, parallel):
    """None if the statement holds on this result, else (key, description)."""
    flav = failure_class(case, parallel)
    if "error" in impl:
        return (f"{flav}:run-fails",
                f"observation over a valid parameter space fails: {impl['msg']}")
    spec = spec_runs(case)
    want = sorted(common.canon(expected_data(case, r["assignment"])) for r in spec)
    got = sorted(common.canon(e["data"]) for e in impl["entries"])
    tag = flav
    if len(impl["entries"]) != len(spec):
        return (f"{tag}:run-count", f"result has {len(impl['entries'])} entries, the parameter space has {len(spec)} elements")
    if got != want:
        return (f"{tag}:run-set", "the data in the result is not the data of exactly the requested runs "
                "(a run is missing, duplicated, or was made with other values)")
    # every entry's label must describe the values its data was produced with
    by_data = {}
    for r in spec:
        by_data.setdefault(common.canon(expected_data(case, r["assignment"])), []).append(r)
    for e in impl["entries"]:
        cands = by_data[common.canon(e["data"])]
        ok = False
        for r in cands:
            vals = spec_entry_values(case, r)
            # each assigned value must appear among the entry's label values, and the id (if any) must match
            labvals = [common.canon(v) for k, v in e["labels"].items()]
            if all(common.canon(v) in labvals for v in vals.values()) and (r["id"] is None or e["labels"].get("id") == cv(r["id"])):
                # and distinct parameters need distinct coordinates
                ok = len([k for k in e["labels"] if k != "id" and not k.endswith("_id")]) >= len(vals)
                if ok:
                    break
        if not ok:
            return (f"{tag}:label", f"entry labelled {e['labels']} holds data produced with "
                    f"{[spec_entry_values(case, r) for r in cands][:2]}")
    # position labels (`<name>_id`, product mode, sequential path): the value coordinate `<name>` of the entry must
    # be the declared value at that position
    if case["mode"] == "product":
        for e in impl["entries"]:
            for k, v in e["labels"].items():
                if k.endswith("_id") and k[:-3] in e["labels"]:
                    pos = _decanon(v)
                    want_v = e["labels"][k[:-3]]
                    if not any(p.get("multi") and isinstance(pos, int) and 0 <= pos < len(p["expect"])
                               and cv(p["expect"][pos]) == want_v for p in _unique_enabled(case)):
                        return (f"{tag}:index-label", f"entry labelled {k}={pos} carries value {want_v}, which is not "
                                "the value declared at that position")
    # executions on the sequential path: each element once
    if not parallel:
        ex = impl.get("exec")
        if isinstance(ex, dict) or sorted(common.canon(x) for x in ex) != want:
            return (f"{tag}:executions", "the pipeline executions are not exactly one per element of the parameter space")
    return None


# ------------------------------------------------------------------ wide ADC: integer buckets above 2**53
def adc_dtype_bits(bits):
    return 8 if bits <= 8 else 16 if bits <= 16 else 32 if bits <= 32 else 64


def check_wide_adc(ck, rng, mode, parallel):
    """an image writer whose dtype follows `adc_bit_resolution` (33–64 bit: uint64) and whose counts exceed 2**53
    (saturated code, 2**53+1 …): the entry labelled with given values must hold exactly the count a single exposure
    with those values gives, on both paths"""
    case = gen_case(rng, mode=mode, with_dask=parallel, flavour="plain", max_runs=6, off_model=False)
    case["construction"] = "python"
    value = rng.choice([2**64 - 1, 2**53 + 1, 2**63 + 12345, 2**60 + 7])
    fixed = rng.choice([64, 48, 33, 40])
    case["det_overrides"] = {"detector.characteristics.adc_bit_resolution": fixed}
    swept = rng.random() < 0.5
    if swept:
        bits = rng.sample([64, 40, 16, 57], rng.choice([2, 3]))
        case["params"].append({"key": "detector.characteristics.adc_bit_resolution", "decl": bits, "expect": bits,
                               "enabled": True, "multi": False})
    case["fields"] = sorted(set(case["fields"]) | {"characteristics.adc_bit_resolution"})
    case["adc_value"] = value
    extra = {"readout_electronics": [{"name": "adc", "func": "obsprobes.adc_image", "arguments": {"value": value}}]}
    impl = run_impl(case, with_dask=parallel, extra=extra, extra_slots=0, with_image=True)
    ck.case({"wide_adc": case, "parallel": parallel}, nontrivial="error" not in impl, stream="wide-adc")
    ck.count(f"wide-adc:{mode}:{'dask' if parallel else 'seq'}:{'swept' if swept else 'fixed'}")
    tag = f"{'dask' if parallel else 'seq'}:wide-adc"
    if "error" in impl:
        ck.violation(f"C05:{tag}:run-fails", f"observation over a valid parameter space fails: {impl['msg']}",
                     {"wide_adc": case, "parallel": parallel})
        return
    spec = spec_runs(case)
    want = sorted(common.canon([expected_data(case, r["assignment"]),
                                [min(value, 2 ** adc_dtype_bits(int(r["assignment"].get(
                                    "detector.characteristics.adc_bit_resolution", fixed))) - 1), 1]]) for r in spec)
    got = sorted(common.canon([e["data"], e.get("image")]) for e in impl["entries"])
    if got != want:
        bad = next((g for g, w in zip(got, want) if g != w), got[-1] if got else None)
        ck.violation(f"C05:{tag}:bucket-values",
                     f"ADC count {value} (dtype by adc_bit_resolution): the entries' (pixel fingerprints, image count) are not those of "
                     f"the single exposures with the labelled values; first differing entry {bad}",
                     {"wide_adc": case, "parallel": parallel, "got": got[:3], "want": want[:3]})


# ------------------------------------------------------------------ check body
def stable_key(why_key: str) -> str:
    return why_key


def check_case(ck, case, ans, stream, parallel, impl=None, history=None):
    impl = impl if impl is not None else run_impl(case, with_dask=parallel)
    if case.get("invalid"):
        # a parameter space pyxel must refuse before any run: only model vs implementation (kind of refusal)
        got = impl.get("error", "ok")
        if got != ans.get("valid", "ok"):
            ck.disagreement(stream + "-validation", case, got, ans.get("valid", "ok"))
        ck.count(f"invalid-space:{case['invalid']}:{got}")
        return impl
    model = model_entries(case, ans, parallel)
    why = property_predicate(case, impl, parallel)
    if why is not None:
        rp = {"case": case, "parallel": parallel, "impl": impl}
        if history:
            rp["history"] = history  # {"cases": [...calls up to this one...], "in_place": bool}
        ck.violation("C05:" + stable_key(why[0]) + (":reused-observation" if history and len(history["cases"]) > 1 else ""),
                     why[1] + (f" (call #{len(history['cases'])} with the same Observation object)" if history else ""), rp)
    if "error" in impl or "error" in model:
        if ("error" in impl) != ("error" in model):
            ck.disagreement(stream, case, impl.get("error", "ok"), model.get("error", "ok"))
        return impl
    a = {"dims": sorted(impl["dims"]) if case["mode"] == "product" else impl["dims"],
         "entries": sort_entries(impl["entries"])}
    pdims = [d + ("_id" if (not parallel and p.get("multi")) else "") for d, p in
             zip(model["dims"], _unique_enabled(case))] if case["mode"] == "product" else ["id"]
    b = {"dims": sorted(pdims) if case["mode"] == "product" else pdims, "entries": sort_entries(model["entries"])}
    if a != b:
        ck.disagreement(stream, case, a, b)
    elif not parallel and impl["exec"] != model["exec"]:
        # the ORDER in which the runs are executed is not part of the statement (the multiset is judged above)
        ck.count("execution-order-differs-from-enumeration(not judged)")
    return impl


def _unique_enabled(case):
    seen, out = set(), []
    for p in case["params"]:
        if p["enabled"] and p["key"] not in seen:
            seen.add(p["key"])
            out.append(p)
    return out


def n_runs(case):
    return len(spec_runs(case))


def body(ck: common.Check):
    ck.obligations(["PyxelModel.Props.C05"], ["PyxelModel.Drive.C05"])
    rng = ck.rng
    quick = ck.tier == "quick"
    cases = []
    # directed stream: every mode × path × collision flavour at least once
    for mode in ("product", "sequential", "custom"):
        for wd in (False, True):
            for flav in ("plain", "fine", "vectors", "off_model", "two_models_same_arg", "same_model_two_groups", "field_vs_arg"):
                cases.append(("directed", gen_case(rng, mode=mode, with_dask=wd, flavour=flav, max_runs=8)))
    # spaces that must be refused: an ENABLED parameter on a switched-off model / on a key that does not exist
    for kind in ("enabled-on-off-model", "missing-key"):
        c = gen_case(rng, mode="product" if kind == "missing-key" else rng.choice(["product", "sequential"]),
                     with_dask=rng.random() < 0.5, flavour="off_model")
        c["construction"] = "python"
        if kind == "enabled-on-off-model":
            next(p for p in c["params"] if p.get("on_disabled_model"))["enabled"] = True
        else:
            c["params"].append({"key": "pipeline.photon_collection.nosuchmodel.arguments.a", "decl": [1, 2], "expect": [1, 2],
                                "enabled": True, "multi": False, "missing_key": True})
        c["invalid"] = kind
        cases.append(("invalid", c))
    # sequential mode, >= 2 enabled parameters whose lists contain their own configured value (both paths)
    for wd in (False, True):
        for _ in range(40):
            c = gen_case(rng, mode="sequential", with_dask=wd, flavour="plain", max_runs=8, off_model=False)
            if sum(1 for p in c["params"] if p["enabled"] and isinstance(p["decl"], list) and not p.get("multi")
                   and isinstance(default_of(c, p["key"]), (int, float))) >= 2:
                break
        include_configured_values(c, rng)
        cases.append(("directed", c))
    # a group using the probe function twice, the second model named like the function (all modes; both paths)
    for mode, wd in (("product", False), ("sequential", True), ("custom", False)):
        c = gen_case(rng, mode=mode, with_dask=wd, flavour="plain", max_runs=6, off_model=False)
        func_named_models(c, rng)
        cases.append(("directed", c))
    # same-named parameters with another parameter declared between them (dask path: names zipped with the tuple)
    for mode in ("product", "sequential"):
        c = gen_case(rng, mode=mode, with_dask=True, flavour="two_models_same_arg", max_runs=8, off_model=False)
        interleave_same_name(c, rng)
        cases.append(("directed", c))
    # value lists of mixed kinds (text + number, bool + number) for an argument that accepts anything
    for mode, wd in (("product", False), ("sequential", False), ("product", True), ("sequential", True)):
        for _ in range(40):
            c = gen_case(rng, mode=mode, with_dask=wd, flavour="mixed_kinds", max_runs=8, off_model=False)
            if any(p["enabled"] and isinstance(p["decl"], list) and len({type(v).__name__ for v in p["expect"]} - {"float"}) >= 2
                   for p in c["params"]):
                break
        cases.append(("directed", c))
    for _ in range(0 if quick else 40):
        cases.append(("random", gen_case(rng, mode=rng.choice(["product", "sequential"]), flavour="mixed_kinds", off_model=False)))
    # integer buckets wider than a double's mantissa (both paths, product and sequential mode)
    for mode, wd in [("product", True), ("sequential", True), ("product", False)] + \
            [(rng.choice(["product", "sequential"]), rng.random() < 0.7) for _ in range(0 if quick else 30)]:
        check_wide_adc(ck, rng, mode, wd)
    # the YAML entry point, with a disabled parameter in every case (all modes, both paths)
    for mode in ("product", "sequential", "custom"):
        for wd in (False, True):
            for _ in range(50):
                c = gen_case(rng, mode=mode, with_dask=wd, flavour="plain", max_runs=8)
                if any(not p["enabled"] for p in c["params"]):
                    break
            c["construction"] = "yaml"
            cases.append(("directed", c))
    # numpy expressions that expand to more values than their text has characters (product and sequential mode, both paths)
    for mode, wd in (("product", False), ("product", False), ("product", True), ("sequential", False)):
        cases.append(("directed", gen_case(rng, mode=mode, with_dask=wd, flavour="long_expr")))
    for _ in range(0 if quick else 40):
        cases.append(("random", gen_case(rng, mode=rng.choice(["product", "product", "sequential"]), flavour="long_expr")))
    for _ in range(40 if quick else 1800):
        cases.append(("random", gen_case(rng, max_runs=12 if quick else 36)))
    answers = LeanDriver("C05").batch([lean_request(c) for _, c in cases])
    for (stream, case), ans in zip(cases, answers):
        if "bad" in ans:
            raise common.InfraError(f"driver rejected request: {ans}")
        parallel = case["with_dask"]
        check_case(ck, case, ans, stream, parallel)
        nr = 0 if case.get("invalid") else n_runs(case)
        ck.case(case, nontrivial=nr >= 2 or bool(case.get("invalid")), stream=stream)
        ck.count(f"mode={case['mode']}")
        ck.count(f"path={'dask' if parallel else 'sequential'}")
        ck.count(f"flavour={case['flavour']}")
        ck.count(f"construction={case.get('construction', 'python')}")
        ck.count("runs", nr)
        ck.count("params_disabled", sum(1 for p in case["params"] if not p["enabled"]))
        ck.count("params_vector", sum(1 for p in case["params"] if p.get("multi") or p.get("width")))
        ck.count("params_numpy_expr", sum(1 for p in case["params"] if isinstance(p.get("decl"), str) and "numpy" in p["decl"]))
        ck.count("params_detector_field", sum(1 for p in case["params"] if p["key"].startswith("detector.")))
    # history stream: ONE Observation object, several run_mode calls, the configuration changed in between; every
    # call is judged with the configuration given to THAT call (the model's `defaults` are the current call's)
    hist = []
    for mode in ("sequential", "sequential", "product", "custom"):
        for wd in (False, True):
            hist.append((mode, wd))
    for _ in range(0 if quick else 60):
        hist.append((rng.choice(["sequential", "sequential", "product", "custom"]), rng.random() < 0.5))
    hcases = []
    for mode, wd in hist:
        c0 = gen_case(rng, mode=mode, with_dask=wd, flavour=rng.choice(["plain", "vectors", "fine"]), max_runs=8)
        if mode == "sequential":  # at least two enabled parameters: the others' configured values matter
            for _ in range(20):
                if sum(p["enabled"] for p in c0["params"]) >= 2:
                    break
                c0 = gen_case(rng, mode=mode, with_dask=wd, flavour="plain", max_runs=8)
        c0["fields"] = sorted(set(c0["fields"]) | {"characteristics.quantum_efficiency"})
        seq = [c0]
        for _ in range(rng.choice([1, 2])):
            seq.append(reconfigure(seq[-1], rng))
        for c in seq:
            c["fields"] = seq[-1]["fields"]
        hcases.append((seq, wd, rng.random() < 0.5))
    flat = [c for seq, _, _ in hcases for c in seq]
    hans = LeanDriver("C05").batch([lean_request(c) for c in flat])
    pos = 0
    for seq, wd, in_place in hcases:
        results = run_history(seq, wd, in_place)
        for k, (c, res) in enumerate(zip(seq, results)):
            ans = hans[pos]
            pos += 1
            check_case(ck, c, ans, f"history-call{k}", wd, impl=res, history={"cases": seq[:k + 1], "in_place": in_place})
            ck.case({"history": k, "case": c, "in_place": in_place}, nontrivial=k >= 1, stream="history")
            ck.count(f"history:{c['mode']}:{'dask' if wd else 'seq'}:call{k}")
    ck.rule = ("1-4 parameters (keys pairwise different) over stamp-probe arguments and detector fields; scalar int/float/"
               "mixed/string lists, lists of mixed kinds (text + number, bool + number), numpy expressions (integer / dyadic with independently computed expectations; tiny magnitudes, long "
               "mantissas and fractional steps, and expressions expanding to 20-40 values — more than their text has characters — "
               "evaluated with numpy in the harness, compared bit for bit), 1-D and 2-D vector values, "
               "enabled/disabled mix; built through the Python API or from YAML (pyxel.configuration.loads); product / sequential / custom (npy and txt tables, extra unused columns); sequential "
               "path and dask path (synchronous scheduler); collision flavours: two models sharing an argument name, one "
               "model name in two groups, detector field vs model argument; non-trivial = at least two runs; distinct by "
               "canonical JSON; history stream: one Observation object used for 2-3 successive run_mode calls on reconfigured "
               "detectors / pipelines (fresh objects or edited in place), each call judged with its own configuration")
    ck.assumptions = [
        "value lists without repeated values (DESIGN 6b); vector values of one parameter have equal lengths",
        "numbers are compared by value (1 and 1.0 are the same parameter value; pandas/xarray change the numeric type)",
        "the dask path's extra metadata execution of the first element is not counted (DESIGN 6b)",
        "dimension names are compared as dotted strings; the model compares part lists ('.'.join is injective on dot-free parts)",
        "every probe writes a 48-bit hash of the keyword arguments it received into its own pixel: equal data = equal applied values",
    ]
    ck.trusted_base.append("C05: xarray merge / apply_ufunc assemble per-run results by coordinate label; pandas MultiIndex.from_product; "
                           "probe fingerprints (sha1, 48 bits) are collision-free on the generated values")


def replay(path):
    common.ensure_repo_on_path()
    rp = json.load(open(path))
    if "wide_adc" in rp["replay"]:
        import random

        ck = common.Check("C05", "quick")
        c = rp["replay"]["wide_adc"]
        for seed in range(6):  # the failing class (uint64 counts above 2**53) does not depend on the drawn numbers
            check_wide_adc(ck, random.Random(seed), c["mode"], rp["replay"].get("parallel", True))
        print("REPRODUCED: " + ck.violations[0]["what"] if ck.violations else "not reproduced (property holds on this input)")
        return 1 if ck.violations else 0
    case = rp["replay"].get("case")
    if case is None:
        print("replay names a broken obligation/correspondence, no concrete input:", rp["what"])
        return 1
    parallel = rp["replay"].get("parallel", case["with_dask"])
    hist = rp["replay"].get("history")
    impl = run_history(hist["cases"], parallel, hist["in_place"])[-1] if hist else run_impl(case, with_dask=parallel)
    why = property_predicate(case, impl, parallel)
    print("impl:", json.dumps(impl, default=str)[:1500])
    print("REPRODUCED: " + why[1] if why else "not reproduced (property holds on this input)")
    return 1 if why else 0


if __name__ == "__main__":
    if len(sys.argv) > 2 and sys.argv[1] == "--replay":
        sys.exit(replay(sys.argv[2]))
    sys.exit(run_check("C05", body))
