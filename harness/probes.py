"""Probe model functions referenced by dotted path (`probes.<name>`) from generated pipelines.

They are the observation points named in the properties' `observe_at`.  All state lives in the
module-level `LOG` list (per process); harnesses clear it before a run and read it after.
"""

from __future__ import annotations

import json
import threading

import numpy as np

# ---------------------------------------------------------------------------------------- private state, robustly
# Observing a container must not convert, cache or initialise anything, so the probes look at the private fields —
# but a private name may be renamed by a refactoring: every access goes through these helpers, which fall back to the
# public accessor (guarded against its "not initialised" error) when the private name is gone.
_MISSING = object()


def held_array(cont):
    """what a bucket container holds (ndarray / DataArray) or None when it holds nothing"""
    v = getattr(cont, "_array", _MISSING)
    if v is not _MISSING:
        return v
    try:
        return cont.array
    except Exception:  # noqa: BLE001  ("not initialised")
        return None


def charge_frame(charge):
    """the cluster dataframe of the charge bucket"""
    v = getattr(charge, "_frame", _MISSING)
    return charge.frame if v is _MISSING else v


def container(detector, name: str):
    """the bucket container `name` of a detector, or None when the detector has none yet"""
    v = getattr(detector, "_" + name, _MISSING)
    if v is not _MISSING:
        return v
    try:
        return getattr(detector, name)
    except Exception:  # noqa: BLE001
        return None



LOG: list = []


def reset() -> None:
    LOG.clear()


def _canon_val(v):
    if isinstance(v, (np.generic,)):
        v = v.item()
    if isinstance(v, np.ndarray):
        return {"nd": v.tolist()}
    if isinstance(v, tuple):
        return {"t": [_canon_val(x) for x in v]}
    if isinstance(v, list):
        return [_canon_val(x) for x in v]
    if isinstance(v, dict):
        return {str(k): _canon_val(x) for k, x in v.items()}
    if isinstance(v, float):
        return {"f": v.hex()}
    return v


def canon_kwargs(kw: dict) -> str:
    """canonical text of a kwargs dict: insertion-order independent, floats exact (hex)."""
    return json.dumps({k: _canon_val(v) for k, v in kw.items()}, sort_keys=True, separators=(",", ":"))


def trace(detector, **kwargs) -> None:
    """C01: record (step counter, model name as the scheduler set it, kwargs received)."""
    LOG.append(
        (
            "call",
            int(detector.pipeline_count),
            str(detector.current_running_model_name),
            canon_kwargs(kwargs),
            type(detector).__name__,
            float(detector.environment.temperature),
            threading.get_ident(),
        )
    )
    # planned failure AFTER logging (C01: a failing model still executes exactly once)
    if kwargs.get("_raise_step") is not None and int(kwargs["_raise_step"]) == int(detector.pipeline_count):
        cls = {"TypeError": TypeError, "ValueError": ValueError, "KeyError": KeyError, "AttributeError": AttributeError}[kwargs.get("_raise_cls", "TypeError")]
        raise cls("planned failure of a trace probe")


def write_image(detector, value: int = 1, dtype: str = "uint16") -> None:
    """minimal image writer (keeps multi-readout exposures of writer-less pipelines legal)"""
    detector.image.array = np.full(detector.geometry.shape, value, dtype=dtype)


# ---------------------------------------------------------------------------------------- C02
# Per-run state of the C02 probes (set by harness/c02.py before every run).  The writer counts its
# own calls: it must not rely on the clock it helps to observe.
def held(cont):
    """what a bucket container holds, WITHOUT triggering any conversion: the private buffer when it is found (under its
    usual name, or — after a rename — as the only ndarray / DataArray / None attribute whose name speaks of an array),
    else through the public accessors (`array`, `array_3d`); None = holds nothing"""
    v = getattr(cont, "_array", _MISSING)
    if v is not _MISSING:
        return v
    try:
        import xarray as xr

        cands = [(k, x) for k, x in vars(cont).items()
                 if "arr" in k.lower() and (x is None or isinstance(x, (np.ndarray, xr.DataArray)))]
        if len(cands) == 1:
            return cands[0][1]
    except Exception:  # noqa: BLE001
        pass
    for acc in ("array", "array_3d"):
        try:
            return getattr(cont, acc)
        except Exception:  # noqa: BLE001  (not initialised / other dimensionality)
            continue
    return None


C02 = {"calls": 0, "plan": []}
C02_BIG = 999_999_999  # token of "some content that is not one of the writer's constants"


C02_NAN, C02_INF, C02_NINF = 900_000_001, 900_000_002, 900_000_003  # arrays with a NaN / +inf / -inf entry


def _c02_special(shape, k, dtype=float):
    a = np.full(shape, 1.0, dtype=dtype)
    a.flat[0] = {C02_NAN: np.nan, C02_INF: np.inf, C02_NINF: -np.inf}[k]
    if a.size > 2:
        a.flat[-1] = a.flat[0]
    return a


def _c02_tok(a):
    if a is None:
        return None
    a = np.asarray(a)
    if a.dtype.kind == "f" and a.size and not bool(np.all(np.isfinite(a))):
        if bool(np.any(np.isnan(a))):
            return C02_NAN
        return C02_INF if bool(np.any(np.isposinf(a))) else C02_NINF
    if a.size and bool(np.all(a == a.flat[0])):
        v = float(a.flat[0])
        if v.is_integer() and 0 <= v < 10**6:
            return int(v)
    return C02_BIG


def c02_state(detector) -> list:
    """canonical tokens [scene, photon, charge, pixel, signal, image]; None = holds nothing
    (charge: zero array and no clusters); pixel 0 = all-zero array.  Reads private fields only,
    so that observing never converts or initialises anything."""
    tree = container(detector, "scene").data
    if tree.is_empty and not tree.children:
        scene = None
    elif "tok" in tree.children:
        scene = int(tree["tok"]["v"])
    else:
        scene = C02_BIG
    ch = container(detector, "charge")
    if len(charge_frame(ch)):
        charge = 10**6 + int(round(float(charge_frame(ch)["number"].sum())))
    else:
        charge = _c02_tok(held(ch))
        if charge == 0:
            charge = None
    return [scene, _c02_tok(held(container(detector, "photon"))), charge, _c02_tok(held(container(detector, "pixel"))),
            _c02_tok(held(container(detector, "signal"))), _c02_tok(held(container(detector, "image")))]


def c02_apply(detector, ops) -> None:
    """apply write operations [["set", bucket, k|None] | ["add", k]] to the detector's buckets"""
    import xarray as xr
    from pyxel.data_structure import Scene

    shape = detector.geometry.shape
    for op in ops:
        if op[0] == "add":
            detector.pixel.__iadd__(np.full(shape, float(op[1])))
            continue
        _, b, k = op
        if b == "scene":
            s = Scene()
            if k is not None:
                s.data["/tok"] = xr.DataTree(xr.Dataset({"v": int(k)}))
            detector.scene = s
        elif k in (C02_NAN, C02_INF, C02_NINF) and b in ("photon", "pixel", "signal", "charge"):
            a = _c02_special(shape, k)
            if b == "charge":
                detector.charge.empty()
                detector.charge.add_charge_array(a)
            else:
                getattr(detector, b).array = a
        elif b == "photon":
            if k is None:
                detector.photon.empty()
            else:
                detector.photon.array = np.full(shape, float(k))
        elif b == "charge":
            detector.charge.empty()
            if k is None:
                pass
            elif k >= 10**6:
                z = np.zeros(1)
                detector.charge.add_charge(
                    particle_type="e", particles_per_cluster=np.array([float(k - 10**6)]), init_energy=z,
                    init_ver_position=z, init_hor_position=z, init_z_position=z,
                    init_ver_velocity=z, init_hor_velocity=z, init_z_velocity=z,
                )
            else:
                detector.charge.add_charge_array(np.full(shape, float(k)))
        elif b == "pixel":
            if k is None:
                detector.pixel.update(None)
            else:
                detector.pixel.array = np.full(shape, float(k))
        elif b == "signal":
            if k is None:
                detector.signal.empty()
            else:
                detector.signal.array = np.full(shape, float(k))
        elif b == "image":
            if k is None:
                detector.image.empty()
            else:
                detector.image.array = np.full(shape, int(k), dtype=np.uint32)
        else:
            raise ValueError(b)


def c02_probe(detector, where: str = "begin") -> None:
    """C02: record the clock the models see and the state of all buckets"""
    rp = detector.readout_properties
    LOG.append(
        (
            "c02", where,
            float(detector.time), float(detector.time_step), float(detector.absolute_time),
            int(detector.pipeline_count), bool(detector.is_first_readout), bool(detector.is_last_readout),
            int(detector.num_steps),
            (float(rp.time), float(rp.time_step), float(rp.absolute_time), int(rp.pipeline_count),
             bool(rp.is_first_readout), bool(rp.is_last_readout), int(rp.num_steps)),
            c02_state(detector),
            id(detector),  # which detector object ran (Calibration evaluates several processors, possibly interleaved)
        )
    )


def c02_writer(detector) -> None:
    """C02: apply the writes planned for this call (own call counter, not the detector's clock)"""
    i = C02["calls"]
    C02["calls"] = i + 1
    plan = C02["plan"]
    c02_apply(detector, plan[i] if i < len(plan) else [])


def fill(detector, level: float = 100.0, bucket: str = "photon") -> None:
    """deterministic writer: fill a bucket with `level * time_step` (photon/pixel/signal) everywhere"""
    shape = detector.geometry.shape
    arr = np.full(shape, float(level) * float(detector.time_step), dtype=float)
    if bucket == "photon":
        detector.photon.array = arr
    elif bucket == "pixel":
        detector.pixel.array = arr
    elif bucket == "signal":
        detector.signal.array = arr
    else:
        raise ValueError(bucket)


def noisy_to_image(detector, scale: float = 1.0) -> None:
    """stochastic model WITHOUT its own seed: image = clip(photon + N(0, scale)) — reproducible only
    under a pipeline seed (draws from the process-wide generator)."""
    base = detector.photon.array if held_array(detector.photon) is not None else np.zeros(detector.geometry.shape)
    noise = np.random.normal(scale=scale, size=base.shape)
    detector.pixel.array = np.asarray(base + noise, dtype=float)
    detector.image.array = np.clip(np.rint(base + noise), 0, 65535).astype(np.uint16)


def cal_probe(detector, **kwargs) -> None:
    """C09/C10/C11: calibration probe.  Logs the arguments it receives and fills every bucket with
    `base + s` where `base[y, x] = y*cols + x + 100*pipeline_count` and `s` = sum of all numeric
    arguments (exact when the arguments are small integers / dyadic numbers)."""
    LOG.append(("cal", canon_kwargs(kwargs), int(detector.pipeline_count)))
    rows, cols = detector.geometry.shape
    s = 0.0
    for v in kwargs.values():
        if isinstance(v, str | bool) or v is None:
            continue
        s += float(np.sum(np.asarray(v, dtype=float)))
    base = np.arange(rows * cols, dtype=float).reshape(rows, cols) + 100.0 * detector.pipeline_count
    data = base + s
    detector.photon.array = np.clip(data, 0.0, None)
    detector.charge.add_charge_array(data)
    detector.pixel.array = data.copy()
    detector.signal.array = data.copy()
    detector.image.array = np.asarray(np.clip(np.floor(data), 0, 2**31), dtype="uint32")


def c19_fill(detector, a: float = 0.0, b: float = 0.0, as_particles: bool = False, count_scale: float = 0.0,
             noise: float = 0.0) -> None:
    """C19: fill all five buckets with distinct, parameter-dependent, position-dependent values:
    bucket[y, x] = base_bucket + off + (y*cols + x)/64   (image: uint16 of 5000 + off + y*cols + x)
    with off = 16*a + b + count_scale * pipeline_count.
    `as_particles`: the charge bucket is filled partly as an array (1000 per pixel) and, for the rest, as one
    charge cluster at the centre of every pixel (the bucket's value is the same)."""
    rows, cols = detector.geometry.shape
    idx = np.arange(rows * cols, dtype=float).reshape(rows, cols)
    off = 16.0 * float(a) + float(b)
    if count_scale:
        off += float(count_scale) * float(detector.pipeline_count)
    detector.photon.array = 1000.0 + off + idx / 64.0
    if as_particles:
        geo = detector.geometry
        detector.charge.add_charge_array(np.full((rows, cols), 1000.0))
        yy, xx = np.meshgrid(np.arange(rows), np.arange(cols), indexing="ij")
        n = rows * cols
        zeros = np.zeros(n)
        detector.charge.add_charge(
            particle_type="e", particles_per_cluster=(1000.0 + off + idx / 64.0).ravel(), init_energy=zeros,
            init_ver_position=(yy.ravel() + 0.5) * geo.pixel_vert_size, init_hor_position=(xx.ravel() + 0.5) * geo.pixel_horz_size,
            init_z_position=zeros, init_ver_velocity=zeros, init_hor_velocity=zeros, init_z_velocity=zeros)
    else:
        detector.charge.add_charge_array(2000.0 + off + idx / 64.0)
    detector.pixel.array = 3000.0 + off + idx / 64.0
    if noise:
        # an unseeded stochastic model: every execution gives other values (process-wide generator)
        detector.pixel.array = detector.pixel.array + np.random.normal(scale=float(noise), size=(rows, cols))
    detector.signal.array = 4000.0 + off + idx / 64.0
    detector.image.array = np.asarray(5000.0 + off + idx, dtype=np.uint16)


# ---------------------------------------------------------------- C09: fault injection
class OddError(Exception):
    """an exception class with a constructor that cannot be called with the message alone"""

    def __init__(self, a, b):
        super().__init__(f"{a}/{b}")
        self.a, self.b = a, b


class QuietError(Exception):
    """str() of this exception is not its args"""

    def __str__(self):
        return "quiet:" + ",".join(str(a) for a in self.args)


FAULT_CLASSES = {
    "ValueError": ValueError, "ZeroDivisionError": ZeroDivisionError, "KeyError": KeyError, "TypeError": TypeError,
    "RuntimeError": RuntimeError, "Exception": Exception, "OSError": OSError, "IndexError": IndexError,
    "NotImplementedError": NotImplementedError, "AssertionError": AssertionError, "OddError": OddError,
    "QuietError": QuietError, "LookupError": LookupError, "FloatingPointError": FloatingPointError,
    # classes with special meaning to iteration / import / warning machinery: a loop written with map(),
    # next() or a generator must not mistake a model's failure for its own control flow
    "StopIteration": StopIteration, "StopAsyncIteration": StopAsyncIteration, "AttributeError": AttributeError,
    "MemoryError": MemoryError, "RecursionError": RecursionError, "EOFError": EOFError, "TimeoutError": TimeoutError,
    "ImportError": ImportError, "NameError": NameError, "OverflowError": OverflowError, "UserWarning": UserWarning,
}
FAULT_CALLS = {"n": 0}
_FAULT_LOCK = __import__("threading").Lock()


def make_fault(name: str, msg: str, note: str | None = None) -> BaseException:
    cls = FAULT_CLASSES[name]
    exc = cls(msg, 7) if cls is OddError else cls(msg)
    if note is not None:
        exc.add_note(note)
    return exc


def fault(detector, _id: str = "", level=0, level2=0, plan=None) -> None:
    """C09: log the call, then raise the planned exception when (model id, run, step) match.

    plan = {"id": <_id of the failing model>, "step": <pipeline_count>, "level": <value of `level` of the failing run or None>,
            "nth": <raise at the n-th call of the failing model in this process, or None>, "exc": <class name>, "msg": <text>,
            "note": <a note the model attaches itself, or None>, "token": <unique id of this run of this case>}
    """
    import threading

    # `token` identifies ONE run of ONE case: worker threads left over from an earlier run (pygmo islands / dask
    # tasks that keep evaluating after the exception has already reached the caller) carry the earlier run's token,
    # so they can neither take a ticket of the current run's counter nor be mistaken for its calls in the log
    token = (plan or {}).get("token")
    LOG.append(("fault", str(_id), _canon_val(level), _canon_val(level2), int(detector.pipeline_count), threading.get_ident(), token))
    if not plan or plan.get("id") != _id:
        return
    if plan.get("nth") is not None:
        key = token if token is not None else "n"
        with _FAULT_LOCK:  # evaluations run in several threads: count and read atomically
            FAULT_CALLS[key] = FAULT_CALLS.get(key, 0) + 1
            mine = FAULT_CALLS[key]
        if mine != plan["nth"]:
            return
    else:
        if plan.get("step") is not None and int(detector.pipeline_count) != plan["step"]:
            return
        if plan.get("level") is not None and level != plan["level"]:
            return
        if plan.get("level2") is not None and level2 != plan["level2"]:
            return
    if plan.get("model_seed") is not None:
        # the model fails inside its own seeded region (what every stochastic model with a `seed` argument does)
        from pyxel.util import set_random_seed

        with set_random_seed(plan["model_seed"]):
            np.random.random()
            raise make_fault(plan["exc"], plan["msg"], plan.get("note"))
    raise make_fault(plan["exc"], plan["msg"], plan.get("note"))


# ---------------------------------------------------------------------------------------- C03
# Writer / snapshot probes of C03 (harness/c03.py sets C03["plan"] and clears the rest before a run).
C03 = {"calls": 0, "plan": [], "writes": [], "snaps": []}
C03_BUCKETS = ("photon", "charge", "pixel", "signal", "image")


def _c03_ints(a) -> list:
    """exact integer values of an integer-valued array (any dtype), flattened"""
    a = np.asarray(a)
    if a.dtype.kind in "ui":
        return [int(v) for v in a.ravel().tolist()]
    return [int(v) for v in a.astype(np.float64).ravel().tolist()]


def _c03_charge_of_frame(c, geo) -> np.ndarray:
    """what the charge bucket holds when it keeps clusters: per-pixel sum of the clusters' `number`
    (pixel = floor(position / pixel size); clusters outside the area are not collected) — recomputed
    from the dataframe, independently of `Charge.array` / `convert_df_to_array`"""
    fr = charge_frame(c)
    arr = np.zeros((geo.row, geo.col), dtype=np.float64)
    num = fr["number"].to_numpy(dtype=float)
    rr = np.floor_divide(fr["position_ver"].to_numpy(dtype=float), geo.pixel_vert_size)
    cc = np.floor_divide(fr["position_hor"].to_numpy(dtype=float), geo.pixel_horz_size)
    for n, r, q in zip(num, rr, cc):
        if 0 <= r < geo.row and 0 <= q < geo.col:
            arr[int(r), int(q)] += n
    return arr


def _c03_clusters(detector, triples, via: str) -> None:
    """put clusters [[number, row, col] …] at the centres of their pixels into the charge bucket"""
    from pyxel.data_structure import Charge

    geo = detector.geometry
    n = len(triples)
    z = np.zeros(n)
    kw = dict(
        particle_type="e", particles_per_cluster=np.array([float(t[0]) for t in triples]), init_energy=z,
        init_ver_position=np.array([(t[1] + 0.5) * geo.pixel_vert_size for t in triples]),
        init_hor_position=np.array([(t[2] + 0.5) * geo.pixel_horz_size for t in triples]),
        init_z_position=z, init_ver_velocity=z, init_hor_velocity=z, init_z_velocity=z,
    )
    if via == "dataframe":
        detector.charge.add_charge_dataframe(Charge.create_charges(**kw))
    else:
        detector.charge.add_charge(**kw)


def c03_visible(detector) -> dict:
    """deep snapshot of the five buckets: None (holds nothing) or {dtype, shape, vals[, wl]};
    reads private fields only (observing must not convert or initialise anything)"""
    out = {}
    for b in C03_BUCKETS:
        c = container(detector, b)
        if b == "charge" and len(charge_frame(c)):
            arr = _c03_charge_of_frame(c, detector.geometry)  # never through `Charge.array`: observing must not convert / cache
        else:
            arr = held(c)
        if arr is None:
            out[b] = None
        elif isinstance(arr, np.ndarray):
            out[b] = {"dtype": str(arr.dtype), "shape": list(arr.shape), "vals": _c03_ints(arr)}
        else:  # 3-D photon (DataArray with wavelength)
            out[b] = {"dtype": str(arr.dtype), "shape": list(arr.shape), "vals": _c03_ints(arr.to_numpy()),
                      "wl": [float(v) for v in arr["wavelength"].to_numpy()], "dims": list(arr.dims)}
    return out


def c03_apply(detector, ops) -> None:
    import xarray as xr

    rows, cols = detector.geometry.shape
    for op in ops:
        kind = op[0]
        if kind == "set":  # ["set", bucket, dtype, flat values]
            _, b, dt, vals = op
            arr = np.array(vals, dtype=np.dtype(dt)).reshape(rows, cols)
            if b == "charge":
                detector.charge.empty()
                detector.charge.add_charge_array(arr)
            elif b == "photon":
                detector.photon.array = arr
            else:
                getattr(detector, b).array = arr
        elif kind == "set3d":  # ["set3d", dtype, wavelengths, flat values[, {"y": labels, "x": labels}]]  (multi-wavelength photon)
            dt, wl, vals = op[1], op[2], op[3]
            arr = np.array(vals, dtype=np.dtype(dt)).reshape(len(wl), rows, cols)
            coords = {"wavelength": wl}
            if len(op) > 4 and op[4]:  # a cube that carries its own row / column labels (cut-out, sky units)
                coords.update({k: list(v) for k, v in op[4].items()})
            detector.photon.array_3d = xr.DataArray(arr, dims=["wavelength", "y", "x"], coords=coords)
        elif kind == "add":  # ["add", bucket, k]  in-place accumulation on an initialised bucket
            _, b, k = op
            c = getattr(detector, b)
            if b == "charge":
                c.add_charge_array(np.full((rows, cols), float(k)))
            else:
                arr = c.array  # public getter: the array the bucket holds
                arr += np.asarray(k, dtype=arr.dtype)  # in place
        elif kind == "same":  # ["same", bucket]  rewrite the bucket with a copy of what it holds
            b = op[1]
            c = getattr(detector, b)
            if held(c) is not None and b != "charge":
                c.array = np.array(c.array, copy=True)
        elif kind == "zero":  # ["zero", bucket, dtype]  every entry set to exactly 0 (charge: emptied)
            b = op[1]
            if b == "charge":
                detector.charge.empty()
            else:
                c = getattr(detector, b)
                c.array = np.zeros((rows, cols), dtype=c.array.dtype if held(c) is not None else np.dtype(op[2]))
        elif kind == "clusters":  # ["clusters", "add_charge"|"dataframe", [[number, row, col] …]]
            _c03_clusters(detector, op[2], op[1])
        elif kind == "cl_scale":  # ["cl_scale", k]  every cluster's number × k, through set_frame_values
            ch = detector.charge
            ids = [int(i) for i in ch.frame.index]
            nums = ch.get_frame_values(quantity="number", id_list=ids)
            ch.set_frame_values(quantity="number", new_value_list=[float(v) * int(op[1]) for v in nums], id_list=ids)
        elif kind == "cl_move":  # ["cl_move", drow, dcol]  every cluster moved (cyclically) to another pixel
            ch, geo = detector.charge, detector.geometry
            ids = [int(i) for i in ch.frame.index]
            pv = ch.get_frame_values(quantity="position_ver", id_list=ids)
            ph = ch.get_frame_values(quantity="position_hor", id_list=ids)
            nr = [(int(np.floor_divide(v, geo.pixel_vert_size)) + int(op[1])) % rows for v in pv]
            nc = [(int(np.floor_divide(v, geo.pixel_horz_size)) + int(op[2])) % cols for v in ph]
            ch.set_frame_values(quantity="position_ver", new_value_list=[(r + 0.5) * geo.pixel_vert_size for r in nr], id_list=ids)
            ch.set_frame_values(quantity="position_hor", new_value_list=[(q + 0.5) * geo.pixel_horz_size for q in nc], id_list=ids)
        elif kind == "cl_remove":  # ["cl_remove", p]  remove the clusters located in pixel p (flat index)
            ch, geo = detector.charge, detector.geometry
            fr = ch.frame
            rr = np.floor_divide(fr["position_ver"].to_numpy(dtype=float), geo.pixel_vert_size).astype(int)
            qq = np.floor_divide(fr["position_hor"].to_numpy(dtype=float), geo.pixel_horz_size).astype(int)
            ids = [int(i) for i, r, q in zip(fr.index, rr, qq) if r * cols + q == int(op[1])]
            if ids and len(ids) < len(fr):
                ch.remove_from_frame(ids)
        elif kind == "cl_remove_all":  # ["cl_remove_all", how]  every cluster removed
            ch = detector.charge
            if op[1] == "ids":
                ch.remove_from_frame([int(i) for i in ch.frame.index])
            else:
                ch.remove_from_frame()
        elif kind == "collect":  # ["collect"]  what simple_collection does
            detector.pixel.array += detector.charge.array
        elif kind == "scene":  # ["scene", k[, wavelengths]]  put a source into the scene
            detector.scene.add_source(c03_source(op))
        elif kind == "data":  # ["data", key, values]  processed data
            _, key, vals = op
            detector.data[f"/{key}"] = xr.DataTree(xr.Dataset({"v": ("n", [float(v) for v in vals])}))
        elif kind == "datac":  # ["datac", key, dim, labels, values]  processed data along a LABELLED dimension (the
            # dimension may be named like a bucket dimension — time, y, x, wavelength — with its own labels)
            _, key, dim, labels, vals = op
            detector.data[f"/{key}"] = xr.DataTree(
                xr.Dataset({"v": (dim, [float(v) for v in vals])}, coords={dim: [float(v) for v in labels]}))
        else:
            raise ValueError(kind)


def c03_source(op):
    """the source a ["scene", k[, wavelengths]] operation puts into the scene"""
    import xarray as xr

    k = int(op[1])
    wl = [float(v) for v in (op[2] if len(op) > 2 else [500.0, 600.0])]
    return xr.Dataset(
        {"x": ("ref", [float(k)]), "y": ("ref", [2.0 * k]), "weight": ("ref", [1.0]),
         "flux": (("ref", "wavelength"), [[float(k + j) for j in range(len(wl))]])},
        coords={"ref": [0], "wavelength": wl},
    )


def c03_writer(detector, ident: str = "") -> None:
    """C03: apply the next planned list of writes; record the visible state before and after"""
    i = C03["calls"]
    C03["calls"] = i + 1
    plan = C03["plan"]
    before = c03_visible(detector)
    c03_apply(detector, plan[i] if i < len(plan) else [])
    C03["writes"].append({"ident": ident, "step": int(detector.pipeline_count), "name": str(detector.current_running_model_name),
                          "before": before, "after": c03_visible(detector)})


def c03_snap(detector) -> None:
    """C03: deep snapshot at the end of a step (buckets, scene, data, absolute time)"""
    C03["snaps"].append({
        "buckets": c03_visible(detector),
        "abs": float(detector.absolute_time),
        "scene": detector.scene.data.copy(deep=True) if hasattr(detector.scene.data, "copy") else None,
        "data": detector.data.copy(deep=True),
    })


def c18_snapshot(detector, tag: str = "") -> None:
    """C18: record copies of the 2-D data containers as the running detector holds them now
    (None = uninitialised), for the harness to compare with a stored detector."""
    snap = {}
    for name in ("photon", "pixel", "signal", "image", "phase"):
        if name == "phase" and not hasattr(type(detector), "phase"):
            continue
        cont = container(detector, name)
        if cont is None:
            continue
        arr = held_array(cont)
        snap[name] = None if arr is None else np.array(arr, copy=True)
    snap["charge"] = np.array(detector.charge.array, copy=True)
    LOG.append(("c18", str(tag), snap))


def cal_probe_det(detector, **kwargs) -> None:
    """C10: like `cal_probe`, and additionally logs the detector fields a calibration may target
    (`@temperature`, `@fwc`) as the model sees them when it runs."""
    seen = dict(kwargs)
    seen["@temperature"] = detector.environment.temperature
    seen["@fwc"] = detector.characteristics.full_well_capacity
    LOG.append(("cal", canon_kwargs(seen), int(detector.pipeline_count)))
    rows, cols = detector.geometry.shape
    s = 0.0
    for v in kwargs.values():
        if isinstance(v, str | bool) or v is None:
            continue
        s += float(np.sum(np.asarray(v, dtype=float)))
    data = np.arange(rows * cols, dtype=float).reshape(rows, cols) + 100.0 * detector.pipeline_count + s
    detector.photon.array = np.clip(data, 0.0, None)
    detector.charge.add_charge_array(data)
    detector.pixel.array = data.copy()
    detector.signal.array = data.copy()
    detector.image.array = np.asarray(np.clip(np.floor(data), 0, 2**31), dtype="uint32")


def cal_probe_temp(detector, **kwargs) -> None:
    """C11: like `cal_probe`, with the detector's temperature entering the data: every bucket is
    `base + s + (temperature - 200)` — so that per-target input arguments addressing a *detector* field
    (not only model arguments) change what is simulated."""
    LOG.append(("cal", canon_kwargs(kwargs), int(detector.pipeline_count)))
    rows, cols = detector.geometry.shape
    s = float(detector.environment.temperature) - 200.0
    for v in kwargs.values():
        if isinstance(v, str | bool) or v is None:
            continue
        s += float(np.sum(np.asarray(v, dtype=float)))
    data = np.arange(rows * cols, dtype=float).reshape(rows, cols) + 100.0 * detector.pipeline_count + s
    detector.photon.array = np.clip(data, 0.0, None)
    detector.charge.add_charge_array(data)
    detector.pixel.array = data.copy()
    detector.signal.array = data.copy()
    detector.image.array = np.asarray(np.clip(np.floor(data), 0, 2**31), dtype="uint32")


def c20_particles(detector, clusters=()) -> None:
    """C20: put charge clusters into the detector before a loading model runs: `clusters` = [[row, col, number], …],
    each placed at the centre of its pixel."""
    if not clusters:
        return
    geo = detector.geometry
    rows = np.array([float(c[0]) for c in clusters])
    cols = np.array([float(c[1]) for c in clusters])
    z = np.zeros(len(clusters))
    detector.charge.add_charge(
        particle_type="e", particles_per_cluster=np.array([float(c[2]) for c in clusters]), init_energy=z,
        init_ver_position=(rows + 0.5) * geo.pixel_vert_size, init_hor_position=(cols + 0.5) * geo.pixel_horz_size,
        init_z_position=z, init_ver_velocity=z, init_hor_velocity=z, init_z_velocity=z)


def c16_signal(detector, patterns=(), shape=(1, 1)) -> None:
    """C16: put a given voltage frame into the signal bucket (doubles sent as decimal strings of their 64-bit patterns)"""
    import struct

    vals = [struct.unpack("<d", struct.pack("<Q", int(p)))[0] for p in patterns]
    detector.signal.array = np.array(vals, dtype=float).reshape(tuple(shape))
