"""Probe model functions referenced by dotted path (`probes.<name>`) from generated pipelines.

They are the observation points named in the properties' `observe_at`.  All state lives in the
module-level `LOG` list (per process); harnesses clear it before a run and read it after.
"""

from __future__ import annotations

import json

import numpy as np

LOG: list = []


def reset() -> None:
    LOG.clear()


def _canon_val(v):
    if isinstance(v, (np.generic,)):
        v = v.item()
    if isinstance(v, np.ndarray):
        return {"nd": v.tolist()}
    if isinstance(v, tuple):
        return {"t": [_canon_val(x) for x in v]}
    if isinstance(v, list):
        return [_canon_val(x) for x in v]
    if isinstance(v, dict):
        return {str(k): _canon_val(x) for k, x in v.items()}
    if isinstance(v, float):
        return {"f": v.hex()}
    return v


def canon_kwargs(kw: dict) -> str:
    """canonical text of a kwargs dict: insertion-order independent, floats exact (hex)."""
    return json.dumps({k: _canon_val(v) for k, v in kw.items()}, sort_keys=True, separators=(",", ":"))


def trace(detector, **kwargs) -> None:
    """C01: record (step counter, model name as the scheduler set it, kwargs received)."""
    LOG.append(
        (
            "call",
            int(detector.pipeline_count),
            str(detector.current_running_model_name),
            canon_kwargs(kwargs),
            type(detector).__name__,
        )
    )
    # (no image writer needed any more: fixed in repo 55f6f1a)


def write_image(detector, value: int = 1, dtype: str = "uint16") -> None:
    """minimal image writer (keeps multi-readout exposures of writer-less pipelines legal)"""
    detector.image.array = np.full(detector.geometry.shape, value, dtype=dtype)
