#!/bin/bash
# usage: harness/seed_eval.sh <seeded-id> <Cxx> [quick|thorough]
# Applies seeded/<id>/patch.diff in a scratch worktree of /repo HEAD, runs the demo (must FAIL) and the
# property's check against the scratch tree (must print VIOLATION); removes the worktree afterwards.
id="$1"; pid="$2"; tier="${3:-quick}"
wt=$(mktemp -d /tmp/seedwt-XXXXXX); rmdir "$wt"
git -C /repo worktree add --detach "$wt" HEAD -q || exit 2
trap 'git -C /repo worktree remove --force "$wt" >/dev/null 2>&1; rm -f "$wt.demo.out"' EXIT
( cd "$wt" && git apply "/verif/seeded/$id/patch.diff" ) || { echo "PATCH DOES NOT APPLY"; exit 2; }
demo=$(ls /verif/seeded/$id/demo* 2>/dev/null | head -1)
if [ -n "$demo" ]; then
  ( cd "$wt" && PYTHONPATH="$wt" timeout 600 /venv/bin/python "$demo" >"$wt.demo.out" 2>&1 ); echo "demo on patched tree: rc=$? ($(tail -1 "$wt.demo.out" | cut -c1-160))"
fi
cd /verif && PYXEL_REPO="$wt" VERIF_SEED=${VERIF_SEED:-0} ./check "$pid" "$tier" 2>/dev/null | grep -E "VIOLATION|KNOWN-FINDING|^  C[0-9]|^  unproved" | head -8
echo "check rc=${PIPESTATUS[0]}"
