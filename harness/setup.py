"""setup_cmd: regenerate every table from /repo and build the Lean modules of every claimed property.
A module that does not build is reported here but does not abort the setup: the property's own
check reports it (a failed obligation is handled by the check, not by the setup)."""
import json
import subprocess
import sys
from pathlib import Path

VERIF = Path(__file__).resolve().parent.parent
sys.path.insert(0, str(VERIF / "harness"))
import extract  # noqa: E402

extract.main(["--all"])
man = json.loads((VERIF / "MANIFEST.json").read_text())
targets = ["PyxelModel.Audit", "PyxelModel.Core.J"]
for c in man["checks"]:
    pid = c["property_id"]
    for sub in ("Drive", "Props"):
        for f in sorted((VERIF / "lean" / "PyxelModel" / sub).glob(f"{pid}*.lean")):
            targets.append(f"PyxelModel.{sub}.{f.stem}")
print("lake build", " ".join(targets))
p = subprocess.run(["lake", "build", *targets], cwd=VERIF / "lean")
if p.returncode != 0:
    # retry target by target so that one broken module does not leave the others unbuilt
    for t in targets:
        subprocess.run(["lake", "build", t], cwd=VERIF / "lean", stdout=subprocess.DEVNULL, stderr=subprocess.DEVNULL)
    print("WARNING: some Lean targets failed to build; the affected checks will report it")
sys.exit(0)
