#!/bin/bash
# usage: harness/seed_regress.sh [parallelism] [ids...] — re-evaluates every seeded defect against the current checks (quick tier)
# and writes seeded/regression.json: id -> {rc, concrete (a VIOLATION line without no-failing-input-found), nfi, applies}
par="${1:-5}"; shift
cd /verif
ids="$*"; [ -z "$ids" ] && ids=$(ls seeded | grep -E '^C[0-9]{2}-[0-9]+$' | sort -t- -k2,2n -k1,1)
one() {
  s=$1; p=${s%-*}
  out=$(harness/seed_eval.sh $s $p 2>&1)
  rc=$(echo "$out" | grep -oE "check rc=[0-9]+" | grep -oE "[0-9]+$")
  applies=true; echo "$out" | grep -q "PATCH DOES NOT APPLY" && applies=false
  conc=$(echo "$out" | grep "^VIOLATION" | grep -vc "no-failing-input-found")
  nfi=$(echo "$out" | grep "^VIOLATION" | grep -c "no-failing-input-found")
  key=$(echo "$out" | grep -E "^  (C[0-9]|unproved)" | head -1 | cut -c3-120 | tr '"' "'")
  echo "{\"id\":\"$s\",\"rc\":${rc:-null},\"concrete\":$conc,\"nfi\":$nfi,\"applies\":$applies,\"first\":\"$key\"}"
}
export -f one
export OUTF=$(mktemp /tmp/seed_regress.XXXXXX.jsonl)
echo $ids | tr ' ' '\n' | xargs -P $par -I{} bash -c 'one {}' > $OUTF
python3 - <<'PY'
import json, fcntl
import os
rows=[json.loads(l) for l in open(os.environ['OUTF']) if l.strip()]
try:  # a partial run (ids given) updates the rows it re-evaluated and keeps the others
    old={r['id']:r for r in json.load(open('/verif/seeded/regression.json'))}
except Exception:
    old={}
old.update({r['id']:r for r in rows}); rows=list(old.values())
rows.sort(key=lambda r:(r['id'][:3],int(r['id'].split('-')[1])))
json.dump(rows,open('/verif/seeded/regression.json','w'),indent=1)
bad=[r for r in rows if r['applies'] and not (r['rc']==1 and (r['concrete'] or r['nfi']))]
print(len(rows),'seeds;',sum(1 for r in rows if r['applies'] and r['concrete']),'concrete;',sum(1 for r in rows if r['applies'] and not r['concrete'] and r['nfi']),'nfi only;',sum(1 for r in rows if not r['applies']),'no longer apply; NOT CAUGHT:',[r['id'] for r in bad])
PY
