"""Helpers to build real pyxel objects from generated descriptions (imports pyxel from /repo)."""

from __future__ import annotations

import warnings

warnings.filterwarnings("ignore")


def make_detector(kind: str = "CCD", rows: int = 4, cols: int = 5, **over):
    from pyxel.detectors import (
        APD, CCD, CMOS, MKID, APDCharacteristics, APDGeometry, CCDGeometry, Characteristics,
        CMOSGeometry, Environment, MKIDGeometry,
    )

    geo_kw = dict(row=rows, col=cols, total_thickness=40.0, pixel_vert_size=10.0, pixel_horz_size=10.0)
    geo_kw.update(over.get("geometry", {}))
    env = Environment(**{**dict(temperature=200.0), **over.get("environment", {})})
    if kind == "APD":
        ch_kw = dict(roic_gain=0.8, quantum_efficiency=0.9, full_well_capacity=100000, adc_bit_resolution=16,
                     adc_voltage_range=(0.0, 10.0), avalanche_gain=2.0, pixel_reset_voltage=5.0,
                     common_voltage=None)
        ch_kw.update(over.get("characteristics", {}))
        return APD(geometry=APDGeometry(**geo_kw), environment=env, characteristics=APDCharacteristics(**ch_kw))
    ch_kw = dict(quantum_efficiency=0.9, charge_to_volt_conversion=1e-6, pre_amplification=100.0,
                 full_well_capacity=100000, adc_bit_resolution=16, adc_voltage_range=(0.0, 10.0))
    ch_kw.update(over.get("characteristics", {}))
    ch = Characteristics(**ch_kw)
    if kind == "CCD":
        return CCD(geometry=CCDGeometry(**geo_kw), environment=env, characteristics=ch)
    if kind == "CMOS":
        return CMOS(geometry=CMOSGeometry(**geo_kw), environment=env, characteristics=ch)
    if kind == "MKID":
        return MKID(geometry=MKIDGeometry(**geo_kw), environment=env, characteristics=ch)
    raise ValueError(kind)


def make_pipeline(groups: dict):
    """groups: {group_name: [ {name, func, enabled, arguments}, ... ]}"""
    from pyxel.pipelines import DetectionPipeline, ModelFunction

    kw = {}
    for g, models in groups.items():
        kw[g] = [
            ModelFunction(func=m["func"], name=m["name"], arguments=dict(m.get("arguments") or {}), enabled=m.get("enabled", True))
            for m in models
        ]
    return DetectionPipeline(**kw)


def make_exposure(times=None, start_time=0.0, non_destructive=False, pipeline_seed=None, outputs=None):
    from pyxel.exposure import Exposure, Readout

    ro = Readout(times=times, start_time=start_time, non_destructive=non_destructive)
    return Exposure(readout=ro, outputs=outputs, pipeline_seed=pipeline_seed)


def run(mode, detector, pipeline, **kw):
    import pyxel

    return pyxel.run_mode(mode=mode, detector=detector, pipeline=pipeline, **kw)


def make_calibration(target_files, parameters, *, pipeline_seed=None, pygmo_seed=1, num_islands=1, num_evolutions=1,
                     population_size=8, generations=2, algo="sade", result_type="image", fitness="pyxel.calibration.fitness.sum_of_abs_residuals",
                     result_fit_range=None, target_fit_range=None, times=None, **kw):
    """parameters: list of dicts(key, values, boundaries, logarithmic)"""
    from pyxel.calibration import Algorithm, Calibration
    from pyxel.exposure import Readout
    from pyxel.observation import ParameterValues
    from pyxel.pipelines import FitnessFunction

    params = [ParameterValues(key=p["key"], values=p["values"], boundaries=p.get("boundaries"), logarithmic=p.get("logarithmic", False)) for p in parameters]
    return Calibration(
        target_data_path=list(target_files),
        fitness_function=FitnessFunction(func=fitness),
        algorithm=Algorithm(type=algo, generations=generations, population_size=population_size),
        parameters=params,
        readout=Readout(times=times) if times is not None else None,
        result_type=result_type,
        result_fit_range=result_fit_range,
        target_fit_range=target_fit_range,
        pygmo_seed=pygmo_seed,
        pipeline_seed=pipeline_seed,
        num_islands=num_islands,
        num_evolutions=num_evolutions,
        **kw,
    )
